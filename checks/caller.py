"""C19: the caller field names the user's call site. Caller.tla states the frame arithmetic and enumerates the
combinations; each becomes a generated Go source line that records runtime.Caller(0) of the same statement."""
import json
import os
import time

from vlib import (Inconclusive, Scratch, Verdict, copy_specs, go_build, log, parse_tla_tuple, run, split_recordings, tlc, validate_sharded,
                  write_evidence, HARNESS, NCPU)

FAMILY = "caller"
LEVELS = {"Trace": "Trace", "Debug": "Debug", "Info": "Info", "Warn": "Warn", "Error": "Error", "Panic": "Panic"}


def event_expr(entry, lv="l"):
    """Go expression that yields the *zerolog.Event of an entry point."""
    if entry in LEVELS:
        return "%s.%s()" % (lv, entry)
    if entry == "WithLevel":
        return "%s.WithLevel(zerolog.WarnLevel)" % lv
    if entry == "Err":
        return "%s.Err(errX)" % lv
    if entry == "Log":
        return "%s.Log()" % lv
    if entry == "log.Info":
        return "zlog.Info()"
    if entry == "log.Error":
        return "zlog.Error()"
    if entry == "log.Log":
        return "zlog.Log()"
    if entry == "log.WithLevel":
        return "zlog.WithLevel(zerolog.InfoLevel)"
    if entry == "log.Err":
        return "zlog.Err(errX)"
    raise KeyError(entry)


def fin_expr(fin):
    return {"Msg": '.Msg("m")', "MsgEmpty": '.Msg("")', "Msgf": '.Msgf("%s", "m")', "Msgf0": '.Msgf("m")', "MsgfPct": '.Msgf("100%%")',
            "MsgFunc": ".MsgFunc(msgFn)", "Send": ".Send()"}[fin]


def statement(c):
    """The user's statement for combination c (k and mechanism decide what is chained in)."""
    m, e, f, k = c["mech"], c["entry"], c["fin"], c["k"]
    if e == "Print":
        return 'l.Print("m")'
    if e == "Printf":
        return 'l.Printf("%s", "m")'
    if e == "Print0":
        return "l.Print()"
    if e == "Printf0":
        return 'l.Printf("m")'
    if e == "log.Printf0":
        return 'zlog.Printf("m")'
    if e == "Println":
        return 'l.Println("m")'
    if e == "Write":
        return 'l.Write([]byte("m\\n"))'
    if e == "log.Print":
        return 'zlog.Print("m")'
    if e == "log.Printf":
        return 'zlog.Printf("%s", "m")'
    ev = event_expr(e)
    if m == "ev":
        return ev + ".Caller()" + fin_expr(f)
    if m == "evk":
        return ev + ".Caller(%d)" % k + fin_expr(f)
    if m == "evkglobal":
        return ev + ".Caller(%d)" % (k - 1) + fin_expr(f)
    if m == "evskipframe":
        return ev + ".CallerSkipFrame(%d)" % k + fin_expr(f)
    if m == "evskipchain":
        return ev + ".CallerSkipFrame(1)" * k + fin_expr(f)
    return ev + fin_expr(f)


def generate(combos):
    out = ["//go:build gencases", "", "package main", "", "import (", '\t"errors"', '\t"runtime"', "", '\t"github.com/rs/zerolog"', '\tzlog "github.com/rs/zerolog/log"', ")", "",
           'var errX = errors.New("x")', 'var msgFn = func() string { return "m" }', "var _ = zlog.Logger", ""]
    names = []
    for i, c in enumerate(combos):
        m, k = c["mech"], c["k"]
        logger = {"ev": "r.plain()", "evk": "r.plain()", "evkglobal": "r.plain()", "ctx": "r.ctx()", "ctxcount": "r.ctxCount(%d)" % (2 + k), "ctxpinned": "r.ctxCount(%d)" % (2 + k), "ctxtwice": "r.ctxTwice()", "evskipframe": "r.ctx()", "evskipchain": "r.ctx()", "global": "r.ctx()"}[m]
        pre = "zerolog.CallerSkipFrameCount = %d; " % (2 + k) if m in ("global", "ctxpinned") else ("zerolog.CallerSkipFrameCount = 3; " if m == "evkglobal" else "")
        post = "zerolog.CallerSkipFrameCount = 2" if m == "ctxpinned" else ""   # the global changes between construction and use
        stmt = statement(c)
        combo = json.dumps(c).replace('"', '\\"')
        name = "case%d" % i
        names.append(name)
        out.append("func %s(r *rec) {" % name)
        out.append('\tr.other = "%s"' % c["other"])
        out.append("\t%sl := %s" % (pre, logger))
        out.append("\t_ = l")
        if post:
            out.append("\t" + post)
        panics = c["entry"] == "Panic"          # Panic() panics after writing: recover on the spot, the site is unchanged
        if k == 0 and panics:
            out.append('\t_, f, ln, _ := runtime.Caller(0); func() { defer func() { recover() }(); %s }(); r.done(%d, "%s", f, ln)' % (stmt, i, combo))
        elif k == 0:
            out.append('\t_, f, ln, _ := runtime.Caller(0); %s; r.done(%d, "%s", f, ln)' % (stmt, i, combo))
        else:
            if panics:
                stmt = "defer func() { recover() }(); " + stmt
            out.append("\tu0 := func() { %s }" % stmt)
            call = "u0()" if k == 1 else "depthCall(%d, u0)" % (k - 2)
            out.append('\t_, f, ln, _ := runtime.Caller(0); %s; r.done(%d, "%s", f, ln)' % (call, i, combo))
        out.append("}")
        out.append("")
    out.append("var cases = []func(r *rec){" + ", ".join(names) + "}")
    return "\n".join(out) + "\n"


def check(pid, tier, seed, replay=None):
    t0 = time.time()
    v = Verdict(pid)
    with Scratch(pid) as sc:
        mdir = sc.sub("tlc")
        copy_specs(FAMILY, mdir)
        r = tlc(mdir, "Caller", "SPECIFICATION Spec\nCHECK_DEADLOCK FALSE\nINVARIANTS SkipArithmetic Emit\n", workers=1, timeout=600)
        if r.violated:
            raise Inconclusive("Caller.tla: the model's own arithmetic does not select the user's frame: %s" % r.out[-1500:])
        combos = [json.loads(parse_tla_tuple("<<" + ln + ">>")[0].split("|", 1)[1]) for ln in r.out.splitlines() if ln.startswith('"@@COMBO|')]
        if not combos:
            raise Inconclusive("no combinations exported")
        if replay:
            combos = [json.load(open(replay))["combo"]]
        gen = sc.path("zz_cases.go")
        open(gen, "w").write(generate(combos))
        ov = sc.path("ov-caller.json")
        json.dump({"Replace": {os.path.join(HARNESS, "players", "caller", "zz_cases.go"): gen}}, open(ov, "w"))
        player = go_build("./players/caller", sc.path("callerplayer"), overlay=ov, tags="gencases", extra=["-gcflags=-l=0"])
        d = sc.sub("run")
        p = run([player, "-out", os.path.join(d, "hist.ndjson")], cwd=d, timeout=600, check=False)
        if p.returncode != 0:
            raise Inconclusive("caller player failed: %s" % p.stderr.decode(errors="replace")[-1500:])
        recs = split_recordings(os.path.join(d, "hist.ndjson"))
        lines = recs[0]
        if len(lines) != len(combos) + 1:
            raise Inconclusive("caller player recorded %d sites for %d combinations" % (len(lines) - 1, len(combos)))
        chunks = [[lines[0]] + lines[1 + i::8] for i in range(8)]
        bads = validate_sharded(sc.dir, "CallerTrace", "hist.ndjson", chunks, 8, FAMILY)
        for ri, k, e, sig in bads:
            c = json.loads(e["combo"])
            v.violation("combination %s: caller field %r, the user's statement is at %r" % (e["combo"], e["got"], e["want"]), {"property": pid, "combo": c, "record": e})
        samples = [json.loads(x) for x in lines[1:4]]
        cov = {"states": max(2, r.distinct), "transitions": max(1, r.generated), "traces_validated_against_impl": len(lines) - 1, "samples": samples,
               "combinations": len(combos), "exhaustive": True,
               "exhaustive_scope": "mechanism {Event.Caller, Event.Caller(k), Context.Caller, CallerWithSkipFrameCount(2+k), Event.CallerSkipFrame(k), global CallerSkipFrameCount} x 23 entry points (incl. Print(), Printf(const), log.Printf(const)) x 7 finalizers (incl. Msg(\"\"), Msgf(const), Msgf(\"100%%\")) x other hooks {none, before, after} x wrapper depth 0..3",
               "checker_cmd": "tlc Caller.tla (SkipArithmetic + combinations); tlc CallerTrace.tla"}
        write_evidence(pid, tier, seed, "model_checking", cov, time.time() - t0, len(v.violations),
                       assumptions=["runtime.Caller(0) on the generated line is the reference for 'the user's statement'", "not covered: the pre-go1.12 constant"])
    return v.finish()
