"""C04: level gate cube, entry points, level text forms, inert filtered events (spec/logger/LevelGate.tla)."""
import json
import time

from vlib import (Inconclusive, Scratch, Verdict, copy_specs, go_build, log, parse_tla_tuple, run_player, tlc, validate_sharded, write_evidence, NCPU)

FAMILY = "logger"


def check(pid, tier, seed, replay=None):
    t0 = time.time()
    v = Verdict(pid)
    thorough = tier == "thorough"
    with Scratch(pid) as sc:
        mdir = sc.sub("tlc")
        copy_specs(FAMILY, mdir)
        player = go_build("./players/hist", sc.path("histplayer"))
        levels = "ThoroughLevels" if thorough else "QuickLevels"
        if replay:
            rp = json.load(open(replay))
            scripts = [json.dumps({"fam": "gate", "conf": "x", "id": "replay", "ops": [rp["op"]]})]
            r = None
        else:
            r = tlc(mdir, "LevelGate", "CONSTANTS GateLevels <- %s\nSPECIFICATION Spec\nINVARIANT Emit\nCHECK_DEADLOCK FALSE\n" % levels, workers=1, timeout=600)
            entries = [json.loads(parse_tla_tuple("<<" + ln + ">>")[0].split("|", 2)[2]) for ln in r.out.splitlines() if ln.startswith('"@@HIST|')]
            if not entries:
                raise Inconclusive("LevelGate produced no scripts: %s" % r.out[-1500:])
            scripts = []
            # the full cube, split over shards: 136 event levels (-128..6 and 7) x 256 global levels x 256 logger levels
            for lo in range(-128, 8, 9):
                scripts.append(json.dumps({"fam": "gate", "conf": "x", "id": "cube%d" % lo, "ops": [{"a": "CubeRange", "lo": lo, "hi": lo + 8}]}))
            for i in range(0, len(entries), 400):
                scripts.append(json.dumps({"fam": "gate", "conf": "x", "id": "entry%d" % i, "ops": entries[i:i + 400]}))
            scripts.append(json.dumps({"fam": "gate", "conf": "x", "id": "text", "ops": [{"a": "TextAll"}, {"a": "NilAll"}, {"a": "FatalAll"}]}))
        recs = run_player(player, sc, "gate", scripts, shards=NCPU)
        log("%s: played %.0fs" % (pid, time.time() - t0))
        bads = validate_sharded(sc.dir, "LevelGateTrace", "hist.ndjson", [rr for _, rr in recs], NCPU, FAMILY, constants=" GateLevels <- %s" % levels)
        counts = {}
        for _, rr in recs:
            for ln in rr[1:]:
                a = json.loads(ln)["a"]
                counts[a] = counts.get(a, 0) + 1
        for ri, k, e, sig in bads:
            v.violation("record %s is not what LevelGate demands" % json.dumps(e)[:300], {"property": pid, "op": e if e["a"] == "Entry" else {"a": "TextAll"}, "record": e})
        if not replay:
            # "Level text forms round-trip through ParseLevel/UnmarshalText": spec/aux/LevelNames.tla - every text of its alphabet
            # parsed, all 256 levels written and read back, under three configurations of the level names
            from checks import ext
            ln_bads, ln_stats = ext.part(sc, tier, "X04")
            for script, e in ln_bads:
                v.violation("level text forms (%s): not what LevelNames.tla says" % e.get("conf"), {"property": pid, "kind": "levelnames", "op": {"a": "TextAll"}, "script": script, "record": {k: e[k] for k in ("a", "id", "conf", "nilerr")}})
        samples = [json.loads(ln) for _, rr in recs[:3] for ln in rr[1:2]]
        nil_methods = [json.loads(ln)["m"] for _, rr in recs for ln in rr[1:] if '"a":"Nil"' in ln]
        cov = {"states": max(2, (r.distinct if r else 1)), "transitions": max(1, (r.generated if r else 1)), "traces_validated_against_impl": sum(counts.values()),
               "samples": samples, "records": counts, "exhaustive": True,
               "exhaustive_scope": "cube: 136 event levels x 256 global levels x 256 logger levels (8,912,896 log calls, %d interval records); %d Event methods enumerated by reflection on a filtered event; all 256 level text forms; entry points x %s^2" % (counts.get("Cube", 0), len(nil_methods), levels),
               "nil_event_methods": nil_methods,
               "checker_cmd": "tlc LevelGate.tla (scripts); tlc LevelGateTrace.tla (validation)"}
        write_evidence(pid, tier, seed, "model_checking", cov, time.time() - t0, len(v.violations),
                       assumptions=["LevelGate.tla is the reading of the statement; sampler interplay is C13", "Fatal is observed through a re-executed child process"])
    return v.finish()
