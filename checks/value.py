"""C02: logged values decode back to what was logged, through every entry point (spec/logger/ValueDoc.tla)."""
import base64
import itertools
import json
import math
import random
import struct
import time

from concretize import INTS, f32bits, f64bits
from vlib import (Inconclusive, Scratch, Verdict, copy_specs, go_build, log, parse_tla_tuple, run_player, tlc, validate_sharded, write_evidence, NCPU)

FAMILY = "logger"


def b64(b):
    return base64.b64encode(b).decode()


STR = {"plain": [b"plain", b"a"], "quote": [b'q"uote', b'"'], "backslash": [b"back\\slash", b"\\", b"\\u0000"], "newline": [b"\n", b"a\nb\r\t"], "ctl": [b"\x00", b"\x01\x1f", b"\b\f"],
       "del": [b"\x7f"], "html": [b"</script>&"], "utf2": ["é".encode()], "utf3": ["€".encode()], "utf4": ["😀".encode()], "cont": [b"\x80", b"a\x80b"], "overlong": [b"\xc0\xaf", b"\xc1\xbf"],
       "surrogate": [b"\xed\xa0\x80", b"\xed\xbf\xbf"], "beyond": [b"\xf4\x90\x80\x80", b"\xf5"], "ff": [b"\xff", b"\xfe\xff"], "ls": ["  ".encode()], "trunc": [b"\xe2\x82", b"\xf0\x9f\x98", b"\xc3"],
       "long": [b"x" * 300, b"y" * 600 + b"\n"], "empty": [b""]}
METHODS = {"Str": ("string", "string", "Str", "Strs", "string"), "Bytes": ("bytes", "[]byte", "Bytes", None, None), "Stringer": ("stringer", "stringer", None, "Stringers", None),
           "AnErr": ("error", "error", "Err", "Errs", None)}


def int_value(typ, cls):
    lo, hi = INTS[typ]
    v = {"min": lo, "minp1": lo + 1, "m1": -1 if lo < 0 else 2, "zero": 0, "one": 1, "maxm1": hi - 1, "max": hi,
         "w8": 127 if hi >= 128 else hi, "w16": 32768 if hi >= 32768 else hi, "w32": 2**31 if hi >= 2**31 else hi, "w63": 2**63 - 1 if hi >= 2**63 - 1 else hi}[cls]
    return max(lo, min(hi, v))


def nextafter32(x, up):
    b = struct.unpack(">I", struct.pack(">f", x))[0]
    b = b + 1 if up else b - 1
    return struct.unpack(">f", struct.pack(">I", b))[0]


def float_value(bits, cls):
    f = {"zero": 0.0, "negzero": -0.0, "one": 1.0, "frac": -1.5, "third": 1 / 3, "explo": 1e-7, "at1e-6": 1e-6, "at1e21": 1e21, "exphi": 1e22, "nan": math.nan, "pinf": math.inf, "ninf": -math.inf}.get(cls)
    if bits == 64:
        if cls == "below1e-6":
            f = math.nextafter(1e-6, 0)
        elif cls == "below1e21":
            f = math.nextafter(1e21, 0)
        elif cls == "denormal":
            f = 5e-324
        elif cls == "max":
            f = 1.7976931348623157e308
        return {"t": "float64", "x": f64bits(f)}
    f32 = lambda x: struct.unpack(">f", struct.pack(">f", x))[0]
    if cls == "below1e-6":
        f = nextafter32(f32(1e-6), False)
    elif cls == "at1e-6":
        f = f32(1e-6)            # the float32 nearest to 1e-6 is >= the float32 cutoff
        if f < struct.unpack(">f", struct.pack(">f", 1e-6))[0]:
            f = nextafter32(f, True)
    elif cls == "below1e21":
        f = nextafter32(f32(1e21), False)
    elif cls == "at1e21":
        f = f32(1e21)
    elif cls == "denormal":
        f = 1e-45
    elif cls == "max":
        f = 3.4028234663852886e38
    return {"t": "float32", "x": f32bits(f)}


SET = {"default": {}, "errstring": {"errMarshal": "string"}, "rfc3339": {}, "unix": {"timeFormat": ""}, "unixms": {"timeFormat": "UNIXMS"}, "unixmicro": {"timeFormat": "UNIXMICRO"},
       "unixnano": {"timeFormat": "UNIXNANO"}, "rfc3339nano": {"timeFormat": "2006-01-02T15:04:05.999999999Z07:00"},
       "ms-float": {}, "ms-int": {"durInt": True}, "s-float": {"durUnit": 10**9}, "s-int": {"durUnit": 10**9, "durInt": True}, "ns-int": {"durUnit": 1, "durInt": True}, "us-float": {"durUnit": 1000}}
TIMES = {"epoch": [0], "neg": [-1000000000, -86400 * 10**9 * 365], "negsub": [-1, -1499500, -999999, -1000001, -86400 * 10**9 - 123456789], "subsec": [981173106123456789, 1700000000000000001], "subms": [1700000000123000000], "far": [4102444800000000000, 253402300799000000000 // 100]}
DURS = {"zero": [0], "ns": [1, 999], "neg": [-1, -2500000000], "ms": [1000000, 1500000], "hour": [3600 * 10**9],
        # beyond 2^53 ns (104 days) float64(d) is no longer exact: the rendering is float64(d)/float64(unit), rounded once
        "big": [2**62, -(2**62), 2**53 + 1, 9524858201384969, -9524858201384969, 2**63 - 1, -(2**63) + 1, 2**60 + 12345, 10**18 + 7, 31556952 * 10**9 * 3 + 1]}


def concretise(case, rng):
    """One abstract case -> list of concrete player cases."""
    t, cls, st, entries = case["type"], case["class"], case["setting"], case["entries"]
    out = []
    base = {"ttype": t, "class": cls, "setting": st, "set": SET[st]}

    def mk(kind, tvs, M, ft, AM, SM, slice_t):
        for tv in tvs:
            ent = {}
            for e in entries:
                if e in ("event", "context", "dict", "object"):
                    ent[e] = M
                elif e == "array":
                    ent[e] = AM
                elif e == "slice":
                    ent[e] = SM
                else:
                    ent[e] = "Fields"
            c = dict(base, type=kind, entries=ent, tv=tv, ft=ft)
            if "slice" in entries or "fieldsofslice" in entries:
                sl = {"t": "[]" + slice_t}
                if "i" in tv:
                    sl["is"] = [tv["i"]]
                elif "x" in tv:
                    sl["xs"] = [tv["x"]]
                elif "b" in tv or tv.get("t") == "bool":
                    sl["bs"] = [tv.get("b", False)]
                else:
                    sl["ss"] = [tv.get("s", "")] if not tv.get("nil") else [None]
                c["slice"] = sl
            out.append(c)

    if t in INTS:
        kind = "uint" if t.startswith("U") else "int"
        sm = {"Int": "Ints", "Int8": "Ints8", "Int16": "Ints16", "Int32": "Ints32", "Int64": "Ints64", "Uint": "Uints", "Uint8": "Uints8", "Uint16": "Uints16", "Uint32": "Uints32", "Uint64": "Uints64"}[t]
        mk(kind, [{"t": t.lower(), "i": str(int_value(t, cls))}], t, t.lower(), t, sm, t.lower())
    elif t in ("Float32", "Float64"):
        bits = 32 if t == "Float32" else 64
        mk(t.lower(), [float_value(bits, cls)], t, t.lower(), t, "Floats%d" % bits, t.lower())
    elif t in METHODS:
        kind, ft, am, sm, slt = METHODS[t]
        vals = STR[cls]
        tvs = [{"t": ft if ft != "stringer" else "stringer", "s": b64(v)} for v in vals]
        mk(kind, tvs, t, ft, am, sm, slt or ft)
    elif t == "Bool":
        mk("bool", [{"t": "bool", "b": cls == "true"}], "Bool", "bool", "Bool", "Bools", "bool")
    elif t == "Time":
        mk("time", [{"t": "time", "i": str(v)} for v in TIMES[cls]], "Time", "time", "Time", "Times", "time")
    elif t == "Dur":
        mk("dur", [{"t": "dur", "i": str(v)} for v in DURS[cls]], "Dur", "dur", "Dur", "Durs", "dur")
    elif t in ("Hex", "RawCBOR"):
        vs = [b""] if cls == "empty" else [b"\x00\x01\xfe\xff", b"\x83\x01\x02\x03", b"\xfb\x40\x09\x21\xfb\x54\x44\x2d\x18", b"\x9f\x01\xff", b"\xff\xff\xff", b"\xfb\xef\xbe\x01"]
        mk(t.lower(), [{"t": "[]byte", "s": b64(v)} for v in vs], t, "[]byte", t, None, None)
    elif t == "IPAddr":
        ip = {"v4": [127, 0, 0, 1], "v6": list(range(16)), "v4in6": [0] * 10 + [255, 255, 10, 0, 0, 1]}[cls]
        mk("ip", [{"t": "ip", "ip": ip}], "IPAddr", "ip", "IPAddr", None, None)
    elif t == "MACAddr":
        mk("mac", [{"t": "mac", "ip": [0, 20, 34, 1, 35, 69]}], "MACAddr", "mac", "MACAddr", None, None)
    elif t == "IPPrefix":
        tv = {"p24": {"t": "ipnet", "ip": [192, 168, 0, 0], "mask": [255, 255, 255, 0]}, "p64": {"t": "ipnet", "ip": [0x20, 1, 0xd, 0xb8] + [0] * 12, "mask": [255] * 8 + [0] * 8}}[cls]
        mk("prefix", [tv], "IPPrefix", "ipnet", "IPPrefix", None, None)
    elif t == "NilErr":
        mk("nilerror", [{"t": "error", "nil": True}], "AnErr", "error", "Err", "Errs", "error")
    return out


def exhaustive_strings(n):
    """All byte strings of length <= n over one representative per escaping / UTF-8 class, through the string types."""
    alphabet = [b"a", b'"', b"\\", b"\n", b"\x01", b"\x7f", b"<", b"\xc3", b"\xa9", b"\xe2", b"\x82", b"\xac", b"\xf0", b"\x9f", b"\xc0", b"\xed", b"\xa0", b"\xf4", b"\x90", b"\xff"]
    for k in range(1, n + 1):
        for combo in itertools.product(alphabet, repeat=k):
            yield b"".join(combo)


def check(pid, tier, seed, replay=None):
    t0 = time.time()
    v = Verdict(pid)
    thorough = tier == "thorough"
    rng = random.Random(seed)
    with Scratch(pid) as sc:
        mdir = sc.sub("tlc")
        copy_specs(FAMILY, mdir)
        player = go_build("./players/value", sc.path("valueplayer"))
        r = tlc(mdir, "ValueDoc", "SPECIFICATION Spec\nCHECK_DEADLOCK FALSE\nINVARIANT Emit\n", workers=1, timeout=600)
        abstract = [json.loads(parse_tla_tuple("<<" + ln + ">>")[0].split("|", 1)[1]) for ln in r.out.splitlines() if ln.startswith('"@@CASE|')]
        if not abstract:
            raise Inconclusive("ValueDoc exported no cases: %s" % r.out[-1000:])
        if replay:
            cases = [json.load(open(replay))["case"]]
        else:
            cases = []
            for a in abstract:
                cases += concretise(a, rng)
            # bounded-exhaustive strings through Str / Bytes / AnErr
            strcase = {a["type"]: a for a in abstract if a["class"] == "plain" and a["setting"] == "default"}
            for s in exhaustive_strings(3 if thorough else 2):
                for t in ("Str", "Bytes", "AnErr"):
                    a = dict(strcase[t], **{"class": "plain"})
                    c = concretise(a, rng)[0]
                    c["tv"] = dict(c["tv"], s=b64(s))
                    if "slice" in c:
                        c["slice"] = dict(c["slice"], ss=[b64(s)])
                    c["class"] = "enum"
                    cases.append(c)
            # random integers and float bit patterns beyond the classes
            for i in range(20000 if thorough else 2000):
                t = rng.choice(list(INTS))
                a = next(x for x in abstract if x["type"] == t and x["class"] == "zero")
                c = concretise(a, rng)[0]
                lo, hi = INTS[t]
                val = str(rng.randint(lo, hi))
                c["tv"] = dict(c["tv"], i=val)
                c["slice"] = dict(c["slice"], **{"is": [val]})
                c["class"] = "random"
                cases.append(c)
            # random durations of every magnitude under every duration setting, random instants under every time setting
            for i in range(6000 if thorough else 1200):
                st = rng.choice(["ms-float", "ms-int", "s-float", "s-int", "ns-int", "us-float"])
                a = next(x for x in abstract if x["type"] == "Dur" and x["class"] == "zero" and x["setting"] == st)
                c = concretise(a, rng)[0]
                mag = rng.randrange(0, 64)
                val = str(rng.choice([-1, 1]) * rng.randrange(1 << max(0, mag - 1), 1 << mag) if mag else 0)
                c["tv"] = dict(c["tv"], i=val)
                c["slice"] = dict(c["slice"], **{"is": [val]})
                c["class"] = "random"
                cases.append(c)
            for i in range(3000 if thorough else 600):
                st = rng.choice(["rfc3339", "unix", "unixms", "unixmicro", "unixnano", "rfc3339nano"])
                a = next(x for x in abstract if x["type"] == "Time" and x["class"] == "epoch" and x["setting"] == st)
                c = concretise(a, rng)[0]
                val = str(rng.randrange(-(2**62), 2**62))
                c["tv"] = dict(c["tv"], i=val)
                c["slice"] = dict(c["slice"], **{"is": [val]})
                c["class"] = "random"
                cases.append(c)
        for i, c in enumerate(cases):
            c["id"] = "v%d" % i
        # floats beyond the classes: random bit patterns, class decided here from the value (layout table input)
        if not replay:
            for i in range(40000 if thorough else 4000):
                bits = rng.choice([32, 64])
                pat = rng.getrandbits(bits)
                f = struct.unpack(">f", struct.pack(">I", pat))[0] if bits == 32 else struct.unpack(">d", struct.pack(">Q", pat))[0]
                if math.isnan(f):
                    cls = "nan"
                elif math.isinf(f):
                    cls = "pinf" if f > 0 else "ninf"
                else:
                    a = abs(f)
                    lo, hi = (struct.unpack(">f", struct.pack(">f", 1e-6))[0], struct.unpack(">f", struct.pack(">f", 1e21))[0]) if bits == 32 else (1e-6, 1e21)
                    cls = "explo" if (a != 0 and (a < lo or a >= hi)) else "frac"
                t = "Float%d" % bits
                a0 = next(x for x in abstract if x["type"] == t and x["class"] == "one")
                c = concretise(a0, rng)[0]
                x = ("0x%08x" % pat) if bits == 32 else ("0x%016x" % pat)
                c["tv"] = dict(c["tv"], x=x)
                c["slice"] = dict(c["slice"], xs=[x])
                c["class"] = cls
                c["id"] = "f%d" % i
                cases.append(c)
        log("%s: %d cases (%d abstract) %.0fs" % (pid, len(cases), len(abstract), time.time() - t0))
        recs = run_player(player, sc, "value", [json.dumps(c) for c in cases], shards=NCPU, per_script=False)
        shard_lines = [rr for _, rr in recs]
        bads = validate_sharded(sc.dir, "ValueDocTrace", "hist.ndjson", shard_lines, len(shard_lines), FAMILY)
        byid = {c["id"]: c for c in cases}
        for ri, k, e, sig in bads:
            ent = {x["entry"]: (bytes.fromhex(x["raw"]).decode("utf-8", "replace")[:60] if not x["raw"].startswith("line:") else x["raw"][:80], x["ok"], x["kind"], x["field"]) for x in e["entries"]}
            v.violation("%s %s/%s: %s" % (e["ttype"], e["class"], e["setting"], json.dumps(ent)[:500]), {"property": pid, "case": byid.get(e["id"]), "record": e})
        esc = {}
        if not replay:
            # the escaping loop itself: JsonString.tla (transcription model-checked against its contract) on real output
            from checks import escape
            eviol, edrift, en, estats = escape.run(sc, tier, seed, binary=False)
            for e in eviol:
                v.violation("escaping of %s through %s: wrote %s - not clean / not valid UTF-8 / does not un-escape to the input" % (bytes(e["in"]).hex(), e["via"], e["out"][:60]),
                            {"property": pid, "kind": "escape", "record": e})
            esc = dict(estats, records=en, drift_from_transcription=edrift)
        n = sum(len(x) - 1 for x in shard_lines)
        nent = sum(len(json.loads(ln)["entries"]) for x in shard_lines[:1] for ln in x[1:])
        samples = [json.loads(x[1]) for x in shard_lines[:2] if len(x) > 1]
        cov = {"states": max(2, r.distinct), "transitions": max(1, r.generated), "traces_validated_against_impl": n, "samples": samples,
               "abstract_cases": len(abstract), "concrete_cases": n, "escaping": esc, "exhaustive": False,
               "scope": "every (type, value class, setting) of ValueDoc.tla through every entry point of Carries; all byte strings of length <= %d over 20 escaping / UTF-8 class representatives through Str, Bytes and AnErr; random integers per width; random float32/float64 bit patterns" % (3 if thorough else 2),
               "checker_cmd": "tlc ValueDoc.tla (tables, case matrix); tlc ValueDocTrace.tla"}
        write_evidence(pid, tier, seed, "model_checking", cov, time.time() - t0, len(v.violations),
                       assumptions=["decode-back uses the standard library (strconv, encoding/json, time, net, encoding/hex/base64) as independent decoders",
                                    "the exhaustive sweep of all 2^32 float32 patterns is not done: shortest-digit generation is strconv's on both sides; random patterns instead"])
    return v.finish()
