"""C13: samplers. TLC enumerates every history of the contract spec Sampler.tla per configuration
(bounded-exhaustive), the histories are executed on the real samplers / logger, and the recordings are
validated by TLC against the contract. BasicSampler additionally under scheduler-controlled
interleavings of its atomic add (BasicConc.tla)."""
import json
import os
import random
import time

from vlib import (Inconclusive, Scratch, Verdict, copy_specs, go_build, log, make_overlay, parse_tla_tuple, pool_map,
                  run, run_player, tlc, validate_sharded, write_evidence, NCPU)

FAMILY = "sampler"
CONC_QUICK = [(2, 3, 2), (3, 2, 2), (3, 2, 3), (2, 2, 0), (2, 2, 1), (3, 3, 2)]
CONC_THOROUGH = CONC_QUICK + [(3, 4, 2), (3, 4, 3), (2, 6, 5), (4, 2, 2), (3, 3, 5)]


def enumerate_histories(workdir, confs):
    cfg = "CONSTANTS Confs <- %s\nSPECIFICATION Spec\nCHECK_DEADLOCK FALSE\nINVARIANTS EmitConf EmitHist BasicShare BasicZeroOne BurstNoNext GateOnly\n" % confs
    r = tlc(workdir, "MCSampler", cfg, workers=NCPU, timeout=1800, heap="16g")
    if not r.completed:
        raise Inconclusive("Sampler contract sanity failed or TLC incomplete: %s" % r.out[-2000:])
    confdefs, hists = [], []
    for line in r.out.splitlines():
        if line.startswith('"@@CONF|'):
            body = parse_tla_tuple("<<" + line + ">>")[0]
            confdefs.append(json.loads(body.split("|", 2)[2]))
        elif line.startswith('"@@HIST|'):
            body = parse_tla_tuple("<<" + line + ">>")[0]
            _, name, js = body.split("|", 2)
            hists.append((name, js))
    return r, confdefs, hists


def random_histories(confdefs, n, length, seed):
    """Beyond the bounds: long random histories over the same configurations (outcome decided by the
    trace specification, not precomputed)."""
    rng = random.Random(seed)
    out = []
    for i in range(n):
        c = rng.choice(confdefs)
        ops = []
        off = False
        for _ in range(length):
            if c["kind"] == "logger" and rng.random() < 0.1:
                off = not off
                ops.append({"a": "Toggle", "lvl": 0, "now": 0, "adm": off})
            else:
                now = rng.choice(c["clock"]) if rng.random() < 0.5 else rng.randint(0, 12)
                ops.append({"a": "Log" if c["kind"] == "logger" else "Call", "lvl": rng.choice(c["levels"]), "now": now, "adm": False})
        out.append(json.dumps({"fam": "sampler", "conf": c["name"], "ops": ops, "id": "rand-%d" % i}))
    return out


def conc_part(sc, mdir, tier, seed):
    cfgs = CONC_THOROUGH if tier == "thorough" else CONC_QUICK
    nsim = 400 if tier == "thorough" else 80

    def one(c):
        G, K, N = c
        consts = "CONSTANTS G = %d\n K = %d\n N = %d\n" % (G, K, N)
        r = tlc(mdir, "BasicConc", consts + "SPECIFICATION Spec\nVIEW View\nCHECK_DEADLOCK FALSE\nINVARIANT ShareInv\n", workers=2, timeout=600,
                cfg_name="bc_%d%d%d.cfg" % c)
        if not r.completed:
            raise Inconclusive("BasicConc: model does not satisfy its contract for %s: %s" % (c, r.out[-1500:]))
        s = tlc(mdir, "BasicConc", consts + "SPECIFICATION Spec\nCHECK_DEADLOCK FALSE\nINVARIANT EmitDone\n", workers=1, simulate=nsim, depth=200, seed=seed,
                timeout=600, cfg_name="bcs_%d%d%d.cfg" % c)
        scheds = sorted({x[2] for x in s.prints("SCHED")})
        return r, [json.dumps({"id": "sim-%d%d%d-%d" % (G, K, N, i), "G": G, "K": K, "N": N, "steps": json.loads(x)}) for i, x in enumerate(scheds)]

    res = pool_map(one, cfgs, workers=NCPU // 2)
    scripts = [s for _, ss in res for s in ss]
    rng = random.Random(seed)
    for i in range(300 if tier == "thorough" else 60):
        scripts.append(json.dumps({"id": "free-%d" % i, "G": rng.randint(2, 6), "K": rng.randint(1, 8), "N": rng.choice([0, 1, 2, 3, 4, 7]), "steps": [],
                                   "free": True, "seed": rng.randrange(1 << 30)}))
    ov = make_overlay(sc, "sampler", [{"path": "sampler.go", "imports": {"sync/atomic": "vatomic"}}], ["vsched", "vatomic"], [])
    player = go_build("./players/sconc", sc.path("sconc"), overlay=ov)
    recs = run_player(player, sc, "sconc", scripts, shards=8, out_name="conc.ndjson")
    bads = validate_sharded(sc.dir, "BasicConcTrace", "conc.ndjson", [r for _, r in recs], shards=8, family=FAMILY)
    # auxiliary observation (DESIGN 3.7): real goroutines, uninstrumented build, race detector
    rp = go_build("./players/srace", sc.path("srace-bin"), race=True)
    d = sc.sub("srace")
    env = dict(os.environ, GORACE="exitcode=66 halt_on_error=1")
    p = run([rp, "-rounds", "200" if tier == "thorough" else "40", "-out", os.path.join(d, "race.ndjson")], cwd=d, env=env, timeout=900, check=False)
    from vlib import split_recordings
    rrecs = split_recordings(os.path.join(d, "race.ndjson")) if os.path.exists(os.path.join(d, "race.ndjson")) else []
    if p.returncode == 66:
        rrecs.append([json.dumps({"a": "Reset", "N": 2, "id": "race-report"}), json.dumps({"a": "Race", "report": p.stderr.decode(errors="replace")[:1500]})])
    elif p.returncode != 0:
        raise Inconclusive("race-detector run failed rc=%d: %s" % (p.returncode, p.stderr.decode(errors="replace")[-1500:]))
    rbads = validate_sharded(sc.dir, "BasicConcTrace", "conc.ndjson", rrecs, shards=1, family=FAMILY)
    off = len(recs)
    recs = recs + [(json.dumps({"id": json.loads(r[0]).get("id"), "race_detector_run": True}), r) for r in rrecs]
    bads = bads + [(ri + off, k, e, sig) for ri, k, e, sig in rbads]
    stats = {"race_detector_rounds": len(rrecs), "configs": cfgs, "states": sum(r.distinct for r, _ in res), "transitions": sum(r.generated for r, _ in res), "schedules": len(scripts)}
    return recs, bads, stats


def check(pid, tier, seed, replay=None):
    t0 = time.time()
    v = Verdict(pid)
    thorough = tier == "thorough"
    with Scratch(pid) as sc:
        mdir = sc.sub("tlc")
        copy_specs(FAMILY, mdir)
        confs = "ThoroughConfs" if thorough else "QuickConfs"
        player = go_build("./players/hist", sc.path("histplayer"))
        if replay:
            rp = json.load(open(replay))
            if rp.get("kind") == "conc":
                ov = make_overlay(sc, "sampler", [{"path": "sampler.go", "imports": {"sync/atomic": "vatomic"}}], ["vsched", "vatomic"], [])
                cp = go_build("./players/sconc", sc.path("sconc"), overlay=ov)
                recs = run_player(cp, sc, "sconc", [json.dumps(rp["script"])], 1, out_name="conc.ndjson")
                bads = validate_sharded(sc.dir, "BasicConcTrace", "conc.ndjson", [r for _, r in recs], 1, FAMILY)
            else:
                lines = [json.dumps({"fam": "sampler", "confdef": rp["confdef"]}), json.dumps(rp["script"])]
                recs = run_player(player, sc, "hist", lines, 1)
                bads = validate_sharded(sc.dir, "SamplerTrace", "hist.ndjson", [r for _, r in recs], 1, FAMILY,
                                        constants=" Confs <- %s\n AllConfs <- %s" % (rp["confs"], rp["confs"]))
            for ri, k, e, sig in bads:
                v.violation("replayed history leaves the contract at %s" % json.dumps(e), rp, name="replayed")
            write_evidence(pid, tier, seed, "model_checking", {"states": 1, "transitions": 1, "traces_validated_against_impl": len(recs),
                           "samples": [rp["script"]], "explanation": "replay of one stored history"}, time.time() - t0, len(v.violations))
            return v.finish()
        r, confdefs, hists = enumerate_histories(mdir, confs)
        log("%s: %d histories enumerated by TLC in %.0fs" % (pid, len(hists), time.time() - t0))
        lines = [json.dumps({"fam": "sampler", "confdef": c}) for c in confdefs]
        lines += ['{"fam":"sampler","conf":%s,"ops":%s,"id":"h%d"}' % (json.dumps(n), js, i) for i, (n, js) in enumerate(hists)]
        lines += random_histories(confdefs, 4000 if thorough else 400, 200 if thorough else 60, seed)
        recs = run_player(player, sc, "hist", lines, shards=NCPU)
        log("%s: played %.0fs" % (pid, time.time() - t0))
        bads = validate_sharded(sc.dir, "SamplerTrace", "hist.ndjson", [rr for _, rr in recs], NCPU, FAMILY,
                                constants=" Confs <- %s\n AllConfs <- %s" % (confs, confs))
        log("%s: validated %.0fs" % (pid, time.time() - t0))
        byname = {c["name"]: c for c in confdefs}
        for ri, k, e, sig in bads:
            script = json.loads(recs[ri][0])
            v.violation("history %s (conf %s): operation %d outcome %s is not what the contract demands" % (script.get("id"), script["conf"], k, json.dumps(e)),
                        {"property": pid, "kind": "hist", "confs": confs, "confdef": byname[script["conf"]], "script": script,
                         "recording": [json.loads(x) for x in recs[ri][1]], "bad_line": k + 1})
        crecs, cbads, cstats = conc_part(sc, mdir, tier, seed)
        log("%s: concurrent part %.0fs" % (pid, time.time() - t0))
        for ri, k, e, sig in cbads:
            script = json.loads(crecs[ri][0])
            v.violation("BasicSampler schedule %s: %s leaves the contract" % (script["id"], json.dumps(e)),
                        {"property": pid, "kind": "conc", "script": script, "recording": [json.loads(x) for x in crecs[ri][1]], "bad_line": k + 1})
        samples = [{"script": json.loads(s), "recording": [json.loads(x) for x in rr]} for s, rr in (recs[:1] + recs[len(recs) // 2:len(recs) // 2 + 1] + crecs[:1])]
        cov = {"states": r.distinct + cstats["states"], "transitions": r.generated + cstats["transitions"],
               "traces_validated_against_impl": len(recs) + len(crecs), "samples": samples,
               "configurations": len(confdefs), "histories_enumerated_exhaustively": len(hists), "random_histories": len(recs) - len(hists),
               "operations_validated": sum(len(rr) - 1 for _, rr in recs), "exhaustive": True,
               "exhaustive_scope": "every history up to the per-configuration length in spec/sampler/MCSampler.tla (%s)" % confs,
               "concurrent": cstats, "rejected": len(bads) + len(cbads),
               "checker_cmd": "tlc MCSampler.tla (enumeration + sanity invariants); tlc SamplerTrace.tla / BasicConcTrace.tla (trace validation)"}
        write_evidence(pid, tier, seed, "model_checking", cov, time.time() - t0, len(v.violations),
                       assumptions=["Sampler.tla is the reading of the statement; outcomes are taken from the real sampler objects through the public API",
                                    "TimestampFunc is the only clock BurstSampler reads", "vatomic shim = sync/atomic under sequential consistency"])
    return v.finish()
