"""C07: zero allocation on the documented fast paths. TLC enumerates the chains (AllocChain.tla); the pool
discipline is decided on shim-pool recordings (gets = puts); the allocation count is testing.AllocsPerRun on
the uninstrumented default and binary_log builds (trusted instrument, level 'exploration')."""
import json
import os
import random
import time

from vlib import (Inconclusive, Scratch, Verdict, copy_specs, go_build, log, make_overlay, parse_tla_tuple, pool_map, run_player, tlc,
                  validate_sharded, write_evidence, NCPU)

FAMILY = "logger"


def check(pid, tier, seed, replay=None):
    t0 = time.time()
    v = Verdict(pid)
    thorough = tier == "thorough"
    with Scratch(pid) as sc:
        mdir = sc.sub("tlc")
        copy_specs(FAMILY, mdir)
        if replay:
            rp = json.load(open(replay))
            chains = [rp["chain"]]
            r = None
        else:
            r = tlc(mdir, "AllocChain", "CONSTANTS MaxLen = %d\n Methods <- AllMethods\nSPECIFICATION Spec\nCHECK_DEADLOCK FALSE\nINVARIANT Emit\n" % (3 if thorough else 2),
                    workers=4, timeout=900)
            seqs = [json.loads(parse_tla_tuple("<<" + ln + ">>")[0].split("|", 1)[1]) for ln in r.out.splitlines() if ln.startswith('"@@CHAIN|')]
            if not seqs:
                raise Inconclusive("AllocChain produced no chains: %s" % r.out[-1000:])
            rng = random.Random(seed)
            chains = []
            ctxs = ["none", "fields", "ts"]
            sets = ["", "unixms", "durint", "rfc3339nano", "unixnano", "dursec", "prec3", "rfc850", "unix", "unixmicro", "", "longlayout", "rfc1123z"]
            for i, s in enumerate(seqs):
                # every chain on an enabled and on a level-filtered logger; context, finalizer, argument value class and
                # global settings rotate (the fast paths are allocation-free for every value and setting, not only the plain ones)
                for enabled in (True, False):
                    chains.append({"a": "Chain", "chain": s, "ctx": ctxs[(i + (0 if enabled else 1)) % 3], "enabled": enabled, "fin": "Msg" if i % 2 == 0 else "Send",
                                   "var": (i // 3 + (0 if enabled else 1)) % 3, "set": sets[(i + (0 if enabled else 3)) % len(sets)],
                                   "wr": "fail" if i % 5 == 3 else ""})
                if len(s) == 1:
                    # single-method chains: every argument value class under every setting
                    for var in range(3):
                        for st in sorted(set(sets)):
                            chains.append({"a": "Chain", "chain": s, "ctx": "none", "enabled": True, "fin": "Msg", "var": var, "set": st})
            meths = sorted({m for s in seqs for m in s})
            big = {"StrBig", "BytesBig", "StrLongEsc"}

            def rchain(n):
                out = []
                for _ in range(n):
                    m = rng.choice(meths)
                    while m in big and any(x in big for x in out):    # at most one large value: the buffer must stay poolable
                        m = rng.choice(meths)
                    out.append(m)
                return out
            for i in range(100 if thorough else 30):     # a large Bytes value followed by many small fields: the growth path that ends at 64 KiB
                chains.append({"a": "Chain", "chain": ["BytesBig"] + [rng.choice(["Ints", "Int", "Str", "Bools", "Floats64"]) for _ in range(rng.choice([10, 20, 30]))],
                               "ctx": rng.choice(ctxs), "enabled": True, "fin": "Msg", "var": 0, "set": "", "wr": ""})
            # a dictionary built before the event is opened, content lengths sweeping across the pooled buffer's capacity
            for ln in list(range(484, 502)) + [890, 893, 896, 1018, 1021, 1024]:
                for ctx in ("none", "ts"):
                    chains.append({"a": "Chain", "chain": ["Int"], "ctx": ctx, "enabled": True, "fin": "Msg", "var": 0, "set": "", "wr": "", "pre": ln})
            chains.append({"a": "Chain", "chain": ["Int"], "ctx": "none", "enabled": False, "fin": "Msg", "var": 0, "set": "", "wr": "", "pre": 493})
            for i in range(3000 if thorough else 300):   # longer random chains, still within the pooled buffer
                chains.append({"a": "Chain", "chain": rchain(rng.randint(3, 6)), "ctx": rng.choice(ctxs),
                               "enabled": rng.random() < 0.7, "fin": rng.choice(["Msg", "Send"]), "var": rng.randrange(3), "set": rng.choice(sets),
                               "wr": "fail" if rng.random() < 0.2 else ""})
        lines = [json.dumps(c) for c in chains]
        log("%s: %d chains %.0fs" % (pid, len(chains), time.time() - t0))
        ov = make_overlay(sc, "alloc", [{"path": p, "imports": {"sync": "vsync"}} for p in ("event.go", "array.go")], ["vsched", "vsync"], [])
        builds = [("json", go_build("./players/alloc", sc.path("alloc-json"))),
                  ("binary_log", go_build("./players/alloc", sc.path("alloc-cbor"), tags="binary_log")),
                  ("poolshim", go_build("./players/alloc", sc.path("alloc-shim"), overlay=ov, tags="poolshim"))]
        total = 0
        counts = {}
        samples = []
        for name, bin_ in builds:
            # AllocsPerRun is sensitive to other load on the machine only through GC emptying the pools; keep shards modest
            recs = run_player(bin_, sc, "alloc-" + name, lines, shards=8 if name != "poolshim" else 4, per_script=False)
            bads = validate_sharded(sc.dir, "AllocChainTrace", "hist.ndjson", [rr for _, rr in recs], 8, FAMILY, constants=" MaxLen = 2\n Methods <- AllMethods")
            n = sum(len(rr) - 1 for _, rr in recs)
            total += n
            counts[name] = n
            samples.append(json.loads(recs[0][1][1]))
            for ri, k, e, sig in bads:
                what = ("%s build, chain %s on a %s logger (%s, %s): " % (e.get("build"), "+".join(e["chain"]), "enabled" if e["enabled"] else "level-filtered", e["ctx"], e["fin"]))
                what += ("pool gets=%s puts=%s fresh=%s" % (e.get("gets"), e.get("puts"), e.get("fresh")) if e["kind"] == "pool" else "%s allocs/run, %s writes/run" % (e["allocs"], e["writes_per_run"]))
                v.violation(what + " [value class %s, settings %r]" % (e.get("var"), e.get("set")), {"property": pid, "chain": {k2: e.get(k2) for k2 in ("a", "chain", "ctx", "enabled", "fin", "var", "set")}, "record": e})
            log("%s: %s build done %.0fs" % (pid, name, time.time() - t0))
        nchains = len(chains)
        cov = {"evaluations": total, "distinct_nontrivial": nchains, "rule": "chains = every sequence of <= %d methods over the %d allocation-free methods (TLC, AllocChain.tla), each on an enabled and a level-filtered logger with rotating context {none, fields, timestamp hook} and finalizer {Msg, Send}, plus seeded random chains of 3-6 methods; distinct = distinct (chain, context, enabled, finalizer) tuples; each is measured on three builds" % (3 if thorough else 2, 44),
               "samples": samples, "per_build": counts, "states": (r.distinct if r else 1), "transitions": (r.generated if r else 1),
               "explanation": "pool balance decided by trace validation of shim-pool counts (AllocChainTrace); allocation counts by testing.AllocsPerRun(100) after 20 warm-up runs"}
        write_evidence(pid, tier, seed, "exploration", cov, time.time() - t0, len(v.violations),
                       assumptions=["testing.AllocsPerRun is the trusted instrument for the allocation count (a specification cannot observe the allocator)",
                                    "arguments are preallocated outside the measured function, as the repository's benchmarks do"])
    return v.finish()
