"""C05: derived loggers are independent values (spec/logger/LoggerTree.tla + LoggerTreeTrace.tla)."""
import json
import random
import time

from vlib import (Inconclusive, Scratch, Verdict, copy_specs, go_build, known_signatures, log, parse_tla_tuple, run, run_player, tlc,
                  validate_sharded, write_evidence, NCPU)

FAMILY = "logger"


def consts(S, cap, maxops, affine):
    return "CONSTANTS S = %d\n Cap = %d\n MaxOps = %d\n Affine = %s\n HookInPlace = FALSE\n" % (S, cap, maxops, "TRUE" if affine else "FALSE")


def progs_of(r, S, tag):
    out = []
    for i, ln in enumerate(x for x in r.out.splitlines() if x.startswith('"@@PROG|')):
        _, live, js = parse_tla_tuple("<<" + ln + ">>")[0].split("|", 2)
        steps = [{"op": s["op"], "i": s["i"], "j": s["j"], "a": s["a"]} for s in json.loads(js)]
        for i2 in json.loads(live):
            steps.append({"op": "Emit", "i": i2, "j": i2, "a": 0})
        out.append({"id": "%s-%d" % (tag, i), "S": S, "steps": steps})
    return out


# directed programs outside the statement's shapes: the recorded known finding (one Context value derived twice)
DIRECTED = [
    {"id": "directed-ctxvalue-branched", "S": 4, "steps": [{"op": "With", "i": 1, "j": 2, "a": 0}, {"op": "Field", "i": 2, "j": 2, "a": 1},
     {"op": "Field", "i": 2, "j": 3, "a": 2}, {"op": "Field", "i": 2, "j": 4, "a": 3}, {"op": "Logger", "i": 3, "j": 3, "a": 0},
     {"op": "Logger", "i": 4, "j": 4, "a": 0}, {"op": "Emit", "i": 3, "j": 3, "a": 0}, {"op": "Emit", "i": 4, "j": 4, "a": 0}]},
]


def hook_fork_programs(n, seed):
    """Programs aimed at slice capacities: a parent that accumulates k hooks (or k context fields) one at a
    time, then several siblings derived from that same parent value by Hook / With().Field, used in
    every order. Within the statement's shapes; beyond the model's operation bound."""
    rng = random.Random(seed)
    out = []
    for n_ in range(n):
        steps = []
        nh = nf = 0
        k = n_ % 10
        LIB = [-1, -10, -11, -12, -13]   # Timestamp, Caller, CallerWithSkipFrameCount(+1..+3)

        def ctxhook(i, j):
            return [{"op": "With", "i": i, "j": j, "a": 0}, {"op": "CtxHook", "i": j, "j": j, "a": rng.choice(LIB)}, {"op": "Logger", "i": j, "j": j, "a": 0}]
        for _ in range(k):
            r = rng.random()
            if r < 0.45:
                nh += 1
                steps.append({"op": "Hook", "i": 1, "j": 1, "a": nh})
            elif r < 0.75:
                steps += ctxhook(1, 1)
            else:
                nf += 1
                steps += [{"op": "With", "i": 1, "j": 1, "a": 0}, {"op": "Field", "i": 1, "j": 1, "a": nf}, {"op": "Logger", "i": 1, "j": 1, "a": 0}]
        sibs = [2, 3, 4][:rng.randint(2, 3)]
        for j in sibs:
            r = rng.random()
            if r < 0.35:
                nh += 1
                steps.append({"op": "Hook", "i": 1, "j": j, "a": nh})
            elif r < 0.75:
                steps += ctxhook(1, j)
            else:
                nf += 1
                steps += [{"op": "With", "i": 1, "j": j, "a": 0}, {"op": "Field", "i": j, "j": j, "a": nf}, {"op": "Logger", "i": j, "j": j, "a": 0}]
            if rng.random() < 0.3:
                steps.append({"op": "Emit", "i": j, "j": j, "a": 0})
        order = [1] + sibs
        rng.shuffle(order)
        for i in order:
            steps.append({"op": "Emit", "i": i, "j": i, "a": 0})
        out.append({"id": "fork-%d" % n_, "S": 4, "steps": steps})
    return out


def long_context_programs():
    """A context of 1..8 fields of 150 bytes (up to 1.2 KB, well beyond the 500-byte initial capacity), then Output / Level /
    Hook / a further With, then every logger emits: Output changes nothing but the destination, whatever the context's length."""
    out = []
    for k in range(1, 9):
        for via in ("Output", "Level", "Hook", "With"):
            steps = [{"op": "With", "i": 1, "j": 2, "a": 0}] + [{"op": "Field", "i": 2, "j": 2, "a": f} for f in range(1, k + 1)] + [{"op": "Logger", "i": 2, "j": 2, "a": 0}]
            if via == "With":
                steps += [{"op": "With", "i": 2, "j": 3, "a": 0}, {"op": "Field", "i": 3, "j": 3, "a": k + 1}, {"op": "Logger", "i": 3, "j": 3, "a": 0}]
            else:
                steps.append({"op": via, "i": 2, "j": 3, "a": 1})
            steps += [{"op": "Emit", "i": 3, "j": 3, "a": 0}, {"op": "Emit", "i": 2, "j": 2, "a": 0}, {"op": "Emit", "i": 1, "j": 1, "a": 0}]
            out.append({"id": "longctx-%d-%s" % (k, via), "S": 3, "steps": steps})
    return out


def disabled_parent_programs():
    """A logger that is Disabled for a while is still a value: what is derived from it (With + fields, UpdateContext) while it
    is disabled must be there, and independent of its siblings, once a descendant is re-enabled with Level()."""
    W = lambda i, j: {"op": "With", "i": i, "j": j, "a": 0}
    F = lambda i, a: {"op": "Field", "i": i, "j": i, "a": a}
    L = lambda i: {"op": "Logger", "i": i, "j": i, "a": 0}
    Lv = lambda i, j, x: {"op": "Level", "i": i, "j": j, "a": x}
    E = lambda i: {"op": "Emit", "i": i, "j": i, "a": 0}
    out = []
    for k in (0, 1, 2, 4):                      # fields the parent has before it is disabled (0: no context buffer yet)
        pre = ([W(1, 2)] + [F(2, a) for a in range(1, k + 1)] + [L(2)]) if k else [Lv(1, 2, 0)]
        # two siblings derived from the disabled parent, each re-enabled
        out.append({"id": "disabled-siblings-%d" % k, "S": 4, "steps": pre + [Lv(2, 2, 7), W(2, 3), F(3, k + 1), L(3), W(2, 4), F(4, k + 2), L(4),
                                                                            Lv(3, 3, 0), Lv(4, 4, 0), E(3), E(4), E(3)]})
        # UpdateContext on the disabled parent after a child was derived; both re-enabled
        if k:
            out.append({"id": "disabled-update-%d" % k, "S": 4, "steps": pre + [Lv(2, 2, 7), W(2, 3), F(3, k + 1), L(3), {"op": "Update", "i": 2, "j": 2, "a": k + 2},
                                                                                Lv(3, 3, 0), Lv(2, 4, 0), E(3), E(4)]})
            out.append({"id": "disabled-update-only-%d" % k, "S": 3, "steps": pre + [Lv(2, 2, 7), {"op": "Update", "i": 2, "j": 2, "a": k + 1}, Lv(2, 3, 1), E(3)]})
    return out


def random_programs(n, seed, S=5, length=14):
    """Seeded random derivation programs within the statement's shapes (affine use of Context values,
    UpdateContext only on a logger fresh from With()...Logger()), longer than the model's bound."""
    rng = random.Random(seed)
    out = []
    for k in range(n):
        kind = {1: "L"}
        used, fresh = {}, {}
        steps = []
        nf = nh = nc = 0
        for _ in range(length):
            live = [i for i in kind]
            i = rng.choice(live)
            empties = [j for j in range(1, S + 1) if j not in kind]
            j = rng.choice(empties + [i]) if empties else i
            if kind[i] == "L":
                op = rng.choice(["With", "With", "Hook", "Level", "Level", "Output", "Emit", "Update", "UpdateReset", "Drop", "Emit"])
                if op in ("Update", "UpdateReset"):
                    if not fresh.get(i):
                        op = "Emit"
                if op == "Drop":
                    if i == 1:
                        op = "Emit"
                    else:
                        del kind[i]
                        steps.append({"op": "Drop", "i": i, "j": i, "a": 0})
                        continue
                if op == "Emit":
                    steps.append({"op": "Emit", "i": i, "j": i, "a": 0})
                    continue
                if op in ("Update", "UpdateReset"):
                    nf += 1
                    steps.append({"op": op, "i": i, "j": i, "a": nf})
                    continue
                a = 0
                if op == "Hook":
                    nh += 1
                    a = nh
                if op == "Level":
                    a = rng.choice([1, 2])
                steps.append({"op": op, "i": i, "j": j, "a": a})
                kind[j] = "C" if op == "With" else "L"
                used[j] = False
                fresh[j] = False
            else:
                if used.get(i):
                    continue
                op = rng.choice(["Field", "Field", "Field", "Field", "GoCtx", "CtxReset", "Stack", "CtxHook", "CtxHook", "Logger", "Logger", "Logger"])
                a = 0
                if op == "CtxHook":
                    a = rng.choice([-1, -10, -11, -12, -13])
                if op == "Field":
                    nf += 1
                    a = nf
                if op == "GoCtx":
                    nc += 1
                    a = nc
                steps.append({"op": op, "i": i, "j": j, "a": a})
                used[i] = True
                kind[j] = "L" if op == "Logger" else "C"
                used[j] = False
                fresh[j] = op == "Logger"
        for i, kd in sorted(kind.items()):
            if kd == "L":
                steps.append({"op": "Emit", "i": i, "j": i, "a": 0})
        out.append({"id": "rand-%d" % k, "S": S, "steps": steps})
    return out


def check(pid, tier, seed, replay=None):
    t0 = time.time()
    v = Verdict(pid)
    thorough = tier == "thorough"
    with Scratch(pid) as sc:
        mdir = sc.sub("tlc")
        copy_specs(FAMILY, mdir)
        player = go_build("./players/tree", sc.path("treeplayer"))
        stats = {}
        if replay:
            rp = json.load(open(replay))
            scripts = [rp["script"]]
        else:
            # measured with the hook-slice layer (16 cores): (3,6) 25 s; (4,6) 17.2 M distinct states 150 s; (3,7) 16.8 M 120 s;
            # (4,7) 190 M states 27 min and (3,8) are not run
            stats = {"distinct": 0, "generated": 0, "independent_holds_on_model": True, "configs": []}
            for S, mo in ([(4, 6), (3, 7)] if thorough else [(3, 6)]):
                r = tlc(mdir, "LoggerTree", consts(S, 3, mo, True) + "SPECIFICATION Spec\nVIEW View\nCHECK_DEADLOCK FALSE\nINVARIANT Independent\n", workers=NCPU, timeout=2400, heap="24g",
                        cfg_name="lt_%d%d.cfg" % (S, mo))
                if r.violated:
                    log("%s: model-level Independent violated (lead): %s" % (pid, r.out[-1200:]))
                    stats["independent_holds_on_model"] = False
                elif not r.completed:
                    raise Inconclusive("LoggerTree incomplete: %s" % r.out[-1200:])
                stats["distinct"] += r.distinct
                stats["generated"] += r.generated
                stats["configs"].append({"S": S, "MaxOps": mo, "distinct": r.distinct, "generated": r.generated})
            log("%s: model checked %.0fs" % (pid, time.time() - t0))
            ex = tlc(mdir, "LoggerTree", consts(3, 3, 4, True) + "SPECIFICATION Spec\nVIEW View\nCHECK_DEADLOCK FALSE\nINVARIANT EmitProg\n", workers=4, timeout=600, cfg_name="lt_ex.cfg")
            scripts = progs_of(ex, 3, "cover")
            sim = tlc(mdir, "LoggerTree", consts(4, 3, 10, True) + "SPECIFICATION Spec\nCHECK_DEADLOCK FALSE\nINVARIANT EmitProg\n", workers=1, simulate=8000 if thorough else 2000,
                      depth=12, seed=seed, timeout=900, cfg_name="lt_sim.cfg")
            scripts += progs_of(sim, 4, "sim")
            scripts += random_programs(6000 if thorough else 1500, seed)
            scripts += hook_fork_programs(2000 if thorough else 400, seed)
            scripts += long_context_programs()
            scripts += disabled_parent_programs()
            scripts += DIRECTED
        log("%s: %d programs %.0fs" % (pid, len(scripts), time.time() - t0))
        recs = run_player(player, sc, "tree", [json.dumps(s) for s in scripts], shards=NCPU)
        bads = validate_sharded(sc.dir, "LoggerTreeTrace", "hist.ndjson", [rr for _, rr in recs], NCPU, FAMILY)
        known = known_signatures(pid)
        for ri, k, e, sig in bads:
            script = json.loads(recs[ri][0])
            if sig and sig in known:
                v.known_finding(sig, known[sig]["what"])
                continue
            v.violation("program %s: emission %s is not the ghost of its slot" % (script["id"], json.dumps(e)[:300]),
                        {"property": pid, "script": script, "recording": [json.loads(x) for x in recs[ri][1]], "bad_line": k + 1})
        # hlog's per-request loggers are sibling loggers derived from one base logger with With()...Logger() + UpdateContext
        # (hlog/hlog.go is one of the places this property is anchored in): the isolation schedules of the hlog family
        hl_n = 0
        if not replay:
            from checks import hlogc
            hrecs, hbads, hstats = hlogc.iso_part(sc, tier, seed, nfree=600 if thorough else 120)
            hl_n = len(hrecs)
            for script, rr, k, e in hbads:
                v.violation("hlog schedule %s: a request's event does not carry exactly its own derivation: %s" % (script["id"], json.dumps(e)[:300]),
                            {"property": pid, "kind": "hlog", "script": script, "recording": [json.loads(x) for x in rr], "bad_line": k + 1})
        # loggers carried in a context.Context (Logger.WithContext / zerolog.Ctx, ctx.go): storing one further in must not change
        # what an outer context, a sibling context or the base yields - every history of spec/aux/CtxStore.tla within its bound
        cx_n = 0
        if not replay:
            from checks import ext
            crecs, cbads, cstats = ext.ctx_part(sc, tier)
            cx_n = len(crecs)
            for script, e in cbads:
                v.violation("context history %s: the logger found in a context is not the one stored there: %s" % (script["id"], json.dumps(e)[:300]),
                            {"property": pid, "kind": "ctxstore", "script": script, "recording": e})
        # auxiliary: different nodes of one tree used by real goroutines under the race detector
        rp2 = go_build("./players/tree_race", sc.path("tree-race-bin"), race=True)
        import os
        p = run([rp2], cwd=sc.dir, env=dict(os.environ, GORACE="exitcode=66 halt_on_error=1"), timeout=600, check=False)
        if p.returncode == 66:
            v.violation("data race between loggers derived from one parent", {"property": pid, "kind": "race", "report": p.stderr.decode(errors="replace")[:3000]})
        elif p.returncode != 0:
            raise Inconclusive("tree race run failed: %s" % p.stderr.decode(errors="replace")[-1200:])
        else:
            rr = json.loads(p.stdout.decode())
            for b in rr["bad"][:5]:
                v.violation("concurrent loggers of one tree: " + b, {"property": pid, "kind": "race", "report": b})
            stats["race_detector_rounds"] = rr["rounds"]
        samples = [{"script": json.loads(s), "recording": [json.loads(x) for x in rr][:12]} for s, rr in recs[:2]]
        cov = {"states": max(1, stats.get("distinct", 1)), "transitions": max(1, stats.get("generated", 1)), "traces_validated_against_impl": len(recs),
               "samples": samples, "model": stats, "programs": len(scripts), "hlog_request_schedules": hl_n, "context_store_histories": cx_n, "emissions_validated": sum(1 for _, rr in recs for x in rr if '"a":"Emit"' in x),
               "known_findings_matched": {k: n for k, (n, _) in v.known.items()}, "exhaustive": False,
               "checker_cmd": "tlc LoggerTree.tla (Independent, VIEW View); tlc LoggerTreeTrace.tla; tlc CtxStore.tla + AuxTrace.tla"}
        write_evidence(pid, tier, seed, "model_checking", cov, time.time() - t0, len(v.violations),
                       assumptions=["programs stay within the shapes the statement allows (Context values used once; UpdateContext on a logger fresh from With()...Logger())",
                                    "field values are 150 bytes so that the 500-byte With() capacity is crossed after three fields, as Cap = 3 in the model"])
    return v.finish()
