"""C06: concurrent logging (spec/logger/EventLife.tla schedules, LogConcTrace.tla contract)."""
import json
import os
import random
import time

from vlib import (Inconclusive, Scratch, Verdict, copy_specs, go_build, log, make_overlay, parse_tla_tuple, pool_map, run, run_player, tlc,
                  validate_sharded, write_evidence, NCPU)

FAMILY = "logger"
SHAPES = '{"flat", "dict", "arr", "carr", "obj", "big", "ctxobj", "ctxarr", "fobj", "drop"}'


def overlay(sc):
    files = [{"path": p, "imports": {"sync": "vsync"}} for p in ("event.go", "array.go", "writer.go")]
    return make_overlay(sc, "lconc", files, ["vsched", "vsync"], [])


def model_part(mdir, tier, seed):
    thorough = tier == "thorough"
    # measured (16 cores): (2,3,T) 1.9 M distinct states 20 s; (3,1,T) 0.46 M 6 s; (2,3,F) 1.2 M 10 s; (3,2,T) over {flat,carr} 1.2 M 15 s;
    # (3,2,F) over {flat,carr,dict} 30 M 5.5 min; (3,2,.) and (4,1,.) over all six shapes exceed 50 M states / 30 min and are not run
    cfgs = [(2, 2, False, SHAPES), (2, 2, True, SHAPES), (3, 1, False, SHAPES)]
    if thorough:
        cfgs += [(2, 3, False, SHAPES), (2, 3, True, SHAPES), (3, 1, True, SHAPES), (3, 2, True, '{"flat", "carr"}'), (3, 2, False, '{"flat", "carr", "dict"}')]
    nsim = 500 if thorough else 120

    def one(c):
        G, K, sync, shapes = c
        consts = "CONSTANTS G = %d\n K = %d\n Sync = %s\n Shapes = %s\n DiscardPuts = FALSE\n" % (G, K, "TRUE" if sync else "FALSE", shapes)
        r = tlc(mdir, "EventLife", consts + "SPECIFICATION Spec\nVIEW View\nCHECK_DEADLOCK FALSE\nINVARIANTS SingleOwner StableDuringWrite NoOverlapUnderSync PoolBalanced\n",
                workers=4, timeout=2400, cfg_name="el_%d%d%s.cfg" % (G, K, sync))
        if not r.completed:
            raise Inconclusive("EventLife: %s" % r.out[-1500:])
        s = tlc(mdir, "EventLife", consts + "SPECIFICATION Spec\nCHECK_DEADLOCK FALSE\nINVARIANT EmitDone\n", workers=1, simulate=nsim, depth=300, seed=seed,
                timeout=600, cfg_name="els_%d%d%s.cfg" % (G, K, sync))
        scripts = []
        for i, x in enumerate(s.prints("SCHED")):
            scripts.append({"id": "sim-%d%d%s-%d" % (G, K, "s" if sync else "", i), "shapes": json.loads(x[1]), "steps": json.loads(x[2]), "sync": sync})
        return r, scripts

    res = pool_map(one, cfgs, workers=4)
    return res


def check(pid, tier, seed, replay=None):
    t0 = time.time()
    v = Verdict(pid)
    thorough = tier == "thorough"
    with Scratch(pid) as sc:
        mdir = sc.sub("tlc")
        copy_specs(FAMILY, mdir)
        player = go_build("./players/lconc", sc.path("lconc"), overlay=overlay(sc))
        stats = {"states": 1, "transitions": 1}
        if replay:
            rp = json.load(open(replay))
            if "script" not in rp:
                log("race-detector findings are re-observed by the full check")
                return 2
            scripts = [rp["script"]]
        else:
            res = model_part(mdir, tier, seed)
            stats = {"states": sum(r.distinct for r, _ in res), "transitions": sum(r.generated for r, _ in res),
                     "configs": [[r.distinct, r.generated] for r, _ in res]}
            scripts = [s for _, ss in res for s in ss]
            # the model's Sync schedules once more with the destination reached through nested SyncWriter wrappers (the extra lock
            # steps are not in the schedule: the player finishes them round-robin)
            scripts += [dict(s, id=s["id"] + "-w%d" % (1 + i % 2), wrap=1 + i % 2) for i, s in enumerate(scripts) if s["sync"] and i % 3 == 0]
            rng = random.Random(seed)
            for i in range(1500 if thorough else 300):
                G = rng.randint(2, 5)
                scripts.append({"id": "free-%d" % i, "shapes": [[rng.choice(["flat", "dict", "arr", "carr", "obj", "big", "flat", "ctxobj", "ctxarr", "fobj", "drop", "drop"]) for _ in range(rng.randint(1, 4))] for _ in range(G)],
                                "steps": [], "free": True, "seed": rng.randrange(1 << 30), "sync": i % 3 == 0, "wrap": (i // 3) % 3})
            log("%s: model checked, %d scripts %.0fs" % (pid, len(scripts), time.time() - t0))
        recs = run_player(player, sc, "lconc", [json.dumps(s) for s in scripts], shards=NCPU, out_name="conc.ndjson")
        bads = validate_sharded(sc.dir, "LogConcTrace", "conc.ndjson", [rr for _, rr in recs], NCPU, FAMILY)
        for ri, k, e, sig in bads:
            script = json.loads(recs[ri][0])
            v.violation("schedule %s: %s leaves the contract (one intact, stable Write per event)" % (script["id"], json.dumps(e)),
                        {"property": pid, "script": script, "recording": [json.loads(x) for x in recs[ri][1]][max(0, k - 40):k + 3], "bad_line": k + 1})
        # conformance (never a verdict): the implementation-level records of every schedule that uses ONE SyncWriter at most
        # must be a behaviour of EventLife.tla, object by object; the model's invariants are evaluated along the real schedule
        conformance = {"recordings": 0, "drifted": 0, "first": None}
        for syncv in (False, True):
            sel = [i for i, (sl, _) in enumerate(recs) if json.loads(sl)["sync"] == syncv and not json.loads(sl).get("wrap")]
            if not sel:
                continue
            cb = validate_sharded(sc.dir, "EventLifeTrace", "conc.ndjson", [recs[i][1] for i in sel], NCPU, FAMILY,
                                  constants=" G = 8\n K = 99\n Sync = %s\n Shapes = %s\n DiscardPuts = FALSE" % ("TRUE" if syncv else "FALSE", SHAPES))
            conformance["recordings"] += len(sel)
            conformance["drifted"] += len({ri for ri, _, _, _ in cb})
            if cb and conformance["first"] is None:
                ri, k, e, sig = cb[0]
                conformance["first"] = {"script": json.loads(recs[sel[ri]][0])["id"], "line": k + 1, "record": e, "kind": sig}
        if conformance["drifted"]:
            log("%s: MODEL DRIFT: %d of %d recordings are not behaviours of EventLife (no verdict); first: %s" % (pid, conformance["drifted"], conformance["recordings"], conformance["first"]))
        log("%s: conformance to EventLife %.0fs" % (pid, time.time() - t0))
        skipped = sum(json.loads(rr[-1]).get("skipped", 0) for _, rr in recs if rr)
        if not replay:
            rb = go_build("./players/log_race", sc.path("log-race-bin"), race=True)
            p = run([rb], cwd=sc.dir, env=dict(os.environ, GORACE="exitcode=66 halt_on_error=1"), timeout=900, check=False)
            if p.returncode == 66:
                v.violation("data race reported by the Go race detector while goroutines log concurrently", {"property": pid, "kind": "race", "report": p.stderr.decode(errors="replace")[:3000]})
            elif p.returncode != 0:
                raise Inconclusive("race run failed: %s" % p.stderr.decode(errors="replace")[-1500:])
            else:
                rr = json.loads(p.stdout.decode())
                stats["race_detector_rounds"] = rr["rounds"]
                for b in rr["bad"][:5]:
                    v.violation("real goroutines: " + b, {"property": pid, "kind": "race", "report": b})
        samples = [{"script": json.loads(s), "recording": [json.loads(x) for x in rr][:16]} for s, rr in recs[:2]]
        cov = {"states": max(1, stats["states"]), "transitions": max(1, stats["transitions"]), "traces_validated_against_impl": len(recs), "samples": samples,
               "model": stats, "schedules": len(scripts), "conformance_to_EventLife": conformance, "scripted_steps_not_enabled_on_real_code": skipped, "exhaustive": False,
               "events_validated": sum(1 for _, rr in recs for x in rr if '"a":"EvEnd"' in x),
               "checker_cmd": "tlc EventLife.tla (SingleOwner, StableDuringWrite, NoOverlapUnderSync, PoolBalanced); tlc LogConcTrace.tla; tlc EventLifeTrace.tla (conformance)"}
        write_evidence(pid, tier, seed, "model_checking", cov, time.time() - t0, len(v.violations),
                       assumptions=["vsync.Pool (deterministic LIFO) stands in for sync.Pool: any reuse order sync.Pool may choose is allowed by its contract; LIFO maximises reuse",
                                    "the race detector run is an auxiliary observation, not decided by a specification"])
    return v.finish()
