"""Concurrent part of C15: TriggerConc.tla gives the schedules (orders of mutex acquisition), the tconc
player replays them on the real writer under the gate scheduler, TriggerConcTrace.tla decides
linearizability against the contract."""
import json
import os
import random
import time

from vlib import (Inconclusive, go_build, log, make_overlay, pool_map, run, run_player, tlc, validate_trace, copy_specs, write_evidence, NCPU)

PAIRS = [(0, 3), (3, 0), (1, 1), (-1, 0)]


def build(sc):
    ov = make_overlay(sc, "trig", [{"path": "writer.go", "imports": {"sync": "vsync"}}], ["vsched", "vsync"], [])
    return go_build("./players/tconc", sc.path("tconc"), overlay=ov)


def random_ops(rng, cond, trig, k, with_trigger):
    lv = sorted({cond, trig, cond + 1, max(-128, cond - 1)} & set(range(-128, 128)) - {10})
    ops = []
    for _ in range(k):
        if with_trigger and rng.random() < 0.15:
            ops.append({"a": "T", "l": 0, "s": 0})
        else:
            ops.append({"a": "W", "l": rng.choice(lv), "s": rng.choice([1, 2, 3, 4, 5])})
    return ops


def linearize(workdir, recs):
    """recs: list of (script_json, lines). Returns set of ids that are linearizable."""
    shards = max(1, min(NCPU, len(recs) // 8))
    chunks = [recs[i::shards] for i in range(shards)]

    def one(ch):
        if not ch:
            return set()
        import tempfile, shutil
        sub = tempfile.mkdtemp(prefix="lin-", dir=workdir)
        copy_specs("writers", sub)
        flat = [ln for _, lines in ch for ln in lines]
        if os.environ.get("VERIF_SELFTEST"):
            import selftest
            flat, _ = selftest.apply(os.environ["VERIF_SELFTEST"], "TriggerConcTrace", flat)
        with open(os.path.join(sub, "conc.ndjson"), "w") as f:
            for ln in flat:
                f.write(ln + "\n")
        r = tlc(sub, "TriggerConcTrace", "SPECIFICATION TSpec\nCHECK_DEADLOCK FALSE\nINVARIANT Report\n", workers=1, timeout=900)
        if not r.completed:
            raise Inconclusive("TriggerConcTrace failed: %s" % r.out[-2000:])
        ok = {x[1] for x in r.prints("OK")}
        shutil.rmtree(sub, ignore_errors=True)
        return ok

    ok = set()
    for s in pool_map(one, chunks, workers=shards):
        ok |= s
    return ok


def run_part(sc, tier, seed):
    thorough = tier == "thorough"
    mdir = sc.sub("tlc-conc")
    copy_specs("writers", mdir)
    rng = random.Random(seed)
    cfgs = [(2, 2), (3, 2), (2, 3)] + ([(3, 3), (4, 2)] if thorough else [])
    nsim = 150 if thorough else 40
    stats = {"configs": cfgs, "states": 0, "transitions": 0}
    scripts = []
    for (G, K) in cfgs:
        consts = "CONSTANTS G = %d\n K = %d\n" % (G, K)
        r = tlc(mdir, "TriggerConc", consts + "SPECIFICATION Spec\nVIEW View\nCHECK_DEADLOCK FALSE\nINVARIANT MutexOK\n", workers=2, timeout=300)
        if not r.completed:
            raise Inconclusive("TriggerConc model: %s" % r.out[-1000:])
        stats["states"] += r.distinct
        stats["transitions"] += r.generated
        s = tlc(mdir, "TriggerConc", consts + "SPECIFICATION Spec\nCHECK_DEADLOCK FALSE\nINVARIANT EmitDone\n", workers=1, simulate=nsim, depth=200, seed=seed, timeout=300)
        for i, x in enumerate(sorted({x[2] for x in s.prints("SCHED")})):
            cond, trig = rng.choice(PAIRS)
            ops = {"G%d" % g: random_ops(rng, cond, trig, K, with_trigger=(i % 3 == 0)) for g in range(1, G + 1)}
            scripts.append(json.dumps({"id": "sim-%d%d-%d" % (G, K, i), "cond": cond, "trig": trig, "ops": ops, "steps": json.loads(x)}))
    for i in range(200 if thorough else 40):
        cond, trig = rng.choice(PAIRS)
        G, K = rng.randint(2, 4), rng.randint(1, 3)
        ops = {"G%d" % g: random_ops(rng, cond, trig, K, True) for g in range(1, G + 1)}
        scripts.append(json.dumps({"id": "free-%d" % i, "cond": cond, "trig": trig, "ops": ops, "steps": [], "free": True, "seed": rng.randrange(1 << 30)}))
    player = build(sc)
    recs = run_player(player, sc, "tconc", scripts, shards=8, out_name="conc.ndjson")
    ok = linearize(sc.dir, recs)
    bads = []
    for s, lines in recs:
        sid = json.loads(s)["id"]
        if sid not in ok:
            bads.append(("concurrent schedule %s: the destination log has no linearization consistent with the contract" % sid,
                         {"property": "C15", "kind": "conc", "script": json.loads(s), "recording": [json.loads(x) for x in lines]}))
    # auxiliary: real goroutines under the race detector
    rp = go_build("./players/trace_race", sc.path("trace-race-bin"), race=True)
    p = run([rp], cwd=sc.dir, env=dict(os.environ, GORACE="exitcode=66 halt_on_error=1"), timeout=900, check=False)
    if p.returncode == 66:
        bads.append(("data race reported by the Go race detector in TriggerLevelWriter under concurrent WriteLevel",
                     {"property": "C15", "kind": "race", "report": p.stderr.decode(errors="replace")[:3000]}))
    elif p.returncode != 0:
        raise Inconclusive("race run failed: %s" % p.stderr.decode(errors="replace")[-1500:])
    else:
        res = json.loads(p.stdout.decode())
        stats["race_detector_rounds"] = res["rounds"]
        for b in res["bad"][:5]:
            bads.append(("concurrent writers (real goroutines): " + b, {"property": "C15", "kind": "race", "report": b}))
    stats["schedules"] = len(scripts)
    stats["linearizable"] = len(ok)
    return recs, bads, stats


def replay(sc, pid, tier, seed, rp, v, t0):
    if rp.get("kind") == "race":
        log("race-detector findings are re-observed by the full check, not by replay")
        return 2
    player = build(sc)
    recs = run_player(player, sc, "tconc", [json.dumps(rp["script"])], 1, out_name="conc.ndjson")
    ok = linearize(sc.dir, recs)
    if rp["script"]["id"] not in ok:
        v.violation("replayed schedule is not linearizable against the contract", rp, name="replayed")
    write_evidence(pid, tier, seed, "model_checking", {"states": 1, "transitions": 1, "traces_validated_against_impl": 1,
                   "samples": [rp["script"]], "explanation": "replay of one stored schedule"}, time.time() - t0, len(v.violations))
    return v.finish()
