"""C18: hlog keeps requests isolated (Hlog.tla) and reports what was actually sent (RespProxy.tla)."""
import json
import os
import random
import time

from vlib import (Inconclusive, Scratch, Verdict, copy_specs, go_build, log, make_overlay, parse_tla_tuple, pool_map, run, run_player, tlc,
                  validate_sharded, write_evidence, NCPU)

FAMILY = "hlog"
KINDS = ["url", "method", "request", "remoteaddr", "remoteip", "useragent", "referer", "proto", "custom", "host", "httpversion", "requestid", "etag", "respheader", "hosttrim", "customlc", "customuc"]
CHAINS = {"C2": [["url", "method"], ["useragent", "remoteaddr", "custom"]],
          "C3": [["url", "method", "host"], ["request", "remoteip"], ["referer", "proto", "url"]],
          "C3b": [["url"], ["url", "method", "useragent", "custom"], []],
          "C3c": [["requestid", "url"], ["etag", "requestid", "respheader"], ["httpversion", "etag"]]}


def iso_part(sc, tier, seed, nfree=None):
    """Isolation of per-request loggers (hlog.NewHandler + field handlers): model schedules + free walks on real handler
    chains, validated against HlogTrace. Used by C18 and - requests being sibling loggers derived from one base logger
    with UpdateContext - by C05. Returns (recordings, bads, stats)."""
    thorough = tier == "thorough"
    rng = random.Random(seed)
    mdir = sc.sub("tlc-hlog-iso")
    copy_specs(FAMILY, mdir)
    ov = make_overlay(sc, "hlogiso", [], ["vsched"], [])
    player = go_build("./players/hlog", sc.path("hlogplayer-iso"), overlay=ov)
    stats = {"states": 0, "transitions": 0}
    scripts = []
    for name, chains in CHAINS.items():
        consts = "CONSTANTS R = %d\n Chains <- %s\n Shared = FALSE\n" % (len(chains), name)
        r = tlc(mdir, "MCHlog", consts + "SPECIFICATION Spec\nVIEW View\nCHECK_DEADLOCK FALSE\nINVARIANT Isolated\n", workers=4, timeout=600, cfg_name="hl_%s.cfg" % name)
        if not r.completed:
            raise Inconclusive("Hlog model: %s" % r.out[-1200:])
        stats["states"] += r.distinct
        stats["transitions"] += r.generated
        s = tlc(mdir, "MCHlog", consts + "SPECIFICATION Spec\nCHECK_DEADLOCK FALSE\nINVARIANT EmitDone\n", workers=1, simulate=600 if thorough else 150, depth=100, seed=seed,
                timeout=600, cfg_name="hls_%s.cfg" % name)
        for i, x in enumerate(sorted({x[2] for x in s.prints("SCHED")})):
            scripts.append({"kind": "iso", "id": "sim-%s-%d" % (name, i), "chains": chains, "steps": json.loads(x), "bigbase": i % 2 == 1})
    for i in range(nfree if nfree is not None else (1500 if thorough else 300)):
        R = rng.randint(2, 5)
        chains = [[rng.choice(KINDS) for _ in range(rng.randint(0, 5))] for _ in range(R)]
        scripts.append({"kind": "iso", "id": "free-%d" % i, "chains": chains, "steps": [], "free": True, "seed": rng.randrange(1 << 30), "bigbase": i % 3 == 0})
    recs = run_player(player, sc, "hlogiso", [json.dumps(s) for s in scripts], shards=8)
    bads = []
    for ri, k, e, sig in validate_sharded(sc.dir, "HlogTrace", "hist.ndjson", [rr for _, rr in recs], 8, FAMILY):
        bads.append((json.loads(recs[ri][0]), recs[ri][1], k, e))
    return recs, bads, stats


def check(pid, tier, seed, replay=None):
    t0 = time.time()
    v = Verdict(pid)
    thorough = tier == "thorough"
    rng = random.Random(seed)
    with Scratch(pid) as sc:
        mdir = sc.sub("tlc")
        copy_specs(FAMILY, mdir)
        ov = make_overlay(sc, "hlog", [], ["vsched"], [])
        player = go_build("./players/hlog", sc.path("hlogplayer"), overlay=ov)
        stats = {"states": 0, "transitions": 0}
        if replay:
            scripts = [json.load(open(replay))["script"]]
        else:
            scripts = []
            for name, chains in CHAINS.items():
                consts = "CONSTANTS R = %d\n Chains <- %s\n Shared = FALSE\n" % (len(chains), name)
                r = tlc(mdir, "MCHlog", consts + "SPECIFICATION Spec\nVIEW View\nCHECK_DEADLOCK FALSE\nINVARIANT Isolated\n", workers=4, timeout=600, cfg_name="hl_%s.cfg" % name)
                if not r.completed:
                    raise Inconclusive("Hlog model: %s" % r.out[-1200:])
                stats["states"] += r.distinct
                stats["transitions"] += r.generated
                s = tlc(mdir, "MCHlog", consts + "SPECIFICATION Spec\nCHECK_DEADLOCK FALSE\nINVARIANT EmitDone\n", workers=1, simulate=600 if thorough else 150, depth=100, seed=seed,
                        timeout=600, cfg_name="hls_%s.cfg" % name)
                for i, x in enumerate(sorted({x[2] for x in s.prints("SCHED")})):
                    scripts.append({"kind": "iso", "id": "sim-%s-%d" % (name, i), "chains": chains, "steps": json.loads(x), "bigbase": i % 2 == 1})
            for i in range(1500 if thorough else 300):
                R = rng.randint(2, 5)
                chains = [[rng.choice(KINDS) for _ in range(rng.randint(0, 5))] for _ in range(R)]
                scripts.append({"kind": "iso", "id": "free-%d" % i, "chains": chains, "steps": [], "free": True, "seed": rng.randrange(1 << 30), "bigbase": i % 3 == 0})
            rp = tlc(mdir, "RespProxy", "CONSTANTS MaxOps = %d\n Caps = {\"basic\", \"flusher\", \"full\"}\nSPECIFICATION Spec\nCHECK_DEADLOCK FALSE\nINVARIANT EmitAll\n" % (5 if thorough else 4),
                     workers=4, timeout=900)
            stats["states"] += rp.distinct
            stats["transitions"] += rp.generated
            nseq = 0
            for x in rp.prints("SEQ"):
                d = json.loads(x[2])
                scripts.append({"kind": "proxy", "id": "seq-%d" % nseq, "cap": x[1], "ops": d["ops"]})
                nseq += 1
        log("%s: %d scripts %.0fs" % (pid, len(scripts), time.time() - t0))
        iso = [s for s in scripts if s["kind"] == "iso"]
        prx = [s for s in scripts if s["kind"] == "proxy"]
        bads = []
        recs_all = []
        if iso:
            recs = run_player(player, sc, "iso", [json.dumps(s) for s in iso], shards=8)
            recs_all += recs
            for ri, k, e, sig in validate_sharded(sc.dir, "HlogTrace", "hist.ndjson", [rr for _, rr in recs], 8, FAMILY):
                bads.append((json.loads(recs[ri][0]), recs[ri][1], k, e))
        if prx:
            recs = run_player(player, sc, "proxy", [json.dumps(s) for s in prx], shards=8)
            recs_all += recs
            for ri, k, e, sig in validate_sharded(sc.dir, "RespProxyTrace", "hist.ndjson", [rr for _, rr in recs], 8, FAMILY,
                                                  constants=' MaxOps = 4\n Caps = {"basic", "flusher", "full"}'):
                bads.append((json.loads(recs[ri][0]), recs[ri][1], k, e))
        for script, rr, k, e in bads:
            v.violation("script %s: %s" % (script["id"], json.dumps(e)[:400]), {"property": pid, "script": script, "recording": [json.loads(x) for x in rr], "bad_line": k + 1})
        if not replay:
            rb = go_build("./players/hlog_race", sc.path("hlog-race-bin"), race=True)
            p = run([rb], cwd=sc.dir, env=dict(os.environ, GORACE="exitcode=66 halt_on_error=1"), timeout=900, check=False)
            if p.returncode == 66:
                v.violation("data race while requests are served concurrently through hlog", {"property": pid, "kind": "race", "report": p.stderr.decode(errors="replace")[:3000]})
            elif p.returncode != 0:
                raise Inconclusive("hlog race run failed: %s" % p.stderr.decode(errors="replace")[-1200:])
            else:
                rr = json.loads(p.stdout.decode())
                stats["race_detector_requests"] = rr["requests"]
                for b in rr["bad"][:5]:
                    v.violation("concurrent requests (real goroutines): " + b, {"property": pid, "kind": "race", "report": b})
        samples = [{"script": json.loads(s), "recording": [json.loads(x) for x in rr][:6]} for s, rr in (recs_all[:1] + recs_all[-1:])]
        cov = {"states": max(1, stats["states"]), "transitions": max(1, stats["transitions"]), "traces_validated_against_impl": len(recs_all), "samples": samples,
               "isolation_schedules": len(iso), "proxy_call_sequences": len(prx), "model": stats, "exhaustive": True,
               "exhaustive_scope": "proxy: every sequence of <= %d ResponseWriter calls x 3 capability sets; isolation: all interleavings at handler boundaries in the model for the fixed chains (simulated schedules replayed) + seeded free walks with random chains" % (5 if thorough else 4),
               "checker_cmd": "tlc MCHlog.tla (Isolated); tlc RespProxy.tla (sequences); tlc HlogTrace.tla / RespProxyTrace.tla"}
        write_evidence(pid, tier, seed, "model_checking", cov, time.time() - t0, len(v.violations),
                       assumptions=["handler boundaries (next.ServeHTTP) are the scheduling points; expected values are read from the request with plain getters",
                                    "RequestIDHandler: the expected id is what IDFromRequest gives the innermost handler, which must equal the response header; Etag / ResponseHeader values are logged by an event after the chain returned"])
    return v.finish()
