"""String escaping (spec/logger/JsonString.tla): the transcription of the escaping loop is model-checked against the
contract function and its three properties; every byte string up to a length over the case alphabet (plus random longer
ones) is then pushed through the real code - JSON build: Str / Bytes / member name; binary build: the same through the
bundled decoder - and JsonStringTrace.tla judges what was written. Used by C02 (JSON build) and C08 (decoder)."""
import itertools
import json
import os
import random

from vlib import Inconclusive, copy_specs, go_build, log, make_overlay, run_player, tlc, validate_sharded, HARNESS, NCPU

ALPHABET = [0, 8, 9, 10, 12, 13, 31, 32, 34, 65, 92, 126, 127, 128, 143, 144, 159, 160, 191, 192, 193, 194, 223, 224, 225, 236, 237, 238, 239, 240,
            241, 243, 244, 245, 255]


def run(sc, tier, seed, binary):
    """-> (violations [(via, in, out)], drift count, records, model stats)"""
    thorough = tier == "thorough"
    mdir = sc.sub("tlc-esc-" + ("bin" if binary else "json"))
    copy_specs("logger", mdir)
    r = tlc(mdir, "JsonStringMC", "CONSTANT MaxLen = %d\nSPECIFICATION Spec\nINVARIANTS ImplIsEsc EscIsGood\nCHECK_DEADLOCK FALSE\n" % 3, workers=4, timeout=900)
    if r.violated or not r.completed:
        raise Inconclusive("JsonString.tla: the transcription does not meet its own contract: %s" % r.out[-1500:])
    rng = random.Random(seed)
    inputs = [bytes(t) for k in range(0, (4 if thorough else 3)) for t in itertools.product(ALPHABET, repeat=k)]
    for _ in range(20000 if thorough else 3000):
        inputs.append(bytes(rng.choice(ALPHABET) for _ in range(rng.randint(3 if not thorough else 4, 12))))
    # valid multi-byte sequences in context (the alphabet alone gives mostly broken ones)
    for good in (b"\xc3\xa9", b"\xe2\x82\xac", b"\xf0\x9f\x98\x80", b"\xe2\x80\xa8", b"\xed\x9f\xbf", b"\xf4\x8f\xbf\xbf", b"\xef\xbf\xbd"):
        for pre in (b"", b"a", b"\"", b"\n", b"\xff"):
            for post in (b"", b"b", b"\\", b"\x00", b"\x80"):
                inputs.append(pre + good + post)
    if binary:
        ov = make_overlay(sc, "bridge-esc", [], [], [("zz_verif_bridge_cbor.go", os.path.join(HARNESS, "inject", "zerolog_bridge_cbor.go"))])
        player = go_build("./players/esc", sc.path("esc-cbor"), overlay=ov, tags="binary_log")
    else:
        player = go_build("./players/esc", sc.path("esc-json"))
    recs = run_player(player, sc, "esc-" + ("bin" if binary else "json"), [json.dumps({"hex": b.hex()}) for b in inputs], shards=NCPU, per_script=False, lines_per_script=3)
    n = sum(len(rr) - 1 for _, rr in recs)
    if n != 3 * len(inputs):
        raise Inconclusive("escaping player: %d records for %d inputs" % (n, len(inputs)))
    bads = validate_sharded(sc.dir, "JsonStringTrace", "hist.ndjson", [rr for _, rr in recs], NCPU, "logger")
    viol, drift = [], 0
    for ri, k, e, tag in bads:
        if tag == "V":
            viol.append(e)
        else:
            drift += 1
    log("escaping (%s build): %d strings, %d records, %d drift" % ("binary" if binary else "JSON", len(inputs), n, drift))
    return viol, drift, n, {"model_strings": r.distinct, "inputs": len(inputs)}
