"""C17: the CBOR decoder is total; truncation costs only the last event (spec/cbor/CborGen.tla, CborStream.tla)."""
import base64
import json
import struct
import os
import random
import time

from checks import logger as L
from concretize import Gen
from vlib import (Inconclusive, Scratch, Verdict, copy_specs, go_build, log, make_overlay, parse_tla_tuple, run_player, tlc, validate_sharded,
                  write_evidence, HARNESS, NCPU)

WIDTH = {"u8": (24, 1), "u16": (25, 2), "u32": (26, 4), "u64": (27, 8)}


def head_bytes(rng, h):
    m, f, a = h
    if f == "imm":
        return bytes([(m << 5) | (0 if a == "zero" else rng.choice([1, 1, 2, 3, 23]))])
    if f == "res":
        return bytes([(m << 5) | rng.choice([28, 29, 30])])
    if f == "ind":
        return bytes([(m << 5) | 31])
    ai, w = WIDTH[f]
    if a == "zero":
        v = 0
    elif a == "small" and m == 6:
        # tags: the numbers the decoder has handlers for (1 time, 63 embedded CBOR, 260/261 address and prefix,
        # 262 embedded JSON, 263 hex), so that every handler meets every kind of content head that follows
        v = rng.choice([1, 63] if w == 1 else [1, 63, 260, 261, 262, 263, 264])
    elif a == "small":
        v = rng.choice([1, 2, 3])
    elif a == "beyond":
        # more than the input holds, but never more than 16 MiB: an implementation that trusts the length allocates it,
        # which the allocation bound catches without exhausting the sandbox
        v = rng.choice([100, 255]) if w == 1 else rng.choice([40000, 65535]) if w == 2 else rng.choice([70000, 1 << 24])
    elif w == 8:
        v = rng.choice([1 << 63, (1 << 64) - 1])      # negative when read as int64
    elif w == 4:
        v = rng.choice([1 << 26, (1 << 26) + 12345])  # 64 MiB (2^31 and 2^32-1 would be allocated for real by a decoder that trusts them: kept out for the sandbox's sake)
    else:
        v = rng.choice([1 << (8 * w - 1), (1 << (8 * w)) - 1])
    return bytes([(m << 5) | ai]) + v.to_bytes(w, "big")


def concretise(rng, seq, tag=None):
    if tag is not None:        # first head: this tag number, in the two-byte form
        b = bytes([0xd9]) + tag.to_bytes(2, "big") + b"".join(head_bytes(rng, h) for h in seq[1:])
    else:
        b = b"".join(head_bytes(rng, h) for h in seq)
    tail = rng.choice([b"", b"\xff", b"\x61a\x01\xff", bytes(rng.randrange(256) for _ in range(rng.randrange(1, 6)))])
    return b + tail


def mutate(rng, ev):
    b = bytearray(ev)
    k = rng.randrange(4)
    if k == 0 and b:
        i = rng.randrange(len(b))
        b[i] ^= 1 << rng.randrange(8)
    elif k == 1 and b:
        i = rng.randrange(len(b))
        b[i] = rng.choice([0x5b, 0x7b, 0x9b, 0xbb, 0x1b, 0x3b, 0xdb, 0xfb, 0xf9, 0x1c, 0xff, 0x5f, 0x7f])
    elif k == 2 and len(b) > 1:
        del b[rng.randrange(len(b))]
    else:
        i = rng.randrange(len(b) + 1)
        b[i:i] = bytes([rng.choice([0x5a, 0x7a, 0x9a, 0xba])]) + rng.choice([b"\x01\x00\x00\x00", b"\x04\x00\x00\x00", b"\x00\x01\x00\x00"])
    return bytes(b)


def check(pid, tier, seed, replay=None):
    t0 = time.time()
    v = Verdict(pid)
    thorough = tier == "thorough"
    rng = random.Random(seed)
    with Scratch(pid) as sc:
        mdir = sc.sub("tlc")
        copy_specs("cbor", mdir)
        copy_specs("logger", mdir)
        ov = make_overlay(sc, "bridge", [], [], [("zz_verif_bridge_cbor.go", os.path.join(HARNESS, "inject", "zerolog_bridge_cbor.go"))])
        player = go_build("./players/cbordec", sc.path("cbordec"), overlay=ov, tags="binary_log")
        ops = []
        stats = {"distinct": 1, "generated": 1}
        if replay:
            ops = [json.load(open(replay))["op"]]
        else:
            r = tlc(mdir, "CborGen", "CONSTANTS MaxHeads = 2\nSPECIFICATION Spec\nCHECK_DEADLOCK FALSE\nINVARIANT Emit\n", workers=4, timeout=900)
            seqs = [json.loads(parse_tla_tuple("<<" + ln + ">>")[0].split("|", 1)[1]) for ln in r.out.splitlines() if ln.startswith('"@@GEN|')]
            if thorough:
                s3 = tlc(mdir, "CborGen", "CONSTANTS MaxHeads = 4\nSPECIFICATION Spec\nCHECK_DEADLOCK FALSE\nINVARIANT Emit\n", workers=1, simulate=60000, depth=6, seed=seed, timeout=900)
                seqs += [json.loads(parse_tla_tuple("<<" + ln + ">>")[0].split("|", 1)[1]) for ln in s3.out.splitlines() if ln.startswith('"@@GEN|')]
            stats = {"distinct": r.distinct, "generated": r.generated}
            # TLC's workers print in no particular order: sort, so that the random choices below meet the same sequence in every run
            seqs.sort(key=lambda s: json.dumps(s))
            # a directed family without any random choice: every handled tag (and none, and an unhandled one) in front of every
            # string / array / map head whose announced length is beyond what follows, in every width - bare and as a map value
            k = 0
            for tag in (None, 1, 63, 260, 261, 262, 263, 264):
                for m in (2, 3, 4, 5):
                    for ai, w, val in ((24, 1, 100), (24, 1, 255), (25, 2, 40000), (25, 2, 65535), (26, 4, 70000), (26, 4, 1 << 24), (26, 4, 1 << 26),
                                       (27, 8, 1 << 24), (27, 8, 1 << 63), (27, 8, (1 << 64) - 1)):
                        item = (b"" if tag is None else bytes([0xd9]) + tag.to_bytes(2, "big")) + bytes([(m << 5) | ai]) + val.to_bytes(w, "big")
                        for tail in (b"", b"abc"):
                            for form in (item + tail, b"\xbf\x61k" + item + tail + b"\xff"):
                                ops.append({"a": "Input", "id": "beyond%d" % k, "hex": form.hex(), "abs": []})
                                k += 1
            # the time tag in front of every kind of number it might be given (the encoder writes integers and floats; a foreign or
            # damaged stream writes anything): extreme and special floats in both widths, integers at the ends of their ranges
            import struct
            nums = [struct.pack(">Bf", 0xfa, x) for x in (float("-inf"), float("inf"), float("nan"), -1e19, -1e30, 1e30, -0.0, 1.5)]
            nums += [struct.pack(">Bd", 0xfb, x) for x in (float("-inf"), float("inf"), float("nan"), -1e19, -1e300, 1e300, -9.3e18, 9.3e18, -0.0)]
            nums += [bytes([0x1b]) + (2 ** 64 - 1).to_bytes(8, "big"), bytes([0x3b]) + (2 ** 64 - 1).to_bytes(8, "big"), bytes([0x3b]) + (2 ** 63).to_bytes(8, "big"), b"\xf9\xfc\x00", b"\xf9\x7e\x00"]
            for num in nums:
                for form in (b"\xc1" + num, b"\xbf\x61t\xc1" + num + b"\xff"):
                    ops.append({"a": "Input", "id": "timetag%d" % k, "hex": form.hex(), "abs": []})
                    k += 1
            # the address tags (260, 261) with content of the right shape up to the last item, which is then of every other kind
            for last in (b"\xf5", b"\x61a", b"\xf9\x3c\x00", b"\x80", b"\xa0", b"\x20", b"\x18\xff", b"\x1b" + b"\xff" * 8, b"\xf6", b"\x41\x01", b""):
                for body in (b"\xd9\x01\x05\xa1\x44\x01\x02\x03\x04" + last, b"\xd9\x01\x05\xa1\x50" + bytes(16) + last, b"\xd9\x01\x04" + last, b"\xd9\x01\x05\xa1" + last):
                    for form in (body, b"\xbf\x61p" + body + b"\xff"):
                        ops.append({"a": "Input", "id": "addrtag%d" % k, "hex": form.hex(), "abs": []})
                        k += 1
            # strings full of bytes that are not UTF-8 (every one becomes a six-byte escape): the output stays proportional
            for n in (1024, 4096, 16384):
                body = (b"a\xff" * (n // 2))[:n]
                for hd in (0x79, 0x59):     # text string / byte string, two-byte length
                    item = bytes([hd]) + n.to_bytes(2, "big") + body
                    ops.append({"a": "Input", "id": "badutf%d" % k, "hex": (b"\xbf\x61k" + item + b"\xff").hex(), "abs": []})
                    k += 1
            for i, s in enumerate(seqs):
                for rep in range(2 if thorough else 1):
                    ops.append({"a": "Input", "id": "gen%d_%d" % (i, rep), "hex": concretise(rng, s).hex(), "abs": s})
                if s[0] == [6, "u16", "small"]:
                    # every tag the decoder has a handler for (and one it has none for) in front of every kind of content head
                    for tag in (1, 63, 260, 261, 262, 263, 264):
                        ops.append({"a": "Input", "id": "gen%d_tag%d" % (i, tag), "hex": concretise(rng, s, tag=tag).hex(), "abs": s})
            # exhaustive sweeps: every input of 1 and 2 bytes (quick) and 3 bytes (thorough), split by first byte
            ops.append({"a": "Sweep", "id": "sweep1", "len": 1, "first": 0})
            for b0 in range(256):
                if b0 == 0:
                    continue
                ops.append({"a": "Sweep", "id": "sweep1-%d" % b0, "len": 1, "first": b0})
            for b0 in range(256):
                ops.append({"a": "Sweep", "id": "sweep2-%d" % b0, "len": 2, "first": b0})
                if thorough:
                    ops.append({"a": "Sweep", "id": "sweep3-%d" % b0, "len": 3, "first": b0})
            # valid streams of real events, cut at every offset
            lp = go_build("./players/logger", sc.path("lp-cbor"), overlay=ov, tags="binary_log")
            ex = L.enumerate_programs(mdir, 2, 1, emit=True, workers=1, simulate=1200 if thorough else 300, seed=seed, depth=20)
            g = Gen(seed, binary_safe=True)
            progs = [p for p in (g.program("p%d" % i, ap) for i, ap in enumerate(L.abstract_programs(ex))) if p is not None]
            recs = run_player(lp, sc, "events", [json.dumps(p) for p in progs], shards=4, per_script=False)
            events = []
            for _, rr in recs:
                for ln in rr[1:]:
                    e = json.loads(ln)
                    if e.get("a") == "Prog" and e.get("out") and e["nw"] == 1:
                        events.append(base64.b64decode(e["out"]))
            events = [e for e in events if len(e) < 400]
            for i in range(0, len(events) - 6, 3 if thorough else 5):
                ops.append({"a": "Stream", "id": "stream%d" % i, "events": [e.hex() for e in events[i:i + rng.randint(1, 6)]]})
            # streams longer than the decoder's 4096-byte read buffer: cut at every event boundary and its neighbours
            small = [e for e in events if len(e) < 200]
            for i in range(6 if thorough else 3):
                evs = [rng.choice(small) for _ in range(rng.randint(40, 90))]
                ops.append({"a": "Stream", "id": "long%d" % i, "events": [e.hex() for e in evs], "sparse": True})
            # dense streams: hand-built valid events in which almost every byte belongs to a 2-, 4- or 8-byte argument (integers,
            # negative integers, a float64, a 2-byte string length), preceded by a padding event that shifts the alignment: with
            # 8 (thorough 36) consecutive shifts some multi-byte argument straddles every 4096-byte refill of the decoder's reader
            def dense_event():
                u8 = rng.randrange(1 << 32, 1 << 62).to_bytes(8, "big")
                return (b"\xbf\x61a\x1b" + u8 + b"\x61b\x1a" + rng.randrange(1 << 16, 1 << 32).to_bytes(4, "big") + b"\x61c\x19" + rng.randrange(256, 1 << 16).to_bytes(2, "big")
                        + b"\x61d\xfb" + struct.pack(">d", rng.uniform(-1e9, 1e9)) + b"\x61e\x3b" + rng.randrange(1 << 32, 1 << 62).to_bytes(8, "big")
                        + b"\x61f\x79\x01\x04" + b"t" * 260 + b"\xff")
            for shift in range(36 if thorough else 8):
                pad = b"\xbf\x61p\x78" + bytes([24 + shift]) + b"x" * (24 + shift) + b"\xff"
                ops.append({"a": "Stream", "id": "dense%d" % shift, "events": [pad.hex()] + [dense_event().hex() for _ in range(40)], "sparse": True})
            for i in range(3000 if thorough else 600):
                ev = rng.choice(events)
                ops.append({"a": "Input", "id": "mut%d" % i, "hex": mutate(rng, ev).hex()})
            # payloads up to 64 KiB: deep nesting, long strings, long definite arrays
            for i, b in enumerate([b"\x81" * 65535 + b"\x00", b"\x9f" * 30000, b"\xbf" * 30000, b"\x7a\x00\x00\xff\xff" + b"a" * 65535, b"\x5a\x00\x00\xff\xff" + b"a" * 65000,
                                   b"\xbf\x61a\x9a\x00\x00\xff\xff" + b"\x00" * 65535 + b"\xff", b"\xc1" * 65535 + b"\x00", b"\xbf\x61a\x5b" + b"\xff" * 8]):
                ops.append({"a": "Input", "id": "big%d" % i, "hex": b.hex()})
        log("%s: %d decoder scripts %.0fs" % (pid, len(ops), time.time() - t0))
        rng.shuffle(ops)
        recs = run_player(player, sc, "dec", [json.dumps(o) for o in ops], shards=8, timeout=2400)
        bads = validate_sharded(sc.dir, "CborStream", "hist.ndjson", [rr for _, rr in recs], NCPU, "cbor")
        counts = {}
        for _, rr in recs:
            for ln in rr[1:]:
                a = json.loads(ln)
                counts[a["a"]] = counts.get(a["a"], 0) + (a.get("n", 1) if a["a"] == "Sweep" else 1)
        for ri, k, e, sig in bads:
            op = json.loads(recs[ri][0])
            v.violation("decoder input %s: %s" % (op["id"], json.dumps(e)[:300]), {"property": pid, "op": op, "record": e})
        samples = [{"op": {k: (val if k != "hex" else val[:80]) for k, val in json.loads(s).items() if k != "events"}, "records": [json.loads(x) for x in rr[1:4]]} for s, rr in recs[:3]]
        cov = {"states": max(1, stats["distinct"]), "transitions": max(1, stats["generated"]), "traces_validated_against_impl": len(recs), "samples": samples,
               "decoder_calls": counts, "exhaustive": True,
               "exhaustive_scope": "every sequence of <= 2 abstract heads (CborGen.tla) concretised; every concrete input of 1-2 bytes (%s); every cut offset of every generated valid stream" % ("and 3 bytes" if thorough else "3 bytes in the thorough tier"),
               "checker_cmd": "tlc CborGen.tla (input language); tlc CborStream.tla (totality and prefix stability on recordings)"}
        write_evidence(pid, tier, seed, "model_checking", cov, time.time() - t0, len(v.violations),
                       assumptions=["allocation is observed through runtime.MemStats.TotalAlloc, termination through a 5 s watchdog", "the decoder's internals are not modelled: the specification contributes the input language and the prefix contract"])
    return v.finish()
