"""C10, C11, C12: diode.Writer. TLC exhaustive on DiodeImpl, schedules exported from the model and
replayed on the real code through the gate scheduler, recordings validated against DiodeContract
(verdict) and DiodeImpl (conformance / drift)."""
import json
import re
import os
import random
import time

from vlib import (Inconclusive, Scratch, Verdict, copy_specs, go_build, known_signatures, log, make_overlay,
                  pool_map, run, tlc, validate_trace, write_evidence, HARNESS, SPEC, NCPU)

FAMILY = "diode"
TREE = json.load(open(os.path.join(SPEC, "diode", "tree_state.json")))

OWN_EVENTS = {
    "C10": {"WRet", "DStart", "DEnd", "Alert", "EndBlocked", "WStart", "PBlocked", "GPanic"},
    "C11": {"CloseStart", "CloseRet", "GPanic"},
    "C12": {"Quiesce", "Stuck", "GPanic"},     # a goroutine of the diode that dies is everybody's violation
}
MODEL_INVS = {
    "C10": ["TypeOK", "CexNoDup", "CexOrderSeq", "ProgramOrder", "CexAlertBound", "NonBlocking"],
    "C11": ["CexAccounting", "CexCloseDrains", "CexNoEarlyDrop"],
    "C12": ["CexNoStall"],
}
# (P, W, N, polling)
QUICK_CFGS = [(1, 3, 2, False), (2, 2, 2, False), (3, 1, 2, False), (2, 1, 1, False), (1, 2, 1, False),
              (1, 3, 2, True), (2, 2, 2, True), (3, 1, 2, True), (2, 2, 1, True), (3, 1, 1, True), (2, 3, 2, True)]
THOROUGH_CFGS = QUICK_CFGS + [(2, 2, 1, False), (3, 1, 1, False), (2, 3, 2, False), (2, 2, 3, False), (2, 2, 3, True),
                              (3, 2, 3, True), (2, 4, 2, True), (1, 4, 3, False)]


def boolc(b):
    return "TRUE" if b else "FALSE"


def constants(P, W, N, polling, fixes=None, block=False):
    f = dict(TREE)
    if fixes:
        f.update(fixes)
    return ("P = %d\n W = %d\n N = %d\n Polling = %s\n FixUnderflow = %s\n FixHole = %s\n FixDrain = %s\n BlockWriter = %s" %
            (P, W, N, boolc(polling), boolc(f["FixUnderflow"]), boolc(f["FixHole"]), boolc(f["FixDrain"]), boolc(block)))


def overlay_files():
    return [
        {"path": "diode/internal/diodes/many_to_one.go", "imports": {"sync/atomic": "vatomic"}},
        {"path": "diode/internal/diodes/waiter.go", "imports": {"sync": "vsync", "context": "vctx"}, "go": True, "chan": True},
        {"path": "diode/internal/diodes/poller.go", "imports": {"context": "vctx"}, "chan": True, "sleep": True},
        {"path": "diode/diode.go", "imports": {"sync": "vsync", "context": "vctx"}, "go": True, "chan": True},
    ]


def build_player(sc, goarch=None):
    inj = os.path.join(HARNESS, "inject")
    out = sc.path("diodeplayer" + (goarch or ""))
    notes = []
    for peek in (True, False):
        suffix = "" if peek else "_stub"
        ov = make_overlay(sc, "diode" + suffix, overlay_files(), ["vsched", "vsync", "vatomic", "vctx"],
                          [("diode/internal/diodes/zz_verif_peek.go", os.path.join(inj, "diodes_peek%s.go" % suffix)),
                           ("diode/zz_verif_peek.go", os.path.join(inj, "diode_peek%s.go" % suffix))])
        try:
            go_build("./players/diode", out, overlay=ov, goarch=goarch)
            if not peek:
                notes.append("state peek does not compile against the working tree: recordings carry no ring projection")
            return out, notes
        except Inconclusive as e:
            if not peek:
                raise
            log("peek build failed, retrying with stub:", str(e)[-400:])
    raise Inconclusive("unreachable")


def sched_to_script(sid, P, W, N, polling, steps, **kw):
    d = {"id": sid, "P": P, "W": W, "N": N, "mode": "poller" if polling else "waiter", "steps": steps}
    d.update(kw)
    return d


def model_check(workdir, pid, cfgs, workers_each, timeout):
    """Exhaustive TLC per configuration with this property's invariants (on DiodeSim with VIEW, so a
    violated invariant prints the schedule that leads to it). Returns (stats, leads)."""
    invs = MODEL_INVS[pid]

    def one(c):
        P, W, N, pol = c
        cfg = "CONSTANTS\n " + constants(P, W, N, pol) + "\nSPECIFICATION SSpec\nVIEW SView\nCHECK_DEADLOCK FALSE\nINVARIANTS " + " ".join(invs) + "\n"
        r = tlc(workdir, "DiodeSim", cfg, workers=workers_each, timeout=timeout, cfg_name="mc_%s_%d%d%d%s.cfg" % (pid, P, W, N, "p" if pol else "w"))
        leads = [sched_to_script("lead-%s-%d%d%d%s-%d" % (x[1], P, W, N, "p" if pol else "w", i), P, W, N, pol, json.loads(x[2]), lead=x[1], quiesce=(pid == "C12"))
                 for i, x in enumerate(r.prints("CEX"))]
        if not r.completed and not r.violated:
            raise Inconclusive("TLC did not complete on %s: %s" % (c, r.out[-2000:]))
        return {"cfg": c, "distinct": r.distinct, "generated": r.generated, "depth": r.depth, "violated": r.violated, "wall": round(r.wall, 1)}, leads

    res = pool_map(one, cfgs, workers=max(1, NCPU // workers_each))
    stats = [s for s, _ in res]
    leads = [l for _, ls in res for l in ls]
    return stats, leads


LIVE_QUICK = [(2, 1, 1), (1, 2, 2), (1, 2, 1)]
LIVE_THOROUGH = LIVE_QUICK + [(2, 2, 1), (1, 3, 2), (2, 2, 2), (3, 1, 2)]


def liveness(workdir, cfgs):
    """C12's liveness clauses on the MODEL (real executions are finite; their safety cores Quiesce / Stuck are what the
    recordings are judged on): under weak fairness of every goroutine, no state constraint,
      CloseReturns  (FairSpec)     Close, once started, returns                          - must hold in both modes
      Prompt        (NoCloseSpec)  everything written is eventually delivered / reported  - must hold in polling mode; in
                                   waiter mode it fails: that is the recorded known finding (LostWakeupSig) at model level.
    A model-level surprise is a lead, reported in the evidence and on stderr, never a verdict."""
    jobs = [(P, W, N, pol, spec, prop) for (P, W, N) in cfgs for pol in (False, True)
            for (spec, prop) in (("FairSpec", "CloseReturns"), ("NoCloseSpec", "Prompt"))]

    def one(j):
        P, W, N, pol, spec, prop = j
        cfg = "CONSTANTS\n " + constants(P, W, N, pol) + "\nSPECIFICATION %s\nPROPERTY %s\nCHECK_DEADLOCK FALSE\n" % (spec, prop)
        r = tlc(workdir, "DiodeImpl", cfg, workers=2, timeout=1200, cfg_name="live_%s_%d%d%d%s.cfg" % (prop, P, W, N, "p" if pol else "w"))
        holds = r.completed and not r.violated and "Temporal properties were violated" not in r.out
        expected = not (prop == "Prompt" and not pol)
        return {"cfg": [P, W, N, "poller" if pol else "waiter"], "property": prop, "spec": spec, "holds": holds, "expected_to_hold": expected,
                "distinct": r.distinct, "wall": round(r.wall, 1)}

    return pool_map(one, jobs, workers=NCPU // 2)


def directed_leads(workdir, pid, regenerate):
    """Stored TLC leads (spec/diode/directed_scripts.json, produced by this very function with
    regenerate=True: `bin/check C11 --tier thorough` regenerates them on every run)."""
    if not regenerate:
        ds = json.load(open(os.path.join(SPEC, "diode", "directed_scripts.json")))["scripts"]
    else:
        ds = _directed_leads(workdir)
    for d in ds:
        d["foreign"] = True
    return ds


def _directed_leads(workdir):
    """Schedules that break the property in the model when one repair is taken out (or, for the
    recorded known finding, in the model as it is): they are replayed on the real code in every run,
    so a reverted repair is caught by the contract on a real recording."""
    jobs = []
    for fix in ("FixUnderflow", "FixHole", "FixDrain"):
        for (P, W, N, pol) in ((2, 2, 2, False), (2, 2, 2, True), (2, 2, 1, True), (1, 3, 2, True), (1, 3, 2, False)):
            jobs.append((fix, P, W, N, pol, ["CexAccounting", "CexCloseDrains", "CexNoStall", "CexNoEarlyDrop"]))
    for (P, W, N) in ((1, 1, 1), (2, 1, 2), (1, 2, 2)):
        jobs.append((None, P, W, N, False, ["CexNoLostWakeup"]))

    def one(j):
        fix, P, W, N, pol, invs = j
        fixes = {"FixUnderflow": True, "FixHole": True, "FixDrain": True}
        if fix:
            fixes[fix] = False
        out = []
        remaining = list(invs)
        while remaining:
            cfg = "CONSTANTS\n " + constants(P, W, N, pol, fixes) + "\nSPECIFICATION SSpec\nVIEW SView\nCHECK_DEADLOCK FALSE\nINVARIANTS " + " ".join(remaining) + "\n"
            r = tlc(workdir, "DiodeSim", cfg, workers=2, timeout=300, cfg_name="lead_%s_%d_%d%d%d%s.cfg" % (fix, len(remaining), P, W, N, "p" if pol else "w"))
            if not r.violated:
                break
            remaining = [i for i in remaining if i not in r.violated]
            for x in r.prints("CEX")[:1]:
                out.append(sched_to_script("directed-%s-%s-%d%d%d%s" % (fix or "asis", x[1], P, W, N, "p" if pol else "w"), P, W, N, pol,
                                           json.loads(x[2]), lead=x[1], without=fix, quiesce=True))
        return out

    res = pool_map(one, jobs, workers=NCPU // 2)
    return [s for ss in res for s in ss]


COVER_QUICK = [(1, 2, 1, False), (1, 2, 1, True), (2, 1, 1, False)]
# measured number of transitions (the graph includes the observation variables, which is what makes it large):
# (2,1,1,T) 2 k, (1,3,2,F) 5 k, (1,3,2,T) 0.8 k, (1,4,2,F) 16 k, (3,1,1,T) 182 k, (2,2,1,T) 479 k - covered in the thorough tier;
# (3,1,1,F) 3.6 M, (2,2,1,F) 5.5 M, (2,2,2,*) 5.9 M: generating, playing and validating walks over those takes more than an
# hour and tens of GB - left to simulation and free walks
COVER_THOROUGH = COVER_QUICK + [(2, 1, 1, True), (1, 3, 2, False), (1, 3, 2, True), (1, 4, 2, False), (3, 1, 1, True), (2, 2, 1, True)]
EDGE_RE = re.compile(r'^(-?\d+) -> (-?\d+) \[label="(\w+)"')


def step_name(label):
    """TLC labels an edge with the innermost named action: StepP<n> for the producers (Producer(p) is parameterised),
    and the action names of DiodeImpl for the others - C... consumer, X... canceller, Cl... the caller of Close."""
    if label.startswith("StepP"):
        return "P" + label[5:]
    if label.startswith("Cl"):
        return "CL"
    if label.startswith("X"):
        return "X"
    if label.startswith("C"):
        return "C"
    raise Inconclusive("DiodeCover: unknown action label %s" % label)
NODE_RE = re.compile(r'^(-?\d+) \[label=')


def cover_scripts(workdir, cfgs, quiesce):
    """Transition cover: TLC dumps the complete state graph of DiodeCover (= DiodeImpl with one named action per
    goroutine) and a set of walks from the initial state is computed that traverses EVERY edge at least once; each walk
    is a schedule for the player. Returns (scripts, graphs) with graphs[cfg] = {"edges": n, "states": n, "walks": {id: [edge ids]}}."""
    def one(c):
        P, W, N, pol = c
        tag = "%d%d%d%s" % (P, W, N, "p" if pol else "w")
        dot = os.path.join(workdir, "cover_%s.dot" % tag)
        cfg = "CONSTANTS\n " + constants(P, W, N, pol) + "\nSPECIFICATION CSpec\nCHECK_DEADLOCK FALSE\n"
        r = tlc(workdir, "DiodeCover", cfg, workers=1, timeout=1500, cfg_name="cover_%s.cfg" % tag, extra=["-dump", "dot,actionlabels", dot], heap="8g")
        if not r.completed:
            raise Inconclusive("DiodeCover %s: %s" % (tag, r.out[-800:]))
        init, succ, nodes = None, {}, set()
        with open(dot) as f:
            for ln in f:
                m = EDGE_RE.match(ln)
                if m:
                    u, w, lab = m.group(1), m.group(2), m.group(3)
                    if u != w:                       # stuttering self-loops are not steps of a goroutine
                        succ.setdefault(u, []).append((lab, w))
                    continue
                m = NODE_RE.match(ln)
                if m:
                    nodes.add(m.group(1))
                    if init is None and "style = filled" in ln:
                        init = m.group(1)
        os.unlink(dot)
        if init is None:
            raise Inconclusive("DiodeCover %s: no initial state in the dump" % tag)
        for u in succ:
            succ[u] = sorted(set(succ[u]))
        # BFS tree from the initial state
        parent, order, seen = {}, [init], {init}
        i = 0
        while i < len(order):
            u = order[i]
            i += 1
            for lab, w in succ.get(u, ()):
                if w not in seen:
                    seen.add(w)
                    parent[w] = (u, lab)
                    order.append(w)
        edge_id, n_edges = {}, 0
        for u in order:
            for lab, w in succ.get(u, ()):
                edge_id[(u, lab, w)] = n_edges
                n_edges += 1
        covered = [False] * n_edges
        nxt = {u: 0 for u in order}                     # per node: index of the first possibly uncovered out-edge
        scripts, walks = [], {}

        def uncovered_out(u):
            es = succ.get(u, ())
            k = nxt[u]
            while k < len(es) and covered[edge_id[(u, es[k][0], es[k][1])]]:
                k += 1
            nxt[u] = k
            return es[k] if k < len(es) else None

        for u0 in order:
            while uncovered_out(u0) is not None:
                # tree path to u0, then follow uncovered edges as long as there are any
                path = []
                x = u0
                while x != init:
                    px, lab = parent[x]
                    path.append((px, lab, x))
                    x = px
                path.reverse()
                cur = u0
                while True:
                    e = uncovered_out(cur)
                    if e is None or len(path) > 600:
                        break
                    lab, w = e
                    path.append((cur, lab, w))
                    covered[edge_id[(cur, lab, w)]] = True
                    cur = w
                for t in path:
                    covered[edge_id[t]] = True
                sid = "cover-%s-%d" % (tag, len(scripts))
                walks[sid] = [edge_id[t] for t in path]
                scripts.append(sched_to_script(sid, P, W, N, pol, [step_name(t[1]) for t in path], quiesce=quiesce and len(scripts) % 4 == 0))
        return scripts, (c, {"states": len(order), "edges": n_edges, "walks": walks})

    res = pool_map(one, cfgs, workers=max(1, NCPU // 2))
    return [s for ss, _ in res for s in ss], dict(g for _, g in res)


def sim_scripts(workdir, cfgs, n_each, depth, seed, quiesce, block=False):
    def one(c):
        P, W, N, pol = c
        inv = "EmitBlocked" if block else "EmitDone"
        cfg = "CONSTANTS\n " + constants(P, W, N, pol, block=block) + "\nSPECIFICATION SSpec\nCHECK_DEADLOCK FALSE\nINVARIANTS " + inv + "\n"
        r = tlc(workdir, "DiodeSim", cfg, workers=1, simulate=n_each, depth=depth, seed=seed, timeout=300,
                cfg_name="sim_%d%d%d%s%s.cfg" % (P, W, N, "p" if pol else "w", "b" if block else ""))
        out = []
        seen = set()
        for i, x in enumerate(r.prints("SCHED")):
            if x[2] in seen:
                continue
            seen.add(x[2])
            out.append(sched_to_script("sim-%d%d%d%s%s-%d" % (P, W, N, "p" if pol else "w", "b" if block else "", i), P, W, N, pol,
                                       json.loads(x[2]), quiesce=quiesce and i % 2 == 0, block=block))
        return out

    res = pool_map(one, cfgs, workers=NCPU)
    return [s for ss in res for s in ss]


FREE_CFGS = [(3, 3, 2), (4, 2, 3), (2, 5, 2), (4, 1, 1), (3, 2, 1), (2, 4, 3), (1, 5, 1), (4, 3, 2),
             # rings whose size is not a power of two, with producers that can build a backlog just below it ("while fewer messages
             # than the ring size are outstanding none may be dropped": the ring really has the size it was asked for)
             (1, 5, 6), (2, 3, 7), (1, 5, 5)]


def free_scripts(n, seed, quiesce):
    """Seeded random walks over the really enabled gates, beyond the model's constants (a few fixed
    configurations so that the conformance check can group them)."""
    rng = random.Random(seed)
    out = []
    for i in range(n):
        P, W, N = rng.choice(FREE_CFGS)
        out.append({"id": "free-%d" % i, "P": P, "W": W, "N": N, "mode": rng.choice(["waiter", "poller"]), "steps": [],
                    "free": True, "seed": rng.randrange(1 << 30), "quiesce": quiesce and i % 2 == 0, "block": i % 10 == 9,
                    "werr": rng.choice([0, 0, 1, 2, 3]) if i % 10 != 9 else 0, "again": i % 7 == 2 and i % 10 != 9})
    # producers that go on writing after Close was called (Close comes early, at a random point between two Writes): such a
    # Write is outside C11's accounting - the consumer may be gone - but not outside C10: order, no duplicate, integrity, and
    # Write still returns at once. No quiesce points (C12 speaks of writers nobody is closing)
    for i in range(max(40, n // 4)):
        P, W, N = rng.choice([(1, 5, 2), (1, 5, 3), (2, 4, 3), (2, 5, 2), (3, 3, 2), (1, 5, 1)])
        out.append({"id": "late-%d" % i, "P": P, "W": W, "N": N, "mode": rng.choice(["waiter", "waiter", "poller"]), "steps": [],
                    "free": True, "seed": rng.randrange(1 << 30), "quiesce": False, "block": False, "werr": 0, "again": False, "late": True})
    # two diode writers alive at once: the wrapped writer's Close closes a second, idle writer (a destination with a buffer of its
    # own). Close of the outer writer returns in every schedule all the same, and its accounting is what it always is
    for i in range(max(20, n // 10)):
        P, W, N = rng.choice(FREE_CFGS)
        out.append({"id": "inner-%d" % i, "P": P, "W": W, "N": N, "mode": rng.choice(["waiter", "poller"]), "steps": [],
                    "free": True, "seed": rng.randrange(1 << 30), "quiesce": False, "block": False, "werr": 0, "again": False, "inner": True})
    return out


def play(player, sc, scripts, shards, tag=""):
    """Run the player on the scripts, sharded; returns per script (obs_lines, impl_lines)."""
    chunks = [scripts[i::shards] for i in range(shards)]

    def one(ix):
        ch = chunks[ix]
        if not ch:
            return []
        d = sc.sub("play%s%d" % (tag, ix))
        with open(os.path.join(d, "scripts.ndjson"), "w") as f:
            for s in ch:
                f.write(json.dumps(s) + "\n")
        p = run([player, "-scripts", os.path.join(d, "scripts.ndjson"), "-obs", os.path.join(d, "obs.ndjson"), "-impl", os.path.join(d, "impl.ndjson")],
                cwd=d, timeout=1200, check=False)
        if p.returncode not in (0,):
            raise Inconclusive("player failed rc=%d: %s %s" % (p.returncode, p.stdout.decode()[-500:], p.stderr.decode()[-2000:]))
        res = []
        for kind in ("obs", "impl"):
            groups, cur = [], None
            for ln in open(os.path.join(d, kind + ".ndjson")):
                ln = ln.rstrip("\n")
                if ln.startswith('{"N":') and '"a":"Reset"' in ln:
                    cur = []
                    groups.append(cur)
                cur.append(ln)
            res.append(groups)
        if len(res[0]) != len(ch) or len(res[1]) != len(ch):
            raise Inconclusive("player produced %d/%d recordings for %d scripts" % (len(res[0]), len(res[1]), len(ch)))
        return list(zip(ch, res[0], res[1]))

    out = []
    for r in pool_map(one, range(shards), workers=shards):
        out.extend(r)
    return out


def validate_contract(sc, recs, shards):
    """recs: list of (script, obs_lines, impl_lines). Returns list of (rec_index, line_in_script, event, sig)."""
    idx = list(range(len(recs)))
    chunks = [idx[i::shards] for i in range(shards)]

    def one(ch):
        if not ch:
            return []
        lines, owner = [], []
        for ri in ch:
            for k, ln in enumerate(recs[ri][1]):
                lines.append(ln)
                owner.append((ri, k))
        bad, n, r = validate_trace(sc.dir, "DiodeContractTrace", "obs.ndjson", lines, family=FAMILY)
        out = []
        for b in bad:
            lno, sig = (b, "") if isinstance(b, int) else (b[0], b[1])
            ri, k = owner[lno - 1]
            out.append((ri, k, json.loads(lines[lno - 1]), sig))
        return out

    res = []
    for r in pool_map(one, chunks, workers=shards):
        res.extend(r)
    return res


def validate_impl(sc, recs):
    """Conformance of gate-step recordings to DiodeImpl, grouped by configuration. Never a verdict."""
    groups = {}
    for ri, (s, _, impl) in enumerate(recs):
        if s.get("block") or s.get("again") or s.get("late") or s.get("inner") or s.get("fatal"):
            continue  # BlockWriter runs are a different constant, "again" / "late" runs go beyond the model's Close; covered by the contract only
        groups.setdefault((s["P"], s["W"], s["N"], s["mode"] == "poller"), []).append(ri)

    items = []
    for key, ris in groups.items():       # big groups (transition covers) are validated in chunks of about 60 000 lines
        chunk, n = [], 0
        for ri in ris:
            chunk.append(ri)
            n += len(recs[ri][2])
            if n > 60000:
                items.append((key, chunk))
                chunk, n = [], 0
        if chunk:
            items.append((key, chunk))

    def one(item):
        (P, W, N, pol), ris = item
        lines, owner = [], []
        for ri in ris:
            for ln in recs[ri][2]:
                lines.append(ln)
                owner.append(ri)
        try:
            bad, n, r = validate_trace(sc.dir, "DiodeImplTrace", "impl.ndjson", lines, constants=" " + constants(P, W, N, pol), family=FAMILY)
        except Inconclusive as e:
            return {"cfg": (P, W, N, pol), "scripts": len(ris), "lines": len(lines), "drifted": len(ris), "error": str(e)[-300:], "first": None,
                    "drifted_ids": [recs[ri][0]["id"] for ri in ris]}
        drifted = sorted({owner[b - 1] for b in bad})
        first = None
        if bad:
            first = {"script": recs[owner[bad[0] - 1]][0]["id"], "line": json.loads(lines[bad[0] - 1]), "ids": [recs[d][0]["id"] for d in drifted[:5]]}
        return {"cfg": (P, W, N, pol), "scripts": len(ris), "lines": len(lines), "drifted": len(drifted), "first": first,
                "drifted_ids": [recs[d][0]["id"] for d in drifted]}

    return pool_map(one, items, workers=NCPU)


def check(pid, tier, seed, replay=None):
    t0 = time.time()
    v = Verdict(pid)
    thorough = tier == "thorough"
    with Scratch(pid) as sc:
        player, notes = build_player(sc)
        mdir = sc.sub("tlc")
        copy_specs(FAMILY, mdir)
        if replay:
            rp = json.load(open(replay))
            scripts = [rp["script"]]
            stats, leads, graphs, live = [], [], {}, []
        else:
            cfgs = THOROUGH_CFGS if thorough else QUICK_CFGS
            stats, leads = model_check(mdir, pid, cfgs, workers_each=4, timeout=3600 if thorough else 600)   # measured: 25 s quick, 5 min thorough on an idle machine; 1500 s was exceeded once with eight other checks running beside
            log("%s: model checked %.0fs" % (pid, time.time() - t0))
            live = liveness(mdir, LIVE_THOROUGH if thorough else LIVE_QUICK) if pid == "C12" else []
            for x in live:
                if x["holds"] != x["expected_to_hold"]:
                    log("%s: MODEL-LEVEL LEAD (no verdict): %s under %s %s on %s" % (pid, x["property"], x["spec"], "holds" if x["holds"] else "fails", x["cfg"]))
            directed = directed_leads(mdir, pid, regenerate=thorough)
            log("%s: directed %.0fs" % (pid, time.time() - t0))
            nsim = 600 if thorough else 120
            sims = sim_scripts(mdir, cfgs, nsim, 400, seed, quiesce=(pid == "C12"))
            blocked = sim_scripts(mdir, [(2, 2, 2, False), (2, 2, 1, True), (3, 1, 2, True)], 40 if thorough else 15, 200, seed, False, block=True) if pid == "C10" else []
            free = free_scripts(6000 if thorough else 600, seed, quiesce=(pid == "C12"))
            covers, graphs = cover_scripts(mdir, COVER_THOROUGH if thorough else COVER_QUICK, quiesce=(pid == "C12"))
            log("%s: transition cover: %d walks over %d model transitions %.0fs" % (pid, len(covers), sum(g["edges"] for g in graphs.values()), time.time() - t0))
            # a wrapped writer that fails once (its k-th Write returns an error): the diode must go on delivering
            faulty = [dict(s, id=s["id"] + "-werr%d" % (1 + i % 3), werr=1 + i % 3) for i, s in enumerate(sims) if i % 4 == 0]
            # a writer created with a nil alerter (drops are silent by construction: no accounting, everything else must hold)
            faulty += [dict(s, id=s["id"] + "-noalert", noalert=True) for i, s in enumerate(sims) if i % 6 == 1]
            # after Close returned: late Writes and a second Close (nothing may reach the wrapped writer any more)
            faulty += [dict(s, id=s["id"] + "-again", again=True) for i, s in enumerate(sims) if i % 6 == 3]
            scripts = leads + directed + sims + blocked + free + covers + faulty
            if pid == "C11":
                # "Close (also on the Fatal path) delivers everything still in the ring": child processes that end with Logger.Fatal
                # (real goroutines); the exit of the process is Close's return in the recording
                scripts += [{"id": "fatal-%s-%s-%d" % (k, m, i), "P": 1, "W": 11, "N": 64, "mode": m, "steps": [], "fatal": k}
                            for k in ("one", "two", "fan") for m in ("waiter", "poller") for i in range(3 if thorough else 2)]
        log("%s: %d scripts (%d model leads)" % (pid, len(scripts), len(leads)))
        recs = play(player, sc, scripts, shards=min(NCPU, max(1, len(scripts) // 20)))
        log("%s: played %.0fs" % (pid, time.time() - t0))
        bads = validate_contract(sc, recs, shards=min(NCPU, max(1, len(recs) // 50)))
        log("%s: contract validated %.0fs" % (pid, time.time() - t0))
        conf = validate_impl(sc, recs)
        log("%s: impl validated %.0fs" % (pid, time.time() - t0))
        # all three also on a 32-bit build (GOARCH=386 binaries run on this kernel): the 64-bit atomics of the ring need 64-bit alignment
        # there, which is a matter of struct layout - same player, same contract, a sample of the schedules
        n386 = 0
        if not replay:
            p386, _ = build_player(sc, goarch="386")
            sample = [s for s in scripts if s["id"].startswith(("free-", "sim", "cover-"))][:: max(1, len(scripts) // 150)]
            recs386 = play(p386, sc, sample, shards=4, tag="x86-")
            n386 = len(recs386)
            for ri, k, e, sig in validate_contract(sc, recs386, shards=4):
                s386, obs_lines, _ = recs386[ri]
                if e["a"] in OWN_EVENTS[pid]:
                    bads.append((len(recs) + ri, k, e, sig))
            recs = recs + recs386
            log("%s: 32-bit build: %d schedules %.0fs" % (pid, n386, time.time() - t0))
        known = known_signatures(pid)
        other = 0
        rejected_ids = []

        for ri, k, e, sig in bads:
            s, obs_lines, _ = recs[ri]
            if e["a"] not in OWN_EVENTS[pid] and not (pid == "C12" and e["a"] == "CloseRet" and sig == "Undelivered"):
                other += 1
                continue
            rejected_ids.append(s["id"])
            what = "script %s: event %s at line %d of its recording leaves DiodeContract" % (s["id"], json.dumps(e), k + 1)
            if sig and sig in known:
                v.known_finding(sig, known[sig]["what"])
                continue
            v.violation(what, {"property": pid, "script": s, "recording": [json.loads(x) for x in obs_lines][max(0, k - 150):k + 5], "bad_line": k + 1, "event": e})
        if other:
            log("%s: %d recordings leave the contract at events owned by another diode property (reported there)" % (pid, other))
        drift = sum(c["drifted"] for c in conf)
        if drift:
            log("%s: MODEL DRIFT: %d recordings are not behaviours of DiodeImpl (no verdict); first: %s" % (pid, drift, [c["first"] for c in conf if c["first"]][:1]))
        # model-level leads that hold in the model but not on the code are already covered by the recordings;
        # a model-level violation that is not reproduced is reported as a note only
        samples = []
        for s, o, _ in recs[:2] + recs[-1:]:
            samples.append({"script": {k2: s[k2] for k2 in ("id", "P", "W", "N", "mode", "steps")}, "recording": [json.loads(x) for x in o][:40]})
        # transition coverage: model transitions traversed by cover walks whose recording is a behaviour of DiodeImpl
        drifted_ids = {i for c in conf for i in c.get("drifted_ids", [])}
        tcov = []
        for c, g in graphs.items():
            done = set()
            for sid, es in g["walks"].items():
                if sid not in drifted_ids:
                    done.update(es)
            tcov.append({"cfg": list(c), "model_states": g["states"], "model_transitions": g["edges"], "walks": len(g["walks"]),
                         "transitions_executed_on_real_code_and_conformant": len(done)})
        for c in conf:
            c["drifted_ids"] = c.get("drifted_ids", [])[:20]
        cov = {
            "states": max(1, sum(s["distinct"] for s in stats)),
            "transitions": max(1, sum(s["generated"] for s in stats)),
            "traces_validated_against_impl": len(recs),
            "samples": samples,
            "model_configs": stats,
            "model_invariants": MODEL_INVS[pid],
            "scripts": {"model_leads": len(leads), "simulated": sum(1 for s in scripts if s["id"].startswith("sim-")),
                        "directed": sum(1 for s in scripts if s["id"].startswith("directed-")),
                        "free_exploration": sum(1 for s in scripts if s.get("free")),
                        "transition_cover_walks": sum(1 for s in scripts if s["id"].startswith("cover-"))},
            "recorded_events_validated": sum(len(o) for _, o, _ in recs),
            "gate_steps_recorded": sum(len(i) for _, _, i in recs),
            "impl_conformance": conf,
            "transition_cover": tcov,
            "model_liveness": live,
            "recordings_rejected_by_contract": len(bads),
            "rejected_owned_by_other_property": other,
            "rejected_scripts": sorted(rejected_ids)[:200],
            "known_findings_matched": {k: n for k, (n, _) in v.known.items()},
            "exhaustive": False,
            "notes": notes,
            "checker_cmd": "tlc (exhaustive, VIEW SView) on spec/diode/DiodeSim.tla; tlc trace validation on DiodeContractTrace.tla / DiodeImplTrace.tla",
        }
        write_evidence(pid, tier, seed, "model_checking", cov, time.time() - t0, len(v.violations),
                       assumptions=["shims (harness/_shim) have the semantics of sync/atomic, sync.Mutex, sync.Cond, context and close-signal channels under sequential consistency",
                                    "DiodeContract.tla is the reading of the property; verdicts come only from recordings of the real code",
                                    "constants of spec/diode/tree_state.json describe which repairs the working tree contains (drift is reported, not judged)"])
    return v.finish()
