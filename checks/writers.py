"""C14 (MultiLevelWriter fault sequences) and C15 (TriggerLevelWriter): TLC enumerates every history of
the contract specs (spec/writers) within per-configuration bounds, the player executes them on the real
writers through the public API, TLC validates the recordings."""
import json
import os
import random
import time

from vlib import (Inconclusive, Scratch, Verdict, copy_specs, go_build, log, make_overlay, parse_tla_tuple, run, run_player,
                  split_recordings, tlc, validate_sharded, write_evidence, NCPU)

FAMILY = "writers"
PARAMS = {
    "C14": dict(fam="multi", mc="MCMulti", trace="MultiTrace", invs="AtMostOneHandlerCall UnfilteredAlwaysCalled"),
    "C15": dict(fam="trigger", mc="MCTrigger", trace="TriggerTrace", invs="HeldOK NoTriggerNoRelease NoDup NoLoss"),
}


def enumerate_histories(workdir, mc, confs, invs):
    cfg = "CONSTANTS Confs <- %s\nSPECIFICATION Spec\nCHECK_DEADLOCK FALSE\nINVARIANTS EmitConf EmitHist %s\n" % (confs, invs)
    r = tlc(workdir, mc, cfg, workers=NCPU, timeout=1800, heap="16g")
    if not r.completed:
        raise Inconclusive("contract sanity failed or TLC incomplete: %s" % r.out[-2000:])
    confdefs, hists = [], []
    for line in r.out.splitlines():
        if line.startswith('"@@CONF|'):
            confdefs.append(json.loads(parse_tla_tuple("<<" + line + ">>")[0].split("|", 2)[2]))
        elif line.startswith('"@@HIST|'):
            _, name, js = parse_tla_tuple("<<" + line + ">>")[0].split("|", 2)
            hists.append((name, js))
    return r, confdefs, hists


def random_histories(pid, confdefs, n, length, seed):
    rng = random.Random(seed)
    out = []
    for i in range(n):
        c = rng.choice(confdefs)
        ops = []
        for _ in range(length):
            if pid == "C14":
                ops.append({"lvl": rng.choice(c["evlevels"]), "out": [rng.choice(["ok", "ok", "err", "short"]) for _ in c["kinds"]]})
            else:
                x = rng.random()
                if x < 0.08:
                    ops.append({"a": "T", "l": 0, "s": 0})
                elif x < 0.16:
                    ops.append({"a": "C", "l": 0, "s": 0})
                else:
                    lv = rng.choice(c["levels"]) if rng.random() < 0.7 else rng.choice([x for x in range(-128, 128) if x != 10])
                    ops.append({"a": "W", "l": lv, "s": rng.choice([1, 2, 3, 4, 5])})
        out.append(json.dumps({"fam": PARAMS[pid]["fam"], "conf": c["name"], "ops": ops, "id": "rand-%d" % i}))
    return out


def trigger_concurrent(sc, tier, seed):
    """C15 'also when several goroutines write concurrently': scheduler-controlled interleavings of the
    writer's mutex operations (overlay on writer.go) + real goroutines under the race detector."""
    from checks import trigconc
    return trigconc.run_part(sc, tier, seed)


def check(pid, tier, seed, replay=None):
    t0 = time.time()
    P = PARAMS[pid]
    v = Verdict(pid)
    thorough = tier == "thorough"
    with Scratch(pid) as sc:
        mdir = sc.sub("tlc")
        copy_specs(FAMILY, mdir)
        confs = "ThoroughConfs" if thorough else "QuickConfs"
        consts = " Confs <- %s\n AllConfs <- %s" % (confs, confs)
        player = go_build("./players/hist", sc.path("histplayer"))
        if replay:
            rp = json.load(open(replay))
            if rp.get("kind") == "conc":
                from checks import trigconc
                return trigconc.replay(sc, pid, tier, seed, rp, v, t0)
            lines = [json.dumps({"fam": P["fam"], "confdef": rp["confdef"]}), json.dumps(rp["script"])]
            recs = run_player(player, sc, "hist", lines, 1)
            bads = validate_sharded(sc.dir, P["trace"], "hist.ndjson", [r for _, r in recs], 1, FAMILY,
                                    constants=" Confs <- %s\n AllConfs <- %s" % (rp["confs"], rp["confs"]))
            for ri, k, e, sig in bads:
                v.violation("replayed history leaves the contract at %s" % json.dumps(e)[:300], rp, name="replayed")
            write_evidence(pid, tier, seed, "model_checking", {"states": 1, "transitions": 1, "traces_validated_against_impl": len(recs),
                           "samples": [rp["script"]], "explanation": "replay of one stored history"}, time.time() - t0, len(v.violations))
            return v.finish()
        r, confdefs, hists = enumerate_histories(mdir, P["mc"], confs, P["invs"])
        log("%s: %d histories enumerated by TLC in %.0fs" % (pid, len(hists), time.time() - t0))
        lines = [json.dumps({"fam": P["fam"], "confdef": c}) for c in confdefs]
        lines += ['{"fam":"%s","conf":%s,"ops":%s,"id":"h%d"}' % (P["fam"], json.dumps(n), js, i) for i, (n, js) in enumerate(hists)]
        lines += random_histories(pid, confdefs, 3000 if thorough else 300, 120 if thorough else 40, seed)
        recs = run_player(player, sc, "hist", lines, shards=NCPU)
        log("%s: played %.0fs" % (pid, time.time() - t0))
        bads = validate_sharded(sc.dir, P["trace"], "hist.ndjson", [rr for _, rr in recs], NCPU, FAMILY, constants=consts)
        log("%s: validated %.0fs" % (pid, time.time() - t0))
        byname = {c["name"]: c for c in confdefs}
        for ri, k, e, sig in bads:
            script = json.loads(recs[ri][0])
            v.violation("history %s (conf %s): operation %d %s is not what the contract demands" % (script.get("id"), script["conf"], k, json.dumps(e)[:400]),
                        {"property": pid, "kind": "hist", "confs": confs, "confdef": byname[script["conf"]], "script": script,
                         "recording": [json.loads(x) for x in recs[ri][1]][:60], "bad_line": k + 1})
        conc = {}
        crecs = []
        if pid == "C15":
            crecs, cbads, conc = trigger_concurrent(sc, tier, seed)
            log("%s: concurrent part %.0fs" % (pid, time.time() - t0))
            for what, rp in cbads:
                v.violation(what, rp)
        samples = [{"script": json.loads(s), "recording": [json.loads(x) for x in rr][:20]} for s, rr in (recs[:1] + recs[len(recs) // 2:len(recs) // 2 + 1])]
        cov = {"states": r.distinct + conc.get("states", 0), "transitions": r.generated + conc.get("transitions", 0),
               "traces_validated_against_impl": len(recs) + len(crecs), "samples": samples,
               "configurations": len(confdefs), "histories_enumerated_exhaustively": len(hists), "random_histories": len(recs) - len(hists),
               "operations_validated": sum(len(rr) - 1 for _, rr in recs), "exhaustive": True,
               "exhaustive_scope": "every history up to the per-configuration length in spec/writers/%s.tla (%s)" % (P["mc"], confs),
               "concurrent": conc, "rejected": len(v.violations),
               "checker_cmd": "tlc %s.tla (enumeration + sanity invariants); tlc %s.tla (trace validation)" % (P["mc"], P["trace"])}
        write_evidence(pid, tier, seed, "model_checking", cov, time.time() - t0, len(v.violations),
                       assumptions=["the contract spec is the reading of the statement; outcomes are observed at recording destinations through the public API"])
    return v.finish()
