"""C01 (well-formed JSON) and C03 (event layout): TLC enumerates logging programs over the structural
operation classes of spec/logger/EventDoc.tla and checks the model's output against the RFC 8259
automaton; every program is concretised (methods, keys, values, settings; seeded), run on the real API,
and the recording (tokens and member names found by an independent lexer, hook log) is validated by TLC
(EventDocTrace.tla): C01 = automaton + byte-level clauses, C03 = ExpectedKeys + hook log, drift = Render."""
import json
import os
import time

from concretize import Gen
from vlib import (Inconclusive, Scratch, Verdict, copy_specs, go_build, log, parse_tla_tuple, run_player, tlc, validate_sharded,
                  write_evidence, NCPU, SPEC)

FAMILY = "logger"
TREE = json.load(open(os.path.join(SPEC, "logger", "tree_state.json")))


def consts():
    return " FixErrsDelim = %s\n FixStackNil = %s\n FixEmbedEmpty = %s" % tuple("TRUE" if TREE[k] else "FALSE" for k in ("FixErrsDelim", "FixStackNil", "FixEmbedEmpty"))


def abstract_programs(r):
    out = []
    for line in r.out.splitlines():
        if line.startswith('"@@PROG|'):
            out.append(json.loads(parse_tla_tuple("<<" + line + ">>")[0].split("|", 1)[1]))
    return out


def enumerate_programs(mdir, max_total, max_hooks, emit, workers=NCPU, simulate=None, seed=None, depth=None, opset="CoreOps"):
    cfg = ("CONSTANTS\n" + consts() + "\n MaxTotal = %d\n MaxHooks = %d\n OpSet <- %s\nSPECIFICATION Spec\nCHECK_DEADLOCK FALSE\nINVARIANTS WellFormed%s\n"
           % (max_total, max_hooks, opset, " Emit" if emit else ""))
    r = tlc(mdir, "EventDocMC", cfg, workers=workers, timeout=2400, heap="24g", simulate=simulate, seed=seed, depth=depth,
            cfg_name="mc_%d_%d_%s%s%s.cfg" % (max_total, max_hooks, "e" if emit else "", "s" if simulate else "", opset))
    return r


def check(pid, tier, seed, replay=None):
    t0 = time.time()
    v = Verdict(pid)
    thorough = tier == "thorough"
    with Scratch(pid) as sc:
        mdir = sc.sub("tlc")
        copy_specs(FAMILY, mdir)
        player = go_build("./players/logger", sc.path("loggerplayer"))
        if replay:
            rp = json.load(open(replay))
            progs = [rp["program"]]
            stats = {"distinct": 1, "generated": 1}
            leads = []
        else:
            # (1) the model, exhaustively: is the design's output always well-formed?
            deep = enumerate_programs(mdir, 4 if thorough else 3, 0, emit=False)
            leads = []
            if deep.violated:
                log("%s: model-level WellFormed violated (lead, not a verdict): %s" % (pid, deep.out[-1500:]))
            elif not deep.completed:
                raise Inconclusive("EventDocMC incomplete: %s" % deep.out[-1500:])
            stats = {"distinct": deep.distinct, "generated": deep.generated, "wellformed_holds_on_model": not deep.violated}
            log("%s: model checked (%d programs) %.0fs" % (pid, deep.distinct, time.time() - t0))
            # (2) scripts: every program up to a smaller bound + simulated deep programs
            # quick: every program with <= 2 operations and <= 1 hook (88 k). thorough: <= 3 operations without hooks (557 k)
            # and <= 2 operations with <= 2 hooks (458 k); <= 3 operations with a hook is 3.2 M programs - measured: 20 min and
            # 50 GB of recordings, beyond this sandbox - and is left to the model-level run and to simulation
            ex = enumerate_programs(mdir, 3 if thorough else 2, 0 if thorough else 1, emit=True)
            absprogs = abstract_programs(ex)
            if thorough:
                absprogs += abstract_programs(enumerate_programs(mdir, 2, 2, emit=True))
            sim = enumerate_programs(mdir, 9, 3, emit=True, workers=1, simulate=6000 if thorough else 1500, seed=seed, depth=40, opset="Ops")
            absprogs += abstract_programs(sim)
            absprogs += abstract_programs(enumerate_programs(mdir, 2, 0, emit=True, workers=2, opset="BigOps"))
            g = Gen(seed)
            progs = []
            for i, ap in enumerate(absprogs):
                for rep in range(2 if (thorough and i < 60000) else 1):
                    pr = g.program("p%d_%d" % (i, rep), ap)
                    if pr is not None:
                        progs.append(pr)
            log("%s: %d programs (%d abstract) %.0fs" % (pid, len(progs), len(absprogs), time.time() - t0))
        lines = [json.dumps(p) for p in progs]
        recs = run_player(player, sc, "logger", lines, shards=NCPU, out_name="hist.ndjson", per_script=False)
        # run_player splits at Reset lines: one Reset per shard, so regroup per program
        flat = []
        for s, rr in recs:
            pass
        shard_lines = []
        for _, rr in recs:
            shard_lines.append(rr)
        bads = []
        nvalidated = 0
        # each shard recording is [Reset, Prog, Prog, ...]; programs are independent, validate shard-wise
        res = validate_sharded(sc.dir, "EventDocTrace", "hist.ndjson", shard_lines, len(shard_lines), FAMILY, constants=consts())
        log("%s: validated %.0fs" % (pid, time.time() - t0))
        byid = {p["id"]: p for p in progs}
        drift = 0
        other = 0
        for ri, k, e, tag in res:
            if pid in tag:
                pr = byid.get(e["id"])
                if len(v.violations) < 3:
                    log("  e.g. %s %s panic=%r tokens=%s" % (e["id"], tag, e.get("panic", "")[:100], "".join(e["tokens"])[:120]))
                v.violation("program %s (%s): output %s" % (e["id"], json.dumps(e["abs"]["p"]), "is not one well-formed JSON object on one line" if pid == "C01" else
                            "does not have the layout level / context / fields / hook fields / message, or a hook did not run exactly once"),
                            {"property": pid, "program": pr, "recording": e, "judgement": tag})
            elif "C0" in tag:
                other += 1
            if "drift" in tag:
                drift += 1
        tree_n = 0
        if pid == "C03" and not replay:
            # hooks along derivation TREES (ancestors before descendants, exactly once, whatever siblings exist):
            # the derivation programs of C05 that aim at hook-slice capacities, judged on the hook log only
            from checks import tree
            tp = go_build("./players/tree", sc.path("treeplayer"))
            tscripts = tree.hook_fork_programs(1500 if thorough else 400, seed)
            trecs = run_player(tp, sc, "tree", [json.dumps(x) for x in tscripts], shards=8)
            tbads = validate_sharded(sc.dir, "LoggerTreeTrace", "hist.ndjson", [rr for _, rr in trecs], 8, FAMILY)
            tree_n = len(trecs)
            for ri, k, e, sig in tbads:
                v.violation("derivation program %s: hooks run by the emitting logger are not its own hooks, once each, in order" % json.loads(trecs[ri][0])["id"],
                            {"property": pid, "kind": "tree", "script": json.loads(trecs[ri][0]), "recording": [json.loads(x) for x in trecs[ri][1]], "bad_line": k + 1})
            # a LevelHook is a hook: it hands the event, its level and message to the hook configured for exactly that level
            # (spec/aux/LevelHook.tla: every configuration of the eight slots x every level)
            from checks import ext
            lh_bads, lh_stats = ext.part(sc, tier, "X02")
            for script, e in lh_bads:
                v.violation("LevelHook history %s: the hook of the event's level did not run exactly once with the event's level and message: %s" % (script["id"], json.dumps(e)[:300]),
                            {"property": pid, "kind": "levelhook", "script": script, "recording": e})
        nprog = sum(len(rr) - 1 for rr in shard_lines) + tree_n
        if drift:
            log("%s: MODEL DRIFT: %d recordings do not follow Render() of EventDoc (no verdict)" % (pid, drift))
        sample = []
        for rr in shard_lines[:2]:
            if len(rr) > 1:
                e = json.loads(rr[1])
                sample.append({"abstract": e["abs"]["p"], "names": e["abs"]["n"], "tokens": e["tokens"], "keys": e["keys"], "raw": e["raw"]})
        cov = {"states": max(1, stats["distinct"]), "transitions": max(1, stats["generated"]), "traces_validated_against_impl": nprog, "samples": sample,
               "model": stats, "programs_run": nprog, "rejected_for_this_property": len(v.violations), "rejected_for_sibling_property": other,
               "drifted_from_model": drift, "exhaustive": False,
               "scope": "model: all programs with <= %d operations over %d classes; replayed: all with <= %d operations + simulated programs up to 9 operations and 3 hooks" % (4 if thorough else 3, 30, 3 if thorough else 2),
               "checker_cmd": "tlc EventDocMC.tla (WellFormed on the model); tlc EventDocTrace.tla on recordings"}
        write_evidence(pid, tier, seed, "model_checking", cov, time.time() - t0, len(v.violations),
                       assumptions=["harness/prog/lex.go (independent lexer) is the projection from bytes to tokens", "values produced by encoding/json or caller-supplied RawJSON are one value to the builder discipline (collapsed for the layout check, not for the grammar check)",
                                    "excluded as in the statement: invalid RawJSON / marshal func output, time layouts with quote, backslash or control characters"])
    return v.finish()
