"""C16: ConsoleWriter renders every event losslessly and deterministically (spec/console/Console.tla)."""
import json
import random
import time

from vlib import (Inconclusive, Scratch, Verdict, copy_specs, go_build, log, parse_tla_tuple, run_player, tlc, validate_sharded, write_evidence, NCPU)

FAMILY = "console"
VC = {"level": ["lvl-info", "lvl-warn", "lvl-custom", "lvl-num"], "time": ["time-rfc", "time-bad", "time-unix", "time-real", "time-real", "time-real"], "message": ["msg"], "caller": ["caller"]}
NTSETS = 7     # combinations of TimeFieldFormat x ConsoleWriter.TimeFormat x TimeLocation in the player (tsets)
GENERIC = ["plain", "quote", "int", "floatexp", "numtok", "numtok", "bool", "null", "obj", "arr", "objpct", "arrpct", "pct"]


def cases_of(r, rng, default_parts=("time", "level", "caller", "message")):
    out = []
    for ln in r.out.splitlines():
        if not ln.startswith('"@@CASE|'):
            continue
        c = json.loads(parse_tla_tuple("<<" + ln + ">>")[0].split("|", 1)[1])
        vc = []
        for name in c["ev"]:
            if name in VC:
                vc.append(rng.choice(VC[name]))
            elif name in c["cfg"]["parts"]:
                vc.append(rng.choice(["plain", "int"]))      # custom part: %s of the decoded value
            else:
                vc.append(rng.choice(GENERIC))
        # time-real members are logged with Event.Time under a rotating combination of the time settings; the other time
        # classes (strings / integers written by hand) keep the default settings they were written for
        tset = rng.randrange(NTSETS) if "time-real" in vc and not any(x in vc for x in ("time-rfc", "time-bad", "time-unix")) else 0
        out.append({"ev": c["ev"], "vc": vc, "cfg": c["cfg"], "tset": tset, "defaultparts": tuple(c["cfg"]["parts"]) == tuple(default_parts) and rng.random() < 0.5})
        out[-1]["rename"] = out[-1]["defaultparts"] and rng.random() < 0.4
    return out


def check(pid, tier, seed, replay=None):
    t0 = time.time()
    v = Verdict(pid)
    thorough = tier == "thorough"
    rng = random.Random(seed)
    with Scratch(pid) as sc:
        mdir = sc.sub("tlc")
        copy_specs(FAMILY, mdir)
        player = go_build("./players/hist", sc.path("histplayer"))
        if replay:
            cases = [json.load(open(replay))["case"]]
            r = None
        else:
            names = "ThoroughNames" if thorough else "QuickNames"
            cfg = "CONSTANTS Names <- %s\n MaxFields = %d\n Configs <- AllConfigs\nSPECIFICATION Spec\nCHECK_DEADLOCK FALSE\nINVARIANTS Emit OrdersArePermutations\n"
            r = tlc(mdir, "MCConsole", cfg % (names, 3 if thorough else 2), workers=NCPU, timeout=1800, heap="16g")
            if not r.completed:
                raise Inconclusive("Console contract sanity failed: %s" % r.out[-1500:])
            cases = cases_of(r, rng)
            sim = tlc(mdir, "MCConsole", cfg % ("ThoroughNames", 6), workers=1, simulate=20000 if thorough else 4000, depth=8, seed=seed, timeout=900, cfg_name="cons_sim.cfg")
            cases += cases_of(sim, rng)
            # every event of the C01 generator through the default configuration
            from checks import logger as L
            from concretize import Gen
            from vlib import copy_specs as _cs
            ldir = sc.sub("tlc-logger")
            _cs("logger", ldir)
            ex = L.enumerate_programs(ldir, 9, 2, emit=True, workers=1, simulate=8000 if thorough else 2500, seed=seed, depth=40, opset="Ops")
            g = Gen(seed)
            progs = [p for p in (g.program("p%d" % i, ap) for i, ap in enumerate(L.abstract_programs(ex))) if p is not None]
            lp = go_build("./players/logger", sc.path("lp-json"))
            lrecs = run_player(lp, sc, "events", [json.dumps(p) for p in progs], shards=8, per_script=False, extra_args=["-bytes"])
            nraw = 0
            for _, rr in lrecs:
                for ln in rr[1:]:
                    e = json.loads(ln)
                    if e.get("out") and e.get("nw") == 1 and e.get("gojson"):
                        cases.append({"raw": e["out"], "ev": [], "vc": [], "cfg": {"parts": [], "pexcl": [], "forder": [], "fexcl": []}})
                        nraw += 1
            log("%s: + %d generated events" % (pid, nraw))
        log("%s: %d cases %.0fs" % (pid, len(cases), time.time() - t0))
        scripts = [json.dumps({"fam": "console", "conf": "x", "id": "c%d" % i, "ops": cases[i:i + 500]}) for i in range(0, len(cases), 500)]
        recs = run_player(player, sc, "console", scripts, shards=NCPU)
        bads = validate_sharded(sc.dir, "ConsoleTrace", "hist.ndjson", [rr for _, rr in recs], NCPU, FAMILY,
                                constants=" Names <- QuickNames\n MaxFields = 2\n Configs <- AllConfigs")
        for ri, k, e, sig in bads:
            if e["a"] == "Raw":
                script = json.loads(recs[ri][0])
                v.violation("a generated event is not rendered: n=%s of %s err=%s same=%s oneline=%s" % (e["n"], e["inlen"], e["err"], e["same"], e["oneline"]),
                            {"property": pid, "case": script["ops"][k - 1] if k - 1 < len(script["ops"]) else None, "record": e})
                continue
            v.violation("event %s / %s under %s rendered as %r (parts %s fields %s n=%s err=%s)" % (e["ev"], e["vc"], json.dumps(e["cfg"]), e["line"][:200], e["gotparts"], e["gotfields"], e["n"], e["err"]),
                        {"property": pid, "case": {"ev": e["ev"], "vc": e["vc"], "cfg": e["cfg"]}, "record": e})
        n = sum(len(rr) - 1 for _, rr in recs)
        samples = [json.loads(rr[1]) for _, rr in recs[:3] if len(rr) > 1]
        cov = {"states": max(1, r.distinct if r else 1), "transitions": max(1, r.generated if r else 1), "traces_validated_against_impl": n, "samples": samples,
               "cases": n, "exhaustive": True, "exhaustive_scope": "all member-name sequences of <= %d names over the alphabet x 180 configurations (PartsOrder x PartsExclude x FieldsOrder x FieldsExclude), + simulated sequences up to 6 names; value classes seeded per member" % (3 if thorough else 2),
               "checker_cmd": "tlc MCConsole.tla (cases + OrdersArePermutations); tlc ConsoleTrace.tla"}
        write_evidence(pid, tier, seed, "model_checking", cov, time.time() - t0, len(v.violations),
                       assumptions=["unit texts are rendered by reference functions in the player (strconv.Quote, encoding/json, time.Format): standard library only",
                                    "not covered: colour codes, custom formatters, FormatExtra / FormatPrepare"])
    return v.finish()
