"""Extension checks X01-X04 (not among the listed properties; they grow the specification's coverage of the system):
X01 syslog level writers (spec/aux/Syslog.tla), X02 LevelHook dispatch (LevelHook.tla), X03 loggers carried in a
context.Context (CtxStore.tla), X04 the text form of levels (LevelNames.tla). TLC enumerates every history of the contract within a bound, the hist player runs
them on the real code through the public API, AuxTrace.tla validates the recordings. Evidence: ext/evidence/<id>.json."""
import json
import os
import time

from vlib import (Inconclusive, Scratch, Verdict, copy_specs, go_build, log, parse_tla_tuple, run_player, tlc, validate_sharded, NCPU, VERIF)

FAMILY = "aux"
PARAMS = {"X01": ("Syslog", "syslog", "CONSTANTS MaxOps = %d\n", (1, 2), "Emit AtMostOne"),
          "X02": ("LevelHook", "levelhook", "", (0, 0), "Emit"),
          "X04": ("LevelNames", "levelnames", "", (0, 0), "Emit RoundTrip Injective StrRoundTrip FailIsNoLevel DecimalOfNamed"),
          "X03": ("CtxStore", "ctxstore", "CONSTANTS MaxOps = %d\n", (4, 5), "Emit DisabledNeverFirst")}


def ctx_part(sc, tier):
    """The CtxStore histories (X03) as a part of C05: a logger stored in a context.Context is a derived value like any other -
    what is stored further in must not change what an outer context's logger is (ctx.go is one of C05's anchors)."""
    mod, fam, consts, bounds, invs = PARAMS["X03"]
    mdir = sc.sub("tlc-ctx")
    copy_specs(FAMILY, mdir)
    player = go_build("./players/hist", sc.path("histplayer-ctx"))
    r = tlc(mdir, mod, consts % (bounds[1] if tier == "thorough" else bounds[0]) + "SPECIFICATION Spec\nCHECK_DEADLOCK FALSE\nINVARIANTS %s\n" % invs, workers=4, timeout=900)
    if not r.completed:
        raise Inconclusive("%s: %s" % (mod, r.out[-1500:]))
    lines = [json.dumps({"fam": fam, "conf": "", "ops": [json.loads(x[2])], "id": "%s-%d" % (fam, i)}) for i, x in enumerate(r.prints("HIST"))]
    if not lines:
        raise Inconclusive("%s exported no history" % mod)
    recs = run_player(player, sc, "ctxstore", lines, shards=min(NCPU, max(1, len(lines) // 200)))
    bads = validate_sharded(sc.dir, "AuxTrace", "hist.ndjson", [rr for _, rr in recs], min(NCPU, max(1, len(recs) // 400)), FAMILY)
    return recs, [(json.loads(recs[ri][0]), e) for ri, k, e, sig in bads], {"model_states": r.distinct, "histories": len(lines)}


def part(sc, tier, xid):
    """The histories of an extension contract as a part of a listed property's check (LevelHook for C03: a LevelHook is a hook;
    LevelNames for C04: the statement names the text forms of levels). Returns (violations, stats)."""
    mod, fam, consts, bounds, invs = PARAMS[xid]
    mdir = sc.sub("tlc-" + xid)
    copy_specs(FAMILY, mdir)
    player = go_build("./players/hist", sc.path("histplayer-" + xid))
    bound = bounds[1] if tier == "thorough" else bounds[0]
    r = tlc(mdir, mod, (consts % bound if "%d" in consts else consts) + "SPECIFICATION Spec\nCHECK_DEADLOCK FALSE\nINVARIANTS %s\n" % invs, workers=4, timeout=900)
    if not r.completed:
        raise Inconclusive("%s: %s" % (mod, r.out[-1500:]))
    lines = [json.dumps({"fam": fam, "conf": "", "ops": [json.loads(x[2])], "id": "%s-%d" % (fam, i)}) for i, x in enumerate(r.prints("HIST"))]
    if not lines:
        raise Inconclusive("%s exported no history" % mod)
    recs = run_player(player, sc, "ext-" + xid, lines, shards=1)
    bads = validate_sharded(sc.dir, "AuxTrace", "hist.ndjson", [rr for _, rr in recs], 1, FAMILY)
    return [(json.loads(recs[ri][0]), e) for ri, k, e, sig in bads], {"model_states": r.distinct, "histories": len(lines), "spec": "spec/aux/%s.tla" % mod}


def check(pid, tier, seed, replay=None):
    t0 = time.time()
    mod, fam, consts, bounds, invs = PARAMS[pid]
    v = Verdict(pid)
    thorough = tier == "thorough"
    with Scratch(pid) as sc:
        mdir = sc.sub("tlc")
        copy_specs(FAMILY, mdir)
        player = go_build("./players/hist", sc.path("histplayer"))
        if replay:
            lines = [json.dumps(json.load(open(replay))["script"])]
            stats = None
        else:
            bound = bounds[1] if thorough else bounds[0]
            cfg = (consts % bound if "%d" in consts else consts) + "SPECIFICATION Spec\nCHECK_DEADLOCK FALSE\nINVARIANTS %s\n" % invs
            r = tlc(mdir, mod, cfg, workers=4, timeout=900)
            if not r.completed:
                raise Inconclusive("%s: %s" % (mod, r.out[-1500:]))
            stats = r
            lines = []
            for i, x in enumerate(r.prints("HIST")):
                lines.append(json.dumps({"fam": fam, "conf": "", "ops": [json.loads(x[2])], "id": "%s-%d" % (fam, i)}))
            if not lines:
                raise Inconclusive("%s exported no history" % mod)
        log("%s: %d histories %.0fs" % (pid, len(lines), time.time() - t0))
        recs = run_player(player, sc, "ext", lines, shards=min(NCPU, max(1, len(lines) // 200)))
        bads = validate_sharded(sc.dir, "AuxTrace", "hist.ndjson", [rr for _, rr in recs], min(NCPU, max(1, len(recs) // 400)), FAMILY)
        for ri, k, e, sig in bads:
            v.violation("history %s: the real code did not do what %s.tla says: %s" % (e.get("id"), mod, json.dumps(e)[:500]),
                        {"property": pid, "script": json.loads(recs[ri][0]), "recording": e})
        ev = {"check_id": pid, "extension": True, "spec": "spec/aux/%s.tla + AuxTrace.tla" % mod, "tier": tier, "seed": seed,
              "model_states": stats.distinct if stats else 0, "histories_replayed": len(lines), "records_validated": sum(len(rr) - 1 for _, rr in recs),
              "exhaustive_scope": "every history of the contract within the bound of the tier", "violations": len(v.violations), "wall_s": round(time.time() - t0, 1)}
        d = os.path.join(VERIF, "ext", "evidence")
        os.makedirs(d, exist_ok=True)
        if not os.environ.get("VERIF_EVIDENCE_DIR"):
            json.dump(ev, open(os.path.join(d, pid + ".json"), "w"), indent=1)
    return v.finish()
