"""C08 (binary build decodes to what the JSON build emits) and C09 (binary output is well-formed CBOR that
carries the logged values). The C01 programs run once per build tag; CborTrace.tla judges each record."""
import json
import os
import time

import cborproj
from checks import logger as L
from concretize import Gen
from vlib import (Inconclusive, Scratch, Verdict, copy_specs, go_build, known_signatures, log, make_overlay, run_player, validate_sharded,
                  write_evidence, HARNESS, NCPU)

FAMILY = "cbor"


def check(pid, tier, seed, replay=None):
    t0 = time.time()
    v = Verdict(pid)
    thorough = tier == "thorough"
    with Scratch(pid) as sc:
        mdir = sc.sub("tlc")
        copy_specs("logger", mdir)
        pj = go_build("./players/logger", sc.path("lp-json"))
        ov = make_overlay(sc, "bridge", [], [], [("zz_verif_bridge_cbor.go", os.path.join(HARNESS, "inject", "zerolog_bridge_cbor.go"))])
        pb = go_build("./players/logger", sc.path("lp-cbor"), overlay=ov, tags="binary_log")
        if replay:
            progs = [json.load(open(replay))["program"]]
            stats = {"distinct": 1, "generated": 1}
        else:
            # quick: every program with <= 2 operations and <= 1 hook (88 k). thorough: <= 3 operations without hooks (557 k)
            # and <= 2 operations with <= 2 hooks (458 k); <= 3 operations with a hook is 3.2 M programs - measured: 20 min and
            # 50 GB of recordings, beyond this sandbox - and is left to the model-level run and to simulation
            ex = L.enumerate_programs(mdir, 3 if thorough else 2, 0 if thorough else 1, emit=True)
            absprogs = L.abstract_programs(ex)
            if thorough:
                absprogs += L.abstract_programs(L.enumerate_programs(mdir, 2, 2, emit=True))
            sim = L.enumerate_programs(mdir, 9, 3, emit=True, workers=1, simulate=6000 if thorough else 1500, seed=seed, depth=40, opset="Ops")
            absprogs += L.abstract_programs(sim)
            absprogs += L.abstract_programs(L.enumerate_programs(mdir, 2, 0, emit=True, workers=2, opset="BigOps"))
            stats = {"distinct": ex.distinct, "generated": ex.generated}
            g = Gen(seed, binary_safe=True)
            progs = [p for p in (g.program("p%d" % i, ap) for i, ap in enumerate(absprogs)) if p is not None]
            for p in progs:
                # FloatingPointPrecision deliberately rounds the JSON rendering only (the binary encoder ignores it):
                # equality of float values between the builds is stated for the default precision
                p["set"].pop("floatPrec", None)
        log("%s: %d programs %.0fs" % (pid, len(progs), time.time() - t0))
        # the programs are run, projected and validated in batches: recordings of a million programs (thorough tier) at once take
        # tens of GB of memory in this process
        all_progs = progs
        BATCH = 120000
        nprog, nval, other, n386, sample = 0, 0, 0, 0, []
        known = known_signatures(pid)
        import base64
        for b0 in range(0, max(1, len(all_progs)), BATCH):
            progs = all_progs[b0:b0 + BATCH]
            lines = [json.dumps(p) for p in progs]
            rj = run_player(pj, sc, "json", lines, shards=NCPU, per_script=False, extra_args=["-bytes"])
            rb = run_player(pb, sc, "cbor", lines, shards=NCPU, per_script=False)
            jout = {}
            for _, rr in rj:
                for ln in rr[1:]:
                    e = json.loads(ln)
                    jout[e["id"]] = e
            byid = {p["id"]: p for p in progs}
            shard_lines = []
            decs = {}
            for _, rr in rb:
                outl = [rr[0]]
                for ln in rr[1:]:
                    e = json.loads(ln)
                    if e["a"] == "Stream":
                        outl.append(ln)
                        continue
                    pr = byid[e["id"]]
                    je = jout.get(e["id"], {})
                    e["ikeys"] = cborproj.ikeys(e.get("item"), opaque=set(pr.get("opaque") or ()) | set(pr.get("opaqueel") or ()))
                    e.setdefault("itemerr", "")
                    e.setdefault("heads", [])
                    e.setdefault("decerr", "")
                    e.setdefault("decpanic", "")
                    e.setdefault("dkeys", [])
                    e.setdefault("draw", {"nl": False, "noctl": False, "utf8": False})
                    bad, checked = cborproj.valbad(pr, e.get("item")) if e.get("item") else ([], 0)
                    e["valbad"] = bad
                    nval += checked
                    e["jkeys"] = je.get("ckeys", [])
                    sig = ""
                    if e["nw"] == 1 and je.get("out") and e.get("dec"):
                        d, sigs = cborproj.jdiff(pr, base64.b64decode(je["out"]), base64.b64decode(e["dec"]))
                        e["jdiff"] = ["/".join(map(str, x)) for x in d][:5]
                        if d and sigs and len(sigs) == 1:
                            sig = "~" + next(iter(sigs))
                    else:
                        e["jdiff"] = [] if e["nw"] == 0 else ["<missing>"]
                    e["sig"] = sig
                    decs[e["id"]] = (e.get("out"), e.get("dec"))
                    for k in ("item", "out", "dec", "ctokens", "ckeys", "hooks", "levels", "dtokens"):
                        e.pop(k, None)
                    outl.append(json.dumps(e))
                shard_lines.append(outl)
            log("%s: played and projected %.0fs" % (pid, time.time() - t0))
            from checks.logger import consts
            res = validate_sharded(sc.dir, "CborTrace", "hist.ndjson", shard_lines, len(shard_lines), "cbor", constants=consts(), also=("logger",))
            for ri, k, e, tag in res:
                tags, _, sig = tag.partition("~")
                if pid not in tags:
                    other += 1
                    continue
                if sig and sig in known and pid == "C08" and "C08" in tags:
                    v.known_finding(sig, known[sig]["what"])
                    continue
                if e["a"] == "Stream":
                    v.violation("a run of %d events (%d bytes) decoded as one stream: %d lines, %d differ from the event decoded alone (first %d) %s" % (e["events"], e["bytes"], e["lines"], e["mismatch"], e["first"], e["decerr"][:80]),
                                {"property": pid, "kind": "stream", "record": e})
                    continue
                v.violation("program %s: %s (valbad=%s jdiff=%s decerr=%s)" % (e["id"], tags, e.get("valbad"), e.get("jdiff"), e.get("decerr", "")[:80]),
                            {"property": pid, "program": byid[e["id"]], "recording": e, "json_build": jout.get(e["id"]),
                             "binary_out_b64": decs.get(e["id"], (None, None))[0], "decoded_b64": decs.get(e["id"], (None, None))[1]})
            if pid == "C09" and not replay:
                # the same programs on a 32-bit build of the binary encoder (GOARCH=386 runs on this kernel): what is written does not depend
                # on the platform's word size - an int64 stays an int64 whatever `int` is. A sample of the programs whose arguments of the
                # platform-dependent types int / uint fit in 32 bits; the events must be byte-identical to the 64-bit build's
                def fits32(x):
                    if isinstance(x, dict):
                        if x.get("t") in ("int", "uint", "[]int", "[]uint"):
                            vals = ([x["i"]] if "i" in x else []) + list(x.get("is") or [])
                            if any(not (-(1 << 31) <= int(v) < (1 << 31)) for v in vals):
                                return False
                        return all(fits32(y) for y in x.values())
                    if isinstance(x, list):
                        return all(fits32(y) for y in x)
                    return True
                cand = [p for p in progs if fits32(p)]
                sample386 = cand[:: max(1, len(cand) // (2000 if thorough else 4000))]
                pb386 = go_build("./players/logger", sc.path("lp-cbor-386"), overlay=ov, tags="binary_log", goarch="386")
                r386 = run_player(pb386, sc, "cbor386", [json.dumps(p) for p in sample386], shards=NCPU, per_script=False)
                for _, rr in r386:
                    for ln in rr[1:]:
                        e = json.loads(ln)
                        if e.get("a") == "Stream" or e["id"] not in decs:
                            continue
                        n386 += 1
                        if e.get("out") != decs[e["id"]][0]:
                            v.violation("program %s: the 32-bit build of the binary encoder writes other bytes than the 64-bit build (%s / %s)" % (e["id"], (e.get("out") or "")[:60], (decs[e["id"]][0] or "")[:60]),
                                        {"property": pid, "kind": "386", "program": byid[e["id"]], "out_386_b64": e.get("out"), "out_amd64_b64": decs[e["id"]][0]})
                log("%s: 32-bit build: %d programs byte-identical check %.0fs" % (pid, n386, time.time() - t0))
            nprog += sum(len(x) - 2 for x in shard_lines)
            if not sample:
                sample = [json.loads(x[1]) for x in shard_lines[:2] if len(x) > 1]
            del rj, rb, jout, byid, shard_lines, decs, res, lines
        progs = all_progs
        esc = {}
        if pid == "C08" and not replay:
            # "text and []byte with the same escaping": the decoder's own copy of the escaping loop against JsonString.tla
            from checks import escape
            eviol, edrift, en, estats = escape.run(sc, tier, seed, binary=True)
            for e in eviol:
                v.violation("bundled decoder, %s of %s: wrote %s - not clean / not valid UTF-8 / does not un-escape to the input" % (e["via"], bytes(e["in"]).hex(), e["out"][:60]),
                            {"property": pid, "kind": "escape", "record": e})
            esc = dict(estats, records=en, drift_from_transcription=edrift)
        cov = {"states": max(1, stats["distinct"]), "transitions": max(1, stats["generated"]), "traces_validated_against_impl": nprog, "samples": sample,
               "programs_run_under_both_build_tags": nprog, "programs_rerun_on_386_build": n386, "scalar_values_compared_with_arguments": nval, "rejected_for_sibling_property": other,
               "known_findings_matched": {k: n for k, (n, _) in v.known.items()}, "escaping": esc, "exhaustive": False,
               "checker_cmd": "tlc EventDocMC.tla (programs); tlc CborTrace.tla (CborWF automaton + ExpectedKeys + projections)"}
        write_evidence(pid, tier, seed, "model_checking", cov, time.time() - t0, len(v.violations),
                       assumptions=["harness/prog/cborref.go (independent RFC 8949 scanner/decoder) and lib/cborproj.py (value comparisons) are the projections",
                                    "UTF-8 validity of text strings is outside RFC 8949 well-formedness"])
    return v.finish()
