// Package vsched is a cooperative gate scheduler injected into the zerolog
// module at check time through `go build -overlay` (it is never committed to
// the repository). Every shim operation (vatomic, vsync, vctx, ...) is a
// *gate*: the calling managed goroutine announces (label, enabled?, effect)
// and parks; the player releases exactly one goroutine at a time, the effect
// runs, and the goroutine continues to its next gate. Goroutines that are not
// managed (the player's main goroutine) run straight through gates.
//
// Standard library only, no generics (the zerolog module says go 1.15).
package vsched

import (
	"bytes"
	"fmt"
	"reflect"
	"runtime"
	"strconv"
	"sync"
	"time"
)

// G is one managed goroutine.
type G struct {
	Name    string
	gate    chan struct{}
	at      chan string
	Label   string      // gate it is parked at ("end" when finished)
	Enabled func() bool // nil = always enabled
	Done    bool
	Steps   int
}

var (
	mu      sync.Mutex
	byID    = map[int64]*G{}
	all     = map[string]*G{}
	order   []string
	counter = map[string]int{}
	// Free, when true, disables the scheduler: Gate runs its effect at once on
	// every goroutine and Go starts plain goroutines. Used for unshimmed-like
	// stress runs of instrumented builds.
	Free bool
	// StepTimeout bounds how long Step waits for the released goroutine to
	// reach its next gate; a real (unshimmed) blocking operation trips it.
	StepTimeout = 10 * time.Second
)

func goid() int64 {
	var arr [64]byte
	b := arr[:runtime.Stack(arr[:], false)]
	b = bytes.TrimPrefix(b, []byte("goroutine "))
	i := bytes.IndexByte(b, ' ')
	if i < 0 {
		return -1
	}
	n, _ := strconv.ParseInt(string(b[:i]), 10, 64)
	return n
}

// Reset forgets all managed goroutines (parked ones are abandoned; they hold
// only their own stacks).
func Reset() {
	mu.Lock()
	byID = map[int64]*G{}
	all = map[string]*G{}
	order = nil
	counter = map[string]int{}
	Panics = nil
	mu.Unlock()
}

func cur() *G {
	id := goid()
	mu.Lock()
	g := byID[id]
	mu.Unlock()
	return g
}

// Current returns the name of the calling managed goroutine ("" if unmanaged).
func Current() string {
	if g := cur(); g != nil {
		return g.Name
	}
	return ""
}

// Managed reports whether the calling goroutine is managed.
func Managed() bool { return !Free && cur() != nil }

// Lookup returns the managed goroutine with that name, or nil.
func Lookup(name string) *G {
	mu.Lock()
	defer mu.Unlock()
	return all[name]
}

// Names returns the names of all managed goroutines in creation order.
func Names() []string {
	mu.Lock()
	defer mu.Unlock()
	return append([]string(nil), order...)
}

// KeepPanics: players that set it get the panics of managed goroutines in Panics (and must report them) instead of dying.
var (
	KeepPanics bool
	Panics     []string
)

// Go starts f as a managed goroutine and returns once it is parked at its
// first gate (or has finished). A name that is already taken gets "#k".
func Go(name string, f func()) *G {
	if Free {
		go f()
		return nil
	}
	mu.Lock()
	counter[name]++
	if k := counter[name]; k > 1 {
		name = name + "#" + strconv.Itoa(k)
	}
	g := &G{Name: name, gate: make(chan struct{}), at: make(chan string, 1)}
	all[name] = g
	order = append(order, name)
	mu.Unlock()
	go func() {
		id := goid()
		mu.Lock()
		byID[id] = g
		mu.Unlock()
		defer func() {
			// a managed goroutine that panics (an unaligned 64-bit atomic on a 32-bit platform, an index out of range ...) ends; the
			// panic is kept for the player, which reports it as an observation instead of dying with it
			if x := recover(); x != nil {
				if !KeepPanics {
					panic(x)
				}
				mu.Lock()
				Panics = append(Panics, g.Name+": "+fmt.Sprint(x))
				mu.Unlock()
			}
			mu.Lock()
			delete(byID, id)
			mu.Unlock()
			g.Done = true
			close(g.at)
		}()
		f()
	}()
	l, ok := <-g.at
	if !ok {
		l = "end"
	}
	g.Label = l
	return g
}

// Gate parks the calling managed goroutine at label. When the player
// releases it, effect runs (no other managed goroutine runs meanwhile).
func Gate(label string, enabled func() bool, effect func()) {
	if Free {
		if effect != nil {
			effect()
		}
		return
	}
	g := cur()
	if g == nil {
		// unmanaged goroutine: the operation must be possible right now
		if enabled != nil && !enabled() {
			panic("vsched: unmanaged goroutine would block at " + label)
		}
		if effect != nil {
			effect()
		}
		return
	}
	g.Enabled = enabled
	g.at <- label
	<-g.gate
	g.Enabled = nil
	if effect != nil {
		effect()
	}
}

// CanRun reports whether g could be released now.
func CanRun(g *G) bool {
	return g != nil && !g.Done && (g.Enabled == nil || g.Enabled())
}

// Step releases g from its gate and waits until it parks again or ends.
// It returns the new label: "end" when finished, "BLOCKED:<label>" when g was
// not enabled (nothing happened), "HUNG" when g did not reach a gate in time.
func Step(g *G) string {
	if g == nil || g.Done {
		return "end"
	}
	if g.Enabled != nil && !g.Enabled() {
		return "BLOCKED:" + g.Label
	}
	g.gate <- struct{}{}
	g.Steps++
	select {
	case l, ok := <-g.at:
		if !ok {
			g.Label = "end"
			return "end"
		}
		g.Label = l
		return l
	case <-time.After(StepTimeout):
		g.Label = "HUNG"
		g.Done = true
		return "HUNG"
	}
}

// RecvStruct replaces a blocking `<-ch` on a chan struct{} used as a close
// signal: one gate, enabled iff a receive would not block.
func RecvStruct(ch <-chan struct{}) {
	Gate("ch.recv", func() bool {
		select {
		case <-ch:
			return true
		default:
			return false
		}
	}, nil)
	if Free {
		<-ch
	}
}

// CloseStruct replaces close(ch).
func CloseStruct(ch chan struct{}) {
	Gate("ch.close", nil, func() { close(ch) })
}

// Sleep replaces time.Sleep: a plain gate (time is not modelled).
func Sleep(d time.Duration) {
	if Free {
		time.Sleep(d)
		return
	}
	Gate("time.sleep", nil, nil)
}

// SendCase is a `case Ch <- V:` of a select handed to Select.
type SendCase struct {
	Ch interface{}
	V  interface{}
}

// Select replaces a blocking select whose cases are all plain receives. Channels whose element type is time.Time are
// timers: time is not modelled, so a timer may fire whenever the scheduler lets the goroutine run - but it is only taken
// when no other case is ready (an execution in which the timer has not expired yet is always possible). One gate,
// labelled like Sleep when a timer is among the cases. Returns the index of the chosen case.
func Select(chs ...interface{}) int {
	cases := make([]reflect.SelectCase, len(chs))
	timer := -1
	hasSend := false
	for i, c := range chs {
		if sc, ok := c.(SendCase); ok {
			// `case ch <- v:` - supported for buffered channels (enabled iff there is room)
			cases[i] = reflect.SelectCase{Dir: reflect.SelectSend, Chan: reflect.ValueOf(sc.Ch), Send: reflect.ValueOf(sc.V)}
			hasSend = true
			continue
		}
		v := reflect.ValueOf(c)
		cases[i] = reflect.SelectCase{Dir: reflect.SelectRecv, Chan: v}
		if timer < 0 && v.Type().Elem() == reflect.TypeOf(time.Time{}) {
			timer = i
		}
	}
	if Free || cur() == nil {
		i, _, _ := reflect.Select(cases)
		return i
	}
	if hasSend {
		// with a send among the cases readiness must be decided WITHOUT touching the channels: a buffered channel is ready to
		// receive from when it holds something (or is closed: then a non-blocking receive returns at once and consumes nothing),
		// ready to send to when it has room
		isReady := func(c reflect.SelectCase) bool {
			if c.Dir == reflect.SelectSend {
				return c.Chan.Cap() > 0 && c.Chan.Len() < c.Chan.Cap()
			}
			if c.Chan.Len() > 0 {
				return true
			}
			j, _, ok := reflect.Select([]reflect.SelectCase{c, {Dir: reflect.SelectDefault}})
			return j == 0 && !ok // closed
		}
		first := func() int {
			for i, c := range cases {
				if i != timer && c.Chan.Type().Elem() != reflect.TypeOf(time.Time{}) && isReady(c) {
					return i
				}
			}
			return -1
		}
		label := "ch.select"
		if timer >= 0 {
			label = "time.sleep"
		}
		Gate(label, func() bool { return timer >= 0 || first() >= 0 }, nil)
		if i := first(); i >= 0 {
			reflect.Select([]reflect.SelectCase{cases[i], {Dir: reflect.SelectDefault}})
			return i
		}
		return timer
	}
	ready := func() int {
		for i, c := range cases {
			if i == timer || c.Chan.Type().Elem() == reflect.TypeOf(time.Time{}) {
				continue
			}
			if j, _, _ := reflect.Select([]reflect.SelectCase{c, {Dir: reflect.SelectDefault}}); j == 0 {
				return i
			}
		}
		return -1
	}
	label := "ch.select"
	if timer >= 0 {
		label = "time.sleep"
	}
	Gate(label, func() bool { return timer >= 0 || ready() >= 0 }, nil)
	if i := ready(); i >= 0 {
		return i
	}
	return timer
}

// Yield is a plain gate usable by players (e.g. inside a recording writer).
func Yield(label string) { Gate(label, nil, nil) }
