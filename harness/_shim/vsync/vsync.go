// Package vsync mirrors the parts of package sync that zerolog uses, with
// every blocking or ordering-relevant operation turned into a scheduler gate.
//
// Trusted base: Mutex/Cond/Pool below have the semantics of the Go primitives
// under sequential consistency. Cond.Wait registers the waiter and releases
// the mutex in ONE step, which is what sync.Cond does (notifyListAdd happens
// before L.Unlock and a Broadcast after the Unlock always sees the ticket).
package vsync

import (
	"sync"

	"github.com/rs/zerolog/zzverif/vsched"
)

// LastBroadcastWoke: per managed goroutine, how many registered waiters its most recent Cond.Broadcast woke
// (0 = the broadcast found nobody waiting). Players reset it per script; used only for known-finding signatures.
var LastBroadcastWoke = map[string]int{}

// LastBroadcastBy / LastBroadcastN: the goroutine of the most recent Broadcast of all and how many waiters it woke.
var (
	LastBroadcastBy string
	LastBroadcastN  int
)

type Locker = sync.Locker

// Once and WaitGroup are not scheduling points in zerolog; keep the real ones.
type Once = sync.Once
type WaitGroup = sync.WaitGroup
type Map = sync.Map

type Mutex struct {
	held bool
	real sync.Mutex // used only in vsched.Free mode
}

func (m *Mutex) Lock() {
	if vsched.Free {
		m.real.Lock()
		return
	}
	vsched.Gate("mu.lock", func() bool { return !m.held }, func() { m.held = true })
}

func (m *Mutex) Unlock() {
	if vsched.Free {
		m.real.Unlock()
		return
	}
	vsched.Gate("mu.unlock", nil, func() {
		if !m.held {
			panic("vsync: unlock of unlocked mutex")
		}
		m.held = false
	})
}

// TryLock: one gate; takes the mutex if it is free at that moment.
func (m *Mutex) TryLock() (ok bool) {
	if vsched.Free {
		return m.real.TryLock()
	}
	vsched.Gate("mu.trylock", nil, func() {
		if !m.held {
			m.held, ok = true, true
		}
	})
	return
}

// Held is for players' state projections.
func (m *Mutex) Held() bool { return m.held }

type RWMutex struct{ Mutex }

func (m *RWMutex) RLock()   { m.Lock() }
func (m *RWMutex) RUnlock() { m.Unlock() }

type waiter struct{ signalled bool }

type Cond struct {
	L       Locker
	waiters []*waiter
	real    *sync.Cond
}

func NewCond(l Locker) *Cond { return &Cond{L: l, real: sync.NewCond(l)} }

// Waiting reports how many goroutines are registered and not yet signalled.
func (c *Cond) Waiting() int { return len(c.waiters) }

func (c *Cond) Wait() {
	if vsched.Free {
		c.real.Wait()
		return
	}
	w := &waiter{}
	if m, ok := c.L.(*Mutex); ok {
		vsched.Gate("cond.wait", nil, func() { c.waiters = append(c.waiters, w); m.held = false })
		vsched.Gate("cond.wake", func() bool { return w.signalled && !m.held }, func() { m.held = true })
		return
	}
	vsched.Gate("cond.wait", nil, func() { c.waiters = append(c.waiters, w) })
	c.L.Unlock()
	vsched.Gate("cond.wake", func() bool { return w.signalled }, nil)
	c.L.Lock()
}

func (c *Cond) Broadcast() {
	if vsched.Free {
		c.real.Broadcast()
		return
	}
	vsched.Gate("cond.bcast", nil, func() {
		LastBroadcastWoke[vsched.Current()] = len(c.waiters)
		LastBroadcastBy, LastBroadcastN = vsched.Current(), len(c.waiters)
		for _, w := range c.waiters {
			w.signalled = true
		}
		c.waiters = nil
	})
}

func (c *Cond) Signal() {
	if vsched.Free {
		c.real.Signal()
		return
	}
	vsched.Gate("cond.signal", nil, func() {
		if len(c.waiters) > 0 {
			c.waiters[0].signalled = true
			c.waiters = c.waiters[1:]
		}
	})
}

// Pool is a deterministic LIFO free list. With PoolGates set, Get and Put are
// gates; PoolTrace (if set) sees every operation with the object identity.
type Pool struct {
	New   func() interface{}
	items []interface{}
	mu    sync.Mutex
}

var (
	PoolGates bool
	PoolTrace func(op string, p *Pool, obj interface{}, fresh bool)
)

func (p *Pool) Get() (x interface{}) {
	fresh := false
	eff := func() {
		p.mu.Lock()
		if n := len(p.items); n > 0 {
			x = p.items[n-1]
			p.items = p.items[:n-1]
		}
		p.mu.Unlock()
		if x == nil && p.New != nil {
			x = p.New()
			fresh = true
		}
	}
	if PoolGates {
		vsched.Gate("pool.get", nil, eff)
	} else {
		eff()
	}
	if PoolTrace != nil {
		PoolTrace("get", p, x, fresh)
	}
	return
}

func (p *Pool) Put(x interface{}) {
	if x == nil {
		return
	}
	eff := func() {
		p.mu.Lock()
		p.items = append(p.items, x)
		p.mu.Unlock()
	}
	if PoolGates {
		vsched.Gate("pool.put", nil, eff)
	} else {
		eff()
	}
	if PoolTrace != nil {
		PoolTrace("put", p, x, false)
	}
}

// Len and Drain are for players.
func (p *Pool) Len() int { p.mu.Lock(); defer p.mu.Unlock(); return len(p.items) }
func (p *Pool) Drain()   { p.mu.Lock(); p.items = nil; p.mu.Unlock() }
