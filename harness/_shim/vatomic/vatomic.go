// Package vatomic mirrors the function API of sync/atomic; every operation is
// one scheduler gate whose effect is the real atomic operation.
package vatomic

import (
	"sync"
	"sync/atomic"
	"unsafe"

	"github.com/rs/zerolog/zzverif/vsched"
)

// PtrOps counts the atomic POINTER operations per managed goroutine (in the instrumented packages pointers are ring slots,
// integers are indexes): players use it to tell whether a goroutine touched a slot after some moment.
var (
	ptrMu  sync.Mutex
	ptrOps = map[string]int{}
)

func ptrOp() {
	ptrMu.Lock()
	ptrOps[vsched.Current()]++
	ptrMu.Unlock()
}

// PtrOpsOf returns the number of pointer operations by goroutines whose name has the given prefix; ResetPtrOps clears the counts.
func PtrOpsOf(prefix string) int {
	ptrMu.Lock()
	defer ptrMu.Unlock()
	n := 0
	for k, v := range ptrOps {
		if len(k) >= len(prefix) && k[:len(prefix)] == prefix {
			n += v
		}
	}
	return n
}

func ResetPtrOps() {
	ptrMu.Lock()
	ptrOps = map[string]int{}
	ptrMu.Unlock()
}

func AddInt32(p *int32, d int32) (r int32) {
	vsched.Gate("at.add", nil, func() { r = atomic.AddInt32(p, d) })
	return
}
func AddInt64(p *int64, d int64) (r int64) {
	vsched.Gate("at.add", nil, func() { r = atomic.AddInt64(p, d) })
	return
}
func AddUint32(p *uint32, d uint32) (r uint32) {
	vsched.Gate("at.add", nil, func() { r = atomic.AddUint32(p, d) })
	return
}
func AddUint64(p *uint64, d uint64) (r uint64) {
	vsched.Gate("at.add", nil, func() { r = atomic.AddUint64(p, d) })
	return
}
func AddUintptr(p *uintptr, d uintptr) (r uintptr) {
	vsched.Gate("at.add", nil, func() { r = atomic.AddUintptr(p, d) })
	return
}

func LoadInt32(p *int32) (r int32) {
	vsched.Gate("at.load", nil, func() { r = atomic.LoadInt32(p) })
	return
}
func LoadInt64(p *int64) (r int64) {
	vsched.Gate("at.load", nil, func() { r = atomic.LoadInt64(p) })
	return
}
func LoadUint32(p *uint32) (r uint32) {
	vsched.Gate("at.load", nil, func() { r = atomic.LoadUint32(p) })
	return
}
func LoadUint64(p *uint64) (r uint64) {
	vsched.Gate("at.load", nil, func() { r = atomic.LoadUint64(p) })
	return
}
func LoadUintptr(p *uintptr) (r uintptr) {
	vsched.Gate("at.load", nil, func() { r = atomic.LoadUintptr(p) })
	return
}
func LoadPointer(p *unsafe.Pointer) (r unsafe.Pointer) {
	vsched.Gate("at.load", nil, func() { ptrOp(); r = atomic.LoadPointer(p) })
	return
}

func StoreInt32(p *int32, v int32) { vsched.Gate("at.store", nil, func() { atomic.StoreInt32(p, v) }) }
func StoreInt64(p *int64, v int64) { vsched.Gate("at.store", nil, func() { atomic.StoreInt64(p, v) }) }
func StoreUint32(p *uint32, v uint32) {
	vsched.Gate("at.store", nil, func() { atomic.StoreUint32(p, v) })
}
func StoreUint64(p *uint64, v uint64) {
	vsched.Gate("at.store", nil, func() { atomic.StoreUint64(p, v) })
}
func StoreUintptr(p *uintptr, v uintptr) {
	vsched.Gate("at.store", nil, func() { atomic.StoreUintptr(p, v) })
}
func StorePointer(p *unsafe.Pointer, v unsafe.Pointer) {
	vsched.Gate("at.store", nil, func() { ptrOp(); atomic.StorePointer(p, v) })
}

func SwapInt32(p *int32, v int32) (r int32) {
	vsched.Gate("at.swap", nil, func() { r = atomic.SwapInt32(p, v) })
	return
}
func SwapInt64(p *int64, v int64) (r int64) {
	vsched.Gate("at.swap", nil, func() { r = atomic.SwapInt64(p, v) })
	return
}
func SwapUint32(p *uint32, v uint32) (r uint32) {
	vsched.Gate("at.swap", nil, func() { r = atomic.SwapUint32(p, v) })
	return
}
func SwapUint64(p *uint64, v uint64) (r uint64) {
	vsched.Gate("at.swap", nil, func() { r = atomic.SwapUint64(p, v) })
	return
}
func SwapUintptr(p *uintptr, v uintptr) (r uintptr) {
	vsched.Gate("at.swap", nil, func() { r = atomic.SwapUintptr(p, v) })
	return
}
func SwapPointer(p *unsafe.Pointer, v unsafe.Pointer) (r unsafe.Pointer) {
	vsched.Gate("at.swap", nil, func() { ptrOp(); r = atomic.SwapPointer(p, v) })
	return
}

func CompareAndSwapInt32(p *int32, o, n int32) (r bool) {
	vsched.Gate("at.cas", nil, func() { r = atomic.CompareAndSwapInt32(p, o, n) })
	return
}
func CompareAndSwapInt64(p *int64, o, n int64) (r bool) {
	vsched.Gate("at.cas", nil, func() { r = atomic.CompareAndSwapInt64(p, o, n) })
	return
}
func CompareAndSwapUint32(p *uint32, o, n uint32) (r bool) {
	vsched.Gate("at.cas", nil, func() { r = atomic.CompareAndSwapUint32(p, o, n) })
	return
}
func CompareAndSwapUint64(p *uint64, o, n uint64) (r bool) {
	vsched.Gate("at.cas", nil, func() { r = atomic.CompareAndSwapUint64(p, o, n) })
	return
}
func CompareAndSwapUintptr(p *uintptr, o, n uintptr) (r bool) {
	vsched.Gate("at.cas", nil, func() { r = atomic.CompareAndSwapUintptr(p, o, n) })
	return
}
func CompareAndSwapPointer(p *unsafe.Pointer, o, n unsafe.Pointer) (r bool) {
	vsched.Gate("at.cas", nil, func() { ptrOp(); r = atomic.CompareAndSwapPointer(p, o, n) })
	return
}

// Value mirrors atomic.Value.
type Value struct{ v atomic.Value }

func (x *Value) Load() (r interface{}) {
	vsched.Gate("at.load", nil, func() { r = x.v.Load() })
	return
}
func (x *Value) Store(v interface{}) { vsched.Gate("at.store", nil, func() { x.v.Store(v) }) }
