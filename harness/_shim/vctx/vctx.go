// Package vctx mirrors the parts of package context used by zerolog's diode.
// A context made by WithCancel has a Done() that is a scheduler gate (so the
// non-blocking `select { case <-ctx.Done(): ...; default: }` is exactly one
// step) and a cancel function that is one gate.
package vctx

import (
	"context"
	"time"

	"github.com/rs/zerolog/zzverif/vsched"
)

type Context = context.Context
type CancelFunc = context.CancelFunc

var Canceled = context.Canceled
var DeadlineExceeded = context.DeadlineExceeded

func Background() Context { return context.Background() }
func TODO() Context       { return context.TODO() }

func WithValue(parent Context, key, val interface{}) Context {
	return context.WithValue(parent, key, val)
}

type gctx struct{ context.Context }

func (g *gctx) Done() <-chan struct{} {
	var ch <-chan struct{}
	vsched.Gate("ctx.done", nil, func() { ch = g.Context.Done() })
	return ch
}

func WithCancel(parent Context) (Context, CancelFunc) {
	c, cancel := context.WithCancel(parent)
	return &gctx{c}, func() { vsched.Gate("ctx.cancel", nil, func() { cancel() }) }
}

func WithTimeout(parent Context, d time.Duration) (Context, CancelFunc) {
	return WithCancel(parent)
}

// AfterFunc mirrors context.AfterFunc: f runs on a goroutine of its own some time after ctx is done - a managed goroutine
// here, so that "some time after" is a choice of the schedule (it waits at the gate of a closed-channel receive, then runs f).
// stop reports whether it prevented f from running.
func AfterFunc(ctx Context, f func()) (stop func() bool) {
	stopped, started := false, false
	vsched.Go("vctx.AfterFunc", func() {
		vsched.RecvStruct(ctx.Done())
		if stopped {
			return
		}
		started = true
		f()
	})
	return func() bool {
		if started || stopped {
			return false
		}
		stopped = true
		return true
	}
}
