module verifharness

go 1.23

require github.com/rs/zerolog v0.0.0

require (
	github.com/mattn/go-colorable v0.1.13 // indirect
	github.com/mattn/go-isatty v0.0.19 // indirect
	github.com/rs/xid v1.6.0 // indirect
	golang.org/x/sys v0.12.0 // indirect
)

replace github.com/rs/zerolog => /repo
