module verifharness

go 1.23

require github.com/rs/zerolog v0.0.0

replace github.com/rs/zerolog => /repo
