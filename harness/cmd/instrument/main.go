// instrument builds a `go build -overlay` description from the CURRENT working
// tree of the repository: selected source files are rewritten (import swaps to
// scheduler-controlled shims, `go` statements, channel close-signal receives,
// close(), time.Sleep), shim packages are added under <module>/zzverif/, and
// extra files are injected. Nothing under the repository is modified.
//
// Line numbers of the rewritten files are preserved (all edits stay on their
// original line).
//
// usage: instrument <config.json>   (see type Config)
// exit 0 ok, exit 2 unsupported construct / parse failure.
package main

import (
	"encoding/json"
	"fmt"
	"go/ast"
	"go/parser"
	"go/token"
	"os"
	"path/filepath"
	"sort"
	"strconv"
	"strings"
)

type FileCfg struct {
	Path    string            `json:"path"`    // relative to repo
	Imports map[string]string `json:"imports"` // import path -> shim package name (under zzverif/)
	Go      bool              `json:"go"`      // rewrite go statements
	Chan    bool              `json:"chan"`    // rewrite <-x and close(x)
	Sleep   bool              `json:"sleep"`   // rewrite time.Sleep
}

type Inject struct {
	Dest string `json:"dest"` // relative to repo
	Src  string `json:"src"`  // absolute
}

type Config struct {
	Repo    string    `json:"repo"`
	Module  string    `json:"module"`
	Out     string    `json:"out"`
	ShimDir string    `json:"shimdir"`
	Shims   []string  `json:"shims"`
	Files   []FileCfg `json:"files"`
	Inject  []Inject  `json:"inject"`
}

type edit struct {
	start, end int
	text       string
	seq        int
}

func die(code int, f string, a ...interface{}) {
	fmt.Fprintf(os.Stderr, "instrument: "+f+"\n", a...)
	os.Exit(code)
}

func main() {
	if len(os.Args) != 2 {
		die(2, "usage: instrument config.json")
	}
	raw, err := os.ReadFile(os.Args[1])
	if err != nil {
		die(2, "%v", err)
	}
	var cfg Config
	if err := json.Unmarshal(raw, &cfg); err != nil {
		die(2, "config: %v", err)
	}
	if cfg.Module == "" {
		cfg.Module = "github.com/rs/zerolog"
	}
	if err := os.MkdirAll(cfg.Out, 0o755); err != nil {
		die(2, "%v", err)
	}
	replace := map[string]string{}
	for i, fc := range cfg.Files {
		src := filepath.Join(cfg.Repo, fc.Path)
		out, err := rewrite(src, fc, cfg.Module)
		if err != nil {
			die(2, "%s: %v", fc.Path, err)
		}
		dst := filepath.Join(cfg.Out, fmt.Sprintf("f%d_%s", i, filepath.Base(fc.Path)))
		if err := os.WriteFile(dst, out, 0o644); err != nil {
			die(2, "%v", err)
		}
		replace[src] = dst
	}
	for _, s := range cfg.Shims {
		dir := filepath.Join(cfg.ShimDir, s)
		ents, err := os.ReadDir(dir)
		if err != nil {
			die(2, "%v", err)
		}
		for _, e := range ents {
			if !strings.HasSuffix(e.Name(), ".go") {
				continue
			}
			replace[filepath.Join(cfg.Repo, "zzverif", s, e.Name())] = filepath.Join(dir, e.Name())
		}
	}
	for _, in := range cfg.Inject {
		replace[filepath.Join(cfg.Repo, in.Dest)] = in.Src
	}
	ov, _ := json.MarshalIndent(map[string]interface{}{"Replace": replace}, "", " ")
	if err := os.WriteFile(filepath.Join(cfg.Out, "overlay.json"), ov, 0o644); err != nil {
		die(2, "%v", err)
	}
}

func rewrite(path string, fc FileCfg, module string) ([]byte, error) {
	src, err := os.ReadFile(path)
	if err != nil {
		return nil, err
	}
	fset := token.NewFileSet()
	f, err := parser.ParseFile(fset, path, src, parser.ParseComments)
	if err != nil {
		return nil, err
	}
	off := func(p token.Pos) int { return fset.Position(p).Offset }
	var edits []edit
	add := func(s, e int, t string) { edits = append(edits, edit{s, e, t, len(edits)}) }
	needSched := false

	// import swaps (keep the local name)
	timeName := ""
	for _, im := range f.Imports {
		p, _ := strconv.Unquote(im.Path.Value)
		if p == "time" {
			timeName = "time"
			if im.Name != nil {
				timeName = im.Name.Name
			}
		}
		shim, ok := fc.Imports[p]
		if !ok {
			continue
		}
		local := p[strings.LastIndex(p, "/")+1:]
		if im.Name != nil {
			local = im.Name.Name
			add(off(im.Name.Pos()), off(im.Path.End()), local+" "+strconv.Quote(module+"/zzverif/"+shim))
		} else {
			add(off(im.Path.Pos()), off(im.Path.End()), local+" "+strconv.Quote(module+"/zzverif/"+shim))
		}
	}

	// enclosing function names
	funcOf := map[ast.Node]string{}
	for _, d := range f.Decls {
		fd, ok := d.(*ast.FuncDecl)
		if !ok || fd.Body == nil {
			continue
		}
		name := fd.Name.Name
		ast.Inspect(fd.Body, func(n ast.Node) bool {
			if n != nil {
				funcOf[n] = name
			}
			return true
		})
	}

	// select comm statements are left as written; blocking selects are unsupported
	inComm := map[ast.Node]bool{}
	var unsupported error
	timeUses, timeRewritten := 0, 0
	ast.Inspect(f, func(n ast.Node) bool {
		switch x := n.(type) {
		case *ast.SelectStmt:
			hasDefault := false
			for _, c := range x.Body.List {
				cc := c.(*ast.CommClause)
				if cc.Comm == nil {
					hasDefault = true
				} else {
					ast.Inspect(cc.Comm, func(m ast.Node) bool {
						if m != nil {
							inComm[m] = true
						}
						return true
					})
				}
			}
			if !hasDefault && fc.Chan {
				// a blocking select whose cases are all plain receives (`case <-ch:`), e.g. a cancellable wait
				// `select { case <-ctx.Done(): ...; case <-timer.C: ... }`, becomes one scheduler gate:
				// `switch vsched.Select(ch0, ch1) { case 0: ...; case 1: ... }`
				var chans []string
				ok := true
				for _, c := range x.Body.List {
					cc := c.(*ast.CommClause)
					if ss, isSend := cc.Comm.(*ast.SendStmt); isSend {
						// `case ch <- v:` (a non-blocking nudge on a buffered channel, typically)
						chans = append(chans, "vsched.SendCase{Ch: "+string(src[off(ss.Chan.Pos()):off(ss.Chan.End())])+", V: "+string(src[off(ss.Value.Pos()):off(ss.Value.End())])+"}")
						continue
					}
					es, isExpr := cc.Comm.(*ast.ExprStmt)
					if !isExpr {
						ok = false
						break
					}
					ue, isRecv := es.X.(*ast.UnaryExpr)
					if !isRecv || ue.Op != token.ARROW {
						ok = false
						break
					}
					chans = append(chans, string(src[off(ue.X.Pos()):off(ue.X.End())]))
				}
				if !ok {
					unsupported = fmt.Errorf("unsupported construct: blocking select with a send or a value-binding receive at %v", fset.Position(x.Pos()))
				} else {
					needSched = true
					add(off(x.Pos()), off(x.Body.Lbrace), "switch vsched.Select("+strings.Join(chans, ", ")+") ")
					for i, c := range x.Body.List {
						cc := c.(*ast.CommClause)
						add(off(cc.Comm.Pos()), off(cc.Comm.End()), strconv.Itoa(i))
					}
				}
			}
		case *ast.GoStmt:
			if fc.Go {
				needSched = true
				name := f.Name.Name + "." + funcOf[x]
				add(off(x.Pos()), off(x.Call.Pos()), "vsched.Go("+strconv.Quote(name)+", func() { ")
				add(off(x.Call.End()), off(x.Call.End()), " })")
			}
		case *ast.UnaryExpr:
			if fc.Chan && x.Op == token.ARROW && !inComm[x] {
				needSched = true
				add(off(x.OpPos), off(x.OpPos)+2, "vsched.RecvStruct(")
				add(off(x.X.End()), off(x.X.End()), ")")
			}
		case *ast.SendStmt:
			if fc.Chan && !inComm[x] {
				unsupported = fmt.Errorf("unsupported construct: channel send at %v", fset.Position(x.Pos()))
			}
		case *ast.RangeStmt:
			// ranging over a channel cannot be told apart syntactically; none in the target files
		case *ast.CallExpr:
			if id, ok := x.Fun.(*ast.Ident); ok && id.Name == "close" && fc.Chan && len(x.Args) == 1 {
				needSched = true
				add(off(id.Pos()), off(id.End()), "vsched.CloseStruct")
			}
		case *ast.SelectorExpr:
			if id, ok := x.X.(*ast.Ident); ok && timeName != "" && id.Name == timeName && id.Obj == nil {
				timeUses++
				if fc.Sleep && x.Sel.Name == "Sleep" {
					needSched = true
					timeRewritten++
					add(off(x.Pos()), off(x.End()), "vsched.Sleep")
				}
			}
		}
		return true
	})
	if unsupported != nil {
		return nil, unsupported
	}
	if timeName != "" && timeUses > 0 && timeUses == timeRewritten {
		for _, im := range f.Imports {
			if p, _ := strconv.Unquote(im.Path.Value); p == "time" {
				s := off(im.Path.Pos())
				if im.Name != nil {
					s = off(im.Name.Pos())
				}
				add(s, off(im.Path.End()), `_ "time"`)
			}
		}
	}
	if needSched {
		// same line as the package clause: line numbers are preserved
		e := off(f.Name.End())
		add(e, e, `; import vsched `+strconv.Quote(module+"/zzverif/vsched"))
	}
	sort.SliceStable(edits, func(i, j int) bool {
		if edits[i].start != edits[j].start {
			return edits[i].start > edits[j].start
		}
		return edits[i].seq > edits[j].seq
	})
	out := append([]byte(nil), src...)
	for _, e := range edits {
		out = append(out[:e.start], append([]byte(e.text), out[e.end:]...)...)
	}
	// must still parse
	if _, err := parser.ParseFile(token.NewFileSet(), path, out, 0); err != nil {
		return nil, fmt.Errorf("rewritten file does not parse: %v", err)
	}
	return out, nil
}
