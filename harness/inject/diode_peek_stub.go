package diode

// Stub used when the real peek no longer compiles against the working tree.
func VerifPeek(w Writer) (widx, ridx uint64, seqs []int64, ok bool) { return 0, 0, nil, false }
