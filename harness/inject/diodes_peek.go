package diodes

import (
	"sync/atomic"
	"unsafe"
)

// VerifPeek is injected at check time (go build -overlay); it projects the
// ring state for recordings. Called only while every managed goroutine is
// parked.
func VerifPeek(d Diode) (widx, ridx uint64, seqs []int64, ok bool) {
	switch x := d.(type) {
	case *Waiter:
		return VerifPeek(x.Diode)
	case *Poller:
		return VerifPeek(x.Diode)
	case *ManyToOne:
		seqs = make([]int64, len(x.buffer))
		for i := range x.buffer {
			b := (*bucket)(atomic.LoadPointer((*unsafe.Pointer)(&x.buffer[i])))
			if b == nil {
				seqs[i] = -1
			} else {
				seqs[i] = int64(b.seq)
			}
		}
		return atomic.LoadUint64(&x.writeIndex), atomic.LoadUint64(&x.readIndex), seqs, true
	}
	return 0, 0, nil, false
}
