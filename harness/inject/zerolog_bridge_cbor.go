//go:build binary_log

package zerolog

import (
	"bytes"

	"github.com/rs/zerolog/internal/cbor"
)

// Injected at check time (go build -overlay): gives the external harness module access to the bundled
// CBOR-to-JSON decoder, which lives in an internal package.
func VerifDecodeIfBinary(in []byte) []byte { return decodeIfBinaryToBytes(in) }

func VerifCbor2JsonMany(in []byte) (out []byte, err error) {
	var buf bytes.Buffer
	err = cbor.Cbor2JsonManyObjects(bytes.NewReader(in), &buf)
	return buf.Bytes(), err
}
