package diode

import "github.com/rs/zerolog/diode/internal/diodes"

// VerifPeek is injected at check time (go build -overlay).
func VerifPeek(w Writer) (widx, ridx uint64, seqs []int64, ok bool) {
	if w.d == nil {
		return 0, 0, nil, false
	}
	return diodes.VerifPeek(w.d)
}
