package diodes

// Stub used when the real peek no longer compiles against the working tree.
func VerifPeek(d Diode) (widx, ridx uint64, seqs []int64, ok bool) { return 0, 0, nil, false }
