// Package prog interprets logging programs (JSON) on the real zerolog API.
//
// A program is a logger derivation (With()... context fields, hooks), one event (field calls on
// *Event, nested Dict / Array / Object / EmbedObject / Fields / Func) and a finalizer. Field calls are
// dispatched by reflection on the method name, so every exported method of Event, Context and Array -
// also ones added later - can be driven without a hand-written case; arguments are built from typed
// values according to the method's parameter types.
package prog

import (
	"context"
	"encoding/base64"
	"encoding/json"
	"errors"
	"fmt"
	"math"
	"math/big"
	"net"
	"reflect"
	"strconv"
	"time"

	"github.com/rs/zerolog"
)

// B is a byte string carried as base64 in JSON (arbitrary bytes in keys, strings, error texts).
type B []byte

func (b B) MarshalJSON() ([]byte, error) { return json.Marshal(base64.StdEncoding.EncodeToString(b)) }
func (b *B) UnmarshalJSON(p []byte) error {
	var s string
	if err := json.Unmarshal(p, &s); err != nil {
		return err
	}
	d, err := base64.StdEncoding.DecodeString(s)
	*b = d
	return err
}

// TV is a typed value.
type TV struct {
	T    string   `json:"t"`              // Go type name, see Go()
	S    B        `json:"s,omitempty"`    // string / []byte / error text
	SS   []*B     `json:"ss,omitempty"`   // []string, []error (null = nil error), []Stringer (null = nil)
	I    string   `json:"i,omitempty"`    // integer (decimal), duration ns, time unixnano
	IS   []string `json:"is,omitempty"`   // integers / durations / times
	X    string   `json:"x,omitempty"`    // float bits, hex
	XS   []string `json:"xs,omitempty"`   // floats bits
	Bo   bool     `json:"b,omitempty"`    // bool
	BS   []bool   `json:"bs,omitempty"`   // []bool
	IP   []byte   `json:"ip,omitempty"`   // net.IP / net.HardwareAddr bytes
	Mask []byte   `json:"mask,omitempty"` // net.IPNet mask
	F    []Op     `json:"f,omitempty"`    // object marshaler fields
	Nil  bool     `json:"nil,omitempty"`  // nil slice / nil pointer / nil interface of that type
	Ptr  bool     `json:"ptr,omitempty"`  // pointer to the value (Fields supports *T)
	EK   string   `json:"ek,omitempty"`   // error kind: "" plain, "obj" (error that is a LogObjectMarshaler), "nilptr" typed nil pointer
	Any  *TV      `json:"any,omitempty"`
	M    []KV     `json:"m,omitempty"` // map / struct content for Interface values
}

type KV struct {
	K B   `json:"k"`
	V *TV `json:"v"`
}

// Op is one builder call.
type Op struct {
	M    string `json:"m"`              // method name
	K    *B     `json:"k,omitempty"`    // key (absent for array elements and keyless methods)
	V    *TV    `json:"v,omitempty"`    // value
	V2   *TV    `json:"v2,omitempty"`   // second value (TimeDiff)
	F    []Op   `json:"f,omitempty"`    // nested field ops (Dict, Object, EmbedObject, Func)
	E    []Op   `json:"e,omitempty"`    // array elements (Array)
	KV   []KV   `json:"kv,omitempty"`   // Fields entries
	Map  bool   `json:"map,omitempty"`  // Fields given as map (else slice)
	Nil  bool   `json:"nil,omitempty"`  // nil object / nil array marshaler / odd trailing key in Fields slice
	TNil bool   `json:"tnil,omitempty"` // Object / EmbedObject: a typed-nil pointer whose MarshalZerologObject is nil-safe and adds the fields F
	Cus  bool   `json:"cus,omitempty"`  // Array: pass a custom LogArrayMarshaler instead of *zerolog.Array
	N    int    `json:"n,omitempty"`    // skip count etc.
}

// ---- helper types handed to zerolog

type plainErr struct{ s string }

func (e plainErr) Error() string { return e.s }

type objErr struct {
	s string
	f []Op
}

func (e objErr) Error() string                          { return e.s }
func (e objErr) MarshalZerologObject(ev *zerolog.Event) { ApplyEvent(ev, e.f) }

type ptrErr struct{ s string }

func (e *ptrErr) Error() string { return e.s }

type strg struct{ s string }

func (s strg) String() string { return s.s }

type ObjM struct{ F []Op }

func (o ObjM) MarshalZerologObject(e *zerolog.Event) { ApplyEvent(e, o.F) }

type ptrObjM struct{ F []Op }

func (o *ptrObjM) MarshalZerologObject(e *zerolog.Event) { ApplyEvent(e, o.F) }

// nilSafeObjM: a marshaler with a pointer receiver that works on a NIL pointer (it reads nothing from the receiver): a typed nil
// in an interface is not a nil interface, and the library has to call it like any other marshaler
type nilSafeObjM struct{ unused int }

var nilSafeOps []Op

func (o *nilSafeObjM) MarshalZerologObject(e *zerolog.Event) { ApplyEvent(e, nilSafeOps) }

type arrM struct{ E []Op }

func (a arrM) MarshalZerologArray(arr *zerolog.Array) { ApplyArray(arr, a.E) }

type CtxKey struct{}

type badJSON struct{ msg string }

func (b badJSON) MarshalJSON() ([]byte, error) { return nil, errors.New(b.msg) }

func mkErr(tv *TV) error {
	if tv == nil || tv.Nil {
		return nil
	}
	switch tv.EK {
	case "obj":
		return objErr{string(tv.S), tv.F}
	case "nilptr":
		var p *ptrErr
		return p
	}
	return plainErr{string(tv.S)}
}

func atoi(s string) int64 {
	n, err := strconv.ParseInt(s, 10, 64)
	if err != nil {
		u, err2 := strconv.ParseUint(s, 10, 64)
		if err2 != nil {
			panic("bad integer " + s)
		}
		return int64(u)
	}
	return n
}

func atou(s string) uint64 {
	u, err := strconv.ParseUint(s, 10, 64)
	if err != nil {
		return uint64(atoi(s))
	}
	return u
}

func f64(x string) float64 {
	u, err := strconv.ParseUint(x, 0, 64)
	if err != nil {
		panic("bad float bits " + x)
	}
	return math.Float64frombits(u)
}

func f32(x string) float32 {
	u, err := strconv.ParseUint(x, 0, 32)
	if err != nil {
		panic("bad float32 bits " + x)
	}
	return math.Float32frombits(uint32(u))
}

func mkTime(s string) time.Time {
	if s == "" || s == "zero" {
		return time.Time{}
	}
	if n, err := strconv.ParseInt(s, 10, 64); err == nil {
		return time.Unix(0, n).UTC()
	}
	// beyond the int64 nanosecond range (before 1677 / after 2262): seconds and nanoseconds separately
	b, ok := new(big.Int).SetString(s, 10)
	if !ok {
		panic("bad time " + s)
	}
	sec, nsec := new(big.Int).DivMod(b, big.NewInt(1000000000), new(big.Int))
	return time.Unix(sec.Int64(), nsec.Int64()).UTC()
}

var (
	tErr      = reflect.TypeOf((*error)(nil)).Elem()
	tStringer = reflect.TypeOf((*fmt.Stringer)(nil)).Elem()
	tObj      = reflect.TypeOf((*zerolog.LogObjectMarshaler)(nil)).Elem()
	tArr      = reflect.TypeOf((*zerolog.LogArrayMarshaler)(nil)).Elem()
	tCtx      = reflect.TypeOf((*context.Context)(nil)).Elem()
	tAny      = reflect.TypeOf((*interface{})(nil)).Elem()
	tTime     = reflect.TypeOf(time.Time{})
	tDur      = reflect.TypeOf(time.Duration(0))
	tIP       = reflect.TypeOf(net.IP{})
	tIPNet    = reflect.TypeOf(net.IPNet{})
	tMAC      = reflect.TypeOf(net.HardwareAddr{})
	tEvent    = reflect.TypeOf((*zerolog.Event)(nil))
	tBytes    = reflect.TypeOf([]byte(nil))
)

// scalar builds one value of type t from the i-th scalar carried by tv (i < 0: the single value).
func scalar(t reflect.Type, tv *TV, i int) reflect.Value {
	pickS := func() []byte {
		if i >= 0 {
			if tv.SS[i] == nil {
				return nil
			}
			return *tv.SS[i]
		}
		return tv.S
	}
	pickI := func() string {
		if i >= 0 {
			return tv.IS[i]
		}
		return tv.I
	}
	switch {
	case t == tTime:
		return reflect.ValueOf(mkTime(pickI()))
	case t == tDur:
		return reflect.ValueOf(time.Duration(atoi(pickI())))
	case t == tErr:
		if i >= 0 {
			if tv.SS[i] == nil {
				return reflect.Zero(tErr)
			}
			return reflect.ValueOf(&[]error{mkErr(&TV{S: *tv.SS[i], EK: tv.EK, F: tv.F})}[0]).Elem()
		}
		e := mkErr(tv)
		if e == nil {
			return reflect.Zero(tErr)
		}
		return reflect.ValueOf(&e).Elem()
	case t == tStringer:
		if (i >= 0 && tv.SS[i] == nil) || (i < 0 && tv.Nil) {
			return reflect.Zero(tStringer)
		}
		var s fmt.Stringer = strg{string(pickS())}
		return reflect.ValueOf(&s).Elem()
	}
	switch t.Kind() {
	case reflect.String:
		return reflect.ValueOf(string(pickS())).Convert(t)
	case reflect.Bool:
		if i >= 0 {
			return reflect.ValueOf(tv.BS[i])
		}
		return reflect.ValueOf(tv.Bo)
	case reflect.Int, reflect.Int8, reflect.Int16, reflect.Int32, reflect.Int64:
		return reflect.ValueOf(atoi(pickI())).Convert(t)
	case reflect.Uint, reflect.Uint8, reflect.Uint16, reflect.Uint32, reflect.Uint64:
		return reflect.ValueOf(atou(pickI())).Convert(t)
	case reflect.Float32:
		if i >= 0 {
			return reflect.ValueOf(f32(tv.XS[i]))
		}
		return reflect.ValueOf(f32(tv.X))
	case reflect.Float64:
		if i >= 0 {
			return reflect.ValueOf(f64(tv.XS[i]))
		}
		return reflect.ValueOf(f64(tv.X))
	}
	panic("prog: unsupported scalar type " + t.String())
}

func sliceLen(tv *TV) int {
	switch {
	case tv.SS != nil:
		return len(tv.SS)
	case tv.IS != nil:
		return len(tv.IS)
	case tv.XS != nil:
		return len(tv.XS)
	case tv.BS != nil:
		return len(tv.BS)
	}
	return 0
}

// buildArg builds the argument of parameter type t from the op.
func buildArg(t reflect.Type, op *Op, tv *TV) reflect.Value {
	if tv == nil {
		tv = &TV{}
	}
	switch {
	case t == tBytes, t == tIP, t == tMAC:
		if tv.Nil {
			return reflect.Zero(t)
		}
		if t == tBytes && tv.IS != nil { // Uints8 takes []uint8, which is []byte
			bs := make([]byte, len(tv.IS))
			for i, s := range tv.IS {
				bs[i] = byte(atou(s))
			}
			return reflect.ValueOf(bs)
		}
		src := tv.S
		if t != tBytes {
			src = tv.IP
		}
		return reflect.ValueOf(append([]byte{}, src...)).Convert(t)
	case t == tIPNet:
		return reflect.ValueOf(net.IPNet{IP: net.IP(tv.IP), Mask: net.IPMask(tv.Mask)})
	case t == tObj:
		if op.Nil {
			return reflect.Zero(tObj)
		}
		var o zerolog.LogObjectMarshaler = ObjM{op.F}
		if op.Cus {
			o = &ptrObjM{op.F}
		}
		if op.TNil {
			nilSafeOps = op.F
			o = (*nilSafeObjM)(nil)
		}
		return reflect.ValueOf(&o).Elem()
	case t == tArr:
		var a zerolog.LogArrayMarshaler
		if op.Cus {
			a = arrM{op.E}
		} else {
			a = ApplyArray(zerolog.Arr(), op.E)
		}
		return reflect.ValueOf(&a).Elem()
	case t == tEvent:
		return reflect.ValueOf(ApplyEvent(zerolog.Dict(), op.F))
	case t == tCtx:
		c := context.WithValue(context.Background(), CtxKey{}, op.N)
		return reflect.ValueOf(&c).Elem()
	case t == tAny:
		v := tv.Go()
		if v == nil {
			return reflect.Zero(tAny)
		}
		return reflect.ValueOf(&v).Elem()
	case t.Kind() == reflect.Func:
		f := op.F
		return reflect.ValueOf(func(e *zerolog.Event) { ApplyEvent(e, f) })
	case t.Kind() == reflect.Slice:
		if tv.Nil {
			return reflect.Zero(t)
		}
		n := sliceLen(tv)
		// callers' slices come with spare capacity as often as not (append-built, re-sliced, reused buffers): only the LENGTH counts
		s := reflect.MakeSlice(t, n, n+(n*7+3)%5)
		for i := 0; i < n; i++ {
			s.Index(i).Set(scalar(t.Elem(), tv, i))
		}
		return s
	}
	return scalar(t, tv, -1)
}

// call invokes method op.M on recv (an *Event, Context or *Array) and returns its first result.
func call(recv reflect.Value, op *Op) reflect.Value {
	m := recv.MethodByName(op.M)
	if !m.IsValid() {
		panic("prog: no method " + op.M + " on " + recv.Type().String())
	}
	mt := m.Type()
	var args []reflect.Value
	vals := []*TV{op.V, op.V2}
	vi := 0
	for i := 0; i < mt.NumIn(); i++ {
		pt := mt.In(i)
		if mt.IsVariadic() && i == mt.NumIn()-1 {
			if op.N != 0 {
				args = append(args, reflect.ValueOf(op.N).Convert(pt.Elem()))
			}
			break
		}
		if i == 0 && op.K != nil && pt.Kind() == reflect.String {
			args = append(args, reflect.ValueOf(string(*op.K)))
			continue
		}
		if pt.Kind() == reflect.Int && (vi >= len(vals) || vals[vi] == nil) {
			args = append(args, reflect.ValueOf(op.N))
			continue
		}
		var tv *TV
		if vi < len(vals) {
			tv = vals[vi]
		}
		vi++
		args = append(args, buildArg(pt, op, tv))
	}
	out := m.Call(args)
	if len(out) > 0 {
		return out[0]
	}
	return recv
}

// ApplyEvent applies field ops to an event (also a Dict()).
func ApplyEvent(e *zerolog.Event, ops []Op) *zerolog.Event {
	for i := range ops {
		op := &ops[i]
		if op.M == "Fields" {
			e = e.Fields(fieldsArg(op))
			continue
		}
		r := call(reflect.ValueOf(e), op)
		if ev, ok := r.Interface().(*zerolog.Event); ok {
			e = ev
		}
	}
	return e
}

// ApplyContext applies field ops to a Context.
func ApplyContext(c zerolog.Context, ops []Op) zerolog.Context {
	for i := range ops {
		op := &ops[i]
		if op.M == "Fields" {
			c = c.Fields(fieldsArg(op))
			continue
		}
		r := call(reflect.ValueOf(c), op)
		if cc, ok := r.Interface().(zerolog.Context); ok {
			c = cc
		}
	}
	return c
}

// ApplyArray applies element ops to an Array.
func ApplyArray(a *zerolog.Array, ops []Op) *zerolog.Array {
	for i := range ops {
		op := &ops[i]
		m := reflect.ValueOf(a).MethodByName(op.M)
		if !m.IsValid() {
			panic("prog: no method " + op.M + " on *Array")
		}
		mt := m.Type()
		var args []reflect.Value
		if mt.NumIn() == 1 {
			args = append(args, buildArg(mt.In(0), op, op.V))
		}
		out := m.Call(args)
		if len(out) > 0 {
			if aa, ok := out[0].Interface().(*zerolog.Array); ok {
				a = aa
			}
		}
	}
	return a
}

func fieldsArg(op *Op) interface{} {
	if op.Map {
		m := map[string]interface{}{}
		for _, kv := range op.KV {
			m[string(kv.K)] = kv.V.Go()
		}
		if op.Nil {
			return (map[string]interface{})(nil)
		}
		return m
	}
	s := []interface{}{}
	for _, kv := range op.KV {
		s = append(s, string(kv.K), kv.V.Go())
	}
	if op.Nil { // odd trailing key without a value: ignored by zerolog
		s = append(s, "dangling")
	}
	return s
}

func ptrTo(v interface{}) interface{} {
	p := reflect.New(reflect.TypeOf(v))
	p.Elem().Set(reflect.ValueOf(v))
	return p.Interface()
}

var goTypes = map[string]reflect.Type{
	"string": reflect.TypeOf(""), "bool": reflect.TypeOf(false),
	"int": reflect.TypeOf(int(0)), "int8": reflect.TypeOf(int8(0)), "int16": reflect.TypeOf(int16(0)), "int32": reflect.TypeOf(int32(0)), "int64": reflect.TypeOf(int64(0)),
	"uint": reflect.TypeOf(uint(0)), "uint8": reflect.TypeOf(uint8(0)), "uint16": reflect.TypeOf(uint16(0)), "uint32": reflect.TypeOf(uint32(0)), "uint64": reflect.TypeOf(uint64(0)),
	"float32": reflect.TypeOf(float32(0)), "float64": reflect.TypeOf(float64(0)),
	"time": tTime, "dur": tDur,
}

// Go converts the typed value to the Go value handed to Fields / Interface.
func (tv *TV) Go() interface{} {
	if tv == nil {
		return nil
	}
	t := tv.T
	if len(t) > 2 && t[:2] == "[]" {
		if et, ok := goTypes[t[2:]]; ok {
			return buildArg(reflect.SliceOf(et), &Op{}, tv).Interface()
		}
	}
	if et, ok := goTypes[t]; ok {
		if tv.Nil && tv.Ptr {
			return reflect.Zero(reflect.PtrTo(et)).Interface()
		}
		v := scalar(et, tv, -1).Interface()
		if tv.Ptr {
			return ptrTo(v)
		}
		return v
	}
	switch t {
	case "nil", "":
		return nil
	case "[]byte":
		if tv.Nil {
			return []byte(nil)
		}
		return append([]byte{}, tv.S...)
	case "error":
		return mkErr(tv)
	case "[]error":
		if tv.Nil {
			return []error(nil)
		}
		es := make([]error, len(tv.SS))
		for i, s := range tv.SS {
			if s != nil {
				es[i] = mkErr(&TV{S: *s, EK: tv.EK, F: tv.F})
			}
		}
		return es
	case "stringer":
		if tv.Nil {
			var p *strg
			_ = p
			return fmt.Stringer(nil)
		}
		return strg{string(tv.S)}
	case "obj":
		if tv.Nil {
			var p *ptrObjM
			return p
		}
		return ObjM{tv.F}
	case "ip":
		return net.IP(tv.IP)
	case "ipnet":
		return net.IPNet{IP: net.IP(tv.IP), Mask: net.IPMask(tv.Mask)}
	case "mac":
		return net.HardwareAddr(tv.IP)
	case "raw":
		return json.RawMessage(tv.S)
	case "map":
		m := map[string]interface{}{}
		for _, kv := range tv.M {
			m[string(kv.K)] = kv.V.Go()
		}
		return m
	case "slice":
		s := []interface{}{}
		for _, kv := range tv.M {
			s = append(s, kv.V.Go())
		}
		return s
	case "struct":
		return struct {
			A string  `json:"a"`
			B int     `json:"b"`
			C float64 `json:"c,omitempty"`
		}{string(tv.S), int(atoi("0" + tv.I)), 0}
	case "chan": // not marshalable: InterfaceMarshalFunc fails
		return make(chan int)
	case "badjson": // MarshalJSON fails, with an error text of arbitrary bytes: rendered as a "marshaling error: ..." string
		return badJSON{string(tv.S)}
	}
	panic("prog: unknown typed value " + t)
}

// ErrNew is exported for players.
func ErrNew(s string) error { return errors.New(s) }
