package prog

import (
	"context"
	"encoding/json"
	"fmt"
	"io"
	"reflect"
	"strconv"
	"strings"
	"time"

	"github.com/rs/zerolog"
)

// Settings are the process-wide zerolog globals a program runs under (restored afterwards).
type Settings struct {
	LevelFieldName   *string `json:"levelField,omitempty"`
	MessageFieldName *string `json:"messageField,omitempty"`
	ErrorFieldName   *string `json:"errorField,omitempty"`
	TimeFieldFormat  *string `json:"timeFormat,omitempty"`
	DurUnit          *int64  `json:"durUnit,omitempty"`
	DurInt           *bool   `json:"durInt,omitempty"`
	FloatPrec        *int    `json:"floatPrec,omitempty"`
	ErrMarshal       string  `json:"errMarshal,omitempty"`   // "" default | "string" | "nil" | "obj"
	StackMarshal     string  `json:"stackMarshal,omitempty"` // "" none | "nil" | "string" | "error" | "nilerr" | "obj" | "other"
	IfaceMarshal     string  `json:"ifaceMarshal,omitempty"` // "" default | "sprint": InterfaceMarshalFunc set at run time to one that renders the %v text as a JSON string
	LevelMarshal     string  `json:"levelMarshal,omitempty"` // "" default | "tag": "L<n>" for every level, NoLevel too | "dropinfo": "" for Info
}

// Hook describes a recording hook. Every hook logs (id, level, message) when run.
type Hook struct {
	ID   int    `json:"id"`
	Kind string `json:"kind"` // "field": adds Str(K, "h") | "discard" | "getctx" | "noop"
	K    B      `json:"k,omitempty"`
}

// Step is one logger-derivation step.
type Step struct {
	With   []Op  `json:"with,omitempty"` // l = l.With().<ops>.Logger()   (IsWith distinguishes empty With())
	IsWith bool  `json:"isWith,omitempty"`
	Update []Op  `json:"update,omitempty"` // l.UpdateContext(func(c) { return <ops> })
	IsUpd  bool  `json:"isUpd,omitempty"`
	Hook   *Hook `json:"hook,omitempty"`   // l = l.Hook(h)
	Level  *int  `json:"level,omitempty"`  // l = l.Level(x)
	Output bool  `json:"output,omitempty"` // l = l.Output(same destination)
	GoCtx  *int  `json:"goctx,omitempty"`  // l = l.With().Ctx(ctx#n).Logger()
}

type Program struct {
	ID       string      `json:"id"`
	Set      Settings    `json:"set"`
	Derive   []Step      `json:"derive,omitempty"`
	Entry    string      `json:"entry,omitempty"` // "" = WithLevel(Level); or Trace..Panic, Log, Err
	Level    int         `json:"level"`           // zerolog level number (6 = NoLevel)
	Ev       []Op        `json:"ev,omitempty"`
	Fin      string      `json:"fin,omitempty"` // Msg (default) | Msgf | Msgf0 | MsgFunc | Send
	Msg      B           `json:"msg,omitempty"`
	Abs      interface{} `json:"abs,omitempty"`      // the abstract program this was concretised from (echoed into the recording)
	Opaque   []string    `json:"opaque,omitempty"`   // member names whose value comes from an external marshaler (json.Marshal, RawJSON)
	OpaqueEl []string    `json:"opaqueel,omitempty"` // member names whose value is an array with externally rendered ELEMENTS
}

type HookCall struct {
	ID    int    `json:"id"`
	Level int    `json:"level"`
	Msg   string `json:"msg"`
	Ctx   int    `json:"ctx"` // value under CtxKey in GetCtx(), -1 if none
}

type Result struct {
	Writes  [][]byte   `json:"-"`
	Levels  []int      `json:"levels"`
	Hooks   []HookCall `json:"hooks"`
	Panic   string     `json:"panic,omitempty"`
	Handled []string   `json:"handled,omitempty"`
}

type recWriter struct{ r *Result }

func (w recWriter) Write(p []byte) (int, error) { return w.WriteLevel(-100, p) }
func (w recWriter) WriteLevel(l zerolog.Level, p []byte) (int, error) {
	w.r.Writes = append(w.r.Writes, append([]byte(nil), p...))
	w.r.Levels = append(w.r.Levels, int(l))
	return len(p), nil
}

type hookImpl struct {
	h Hook
	r *Result
}

func ctxVal(ctx context.Context) int {
	if ctx == nil {
		return -1
	}
	if v, ok := ctx.Value(CtxKey{}).(int); ok {
		return v
	}
	return -1
}

func (h hookImpl) Run(e *zerolog.Event, level zerolog.Level, msg string) {
	h.r.Hooks = append(h.r.Hooks, HookCall{h.h.ID, int(level), msg, ctxVal(e.GetCtx())})
	switch h.h.Kind {
	case "field":
		e.Str(string(h.h.K), "h")
	case "discard":
		e.Discard()
	}
}

// FixedTime is what TimestampFunc returns while programs run.
var FixedTime = time.Date(2001, 2, 3, 4, 5, 6, 123456789, time.UTC)

func isNilErr(err error) bool {
	if err == nil {
		return true
	}
	v := reflect.ValueOf(err)
	return v.Kind() == reflect.Ptr && v.IsNil()
}

type stackObj struct{}

func (stackObj) MarshalZerologObject(e *zerolog.Event) { e.Str("frame", "f") }

// ApplySettings sets the globals and returns the function that restores them.
func ApplySettings(s Settings) func() {
	o := struct {
		lf, mf, ef, tf string
		du             time.Duration
		di             bool
		fp             int
		em             func(error) interface{}
		sm             func(error) interface{}
		ts             func() time.Time
	}{zerolog.LevelFieldName, zerolog.MessageFieldName, zerolog.ErrorFieldName, zerolog.TimeFieldFormat, zerolog.DurationFieldUnit,
		zerolog.DurationFieldInteger, zerolog.FloatingPointPrecision, zerolog.ErrorMarshalFunc, zerolog.ErrorStackMarshaler, zerolog.TimestampFunc}
	zerolog.TimestampFunc = func() time.Time { return FixedTime }
	if s.LevelFieldName != nil {
		zerolog.LevelFieldName = *s.LevelFieldName
	}
	if s.MessageFieldName != nil {
		zerolog.MessageFieldName = *s.MessageFieldName
	}
	if s.ErrorFieldName != nil {
		zerolog.ErrorFieldName = *s.ErrorFieldName
	}
	if s.TimeFieldFormat != nil {
		zerolog.TimeFieldFormat = *s.TimeFieldFormat
	}
	if s.DurUnit != nil {
		zerolog.DurationFieldUnit = time.Duration(*s.DurUnit)
	}
	if s.DurInt != nil {
		zerolog.DurationFieldInteger = *s.DurInt
	}
	if s.FloatPrec != nil {
		zerolog.FloatingPointPrecision = *s.FloatPrec
	}
	switch s.ErrMarshal {
	case "string":
		zerolog.ErrorMarshalFunc = func(err error) interface{} {
			if isNilErr(err) {
				return err
			}
			return "E:" + err.Error()
		}
	case "nil":
		zerolog.ErrorMarshalFunc = func(err error) interface{} { return nil }
	case "obj":
		zerolog.ErrorMarshalFunc = func(err error) interface{} {
			if isNilErr(err) {
				return err
			}
			return ObjM{[]Op{{M: "Str", K: &B{'m'}, V: &TV{T: "string", S: B(err.Error())}}}}
		}
	}
	switch s.StackMarshal {
	case "nil":
		zerolog.ErrorStackMarshaler = func(err error) interface{} { return nil }
	case "string":
		zerolog.ErrorStackMarshaler = func(err error) interface{} { return "stk" }
	case "error":
		zerolog.ErrorStackMarshaler = func(err error) interface{} { return plainErr{"stkerr"} }
	case "nilerr":
		zerolog.ErrorStackMarshaler = func(err error) interface{} { var p *ptrErr; return error(p) }
	case "obj":
		zerolog.ErrorStackMarshaler = func(err error) interface{} { return stackObj{} }
	case "other":
		zerolog.ErrorStackMarshaler = func(err error) interface{} { return []int{1, 2} }
	}
	oldLM := zerolog.LevelFieldMarshalFunc
	oldIM := zerolog.InterfaceMarshalFunc
	if s.IfaceMarshal == "sprint" { // assigned at run time, long after package init: both builds must pick it up
		zerolog.InterfaceMarshalFunc = func(v interface{}) ([]byte, error) { return json.Marshal(fmt.Sprintf("%v", v)) }
	}
	switch s.LevelMarshal {
	case "tag": // a marshal function that has a text for NoLevel too: whether the field appears is decided by the event, not by this text
		zerolog.LevelFieldMarshalFunc = func(l zerolog.Level) string { return "L" + strconv.Itoa(int(l)) }
	case "dropinfo": // ... and one that yields the empty string for a real level: the field is still written
		zerolog.LevelFieldMarshalFunc = func(l zerolog.Level) string {
			if l == zerolog.InfoLevel {
				return ""
			}
			return l.String()
		}
	}
	return func() {
		zerolog.LevelFieldMarshalFunc = oldLM
		zerolog.InterfaceMarshalFunc = oldIM
		zerolog.LevelFieldName, zerolog.MessageFieldName, zerolog.ErrorFieldName, zerolog.TimeFieldFormat = o.lf, o.mf, o.ef, o.tf
		zerolog.DurationFieldUnit, zerolog.DurationFieldInteger, zerolog.FloatingPointPrecision = o.du, o.di, o.fp
		zerolog.ErrorMarshalFunc, zerolog.ErrorStackMarshaler, zerolog.TimestampFunc = o.em, o.sm, o.ts
	}
}

// Derive builds the logger of a program on destination w.
func Derive(w io.Writer, steps []Step, r *Result) zerolog.Logger {
	l := zerolog.New(w)
	for i := range steps {
		st := &steps[i]
		switch {
		case st.IsWith || st.With != nil:
			l = ApplyContext(l.With(), st.With).Logger()
		case st.IsUpd || st.Update != nil:
			ops := st.Update
			l.UpdateContext(func(c zerolog.Context) zerolog.Context { return ApplyContext(c, ops) })
		case st.Hook != nil:
			l = l.Hook(hookImpl{*st.Hook, r})
		case st.Level != nil:
			l = l.Level(zerolog.Level(*st.Level))
		case st.Output:
			l = l.Output(w)
		case st.GoCtx != nil:
			l = l.With().Ctx(context.WithValue(context.Background(), CtxKey{}, *st.GoCtx)).Logger()
		}
	}
	return l
}

// NewEvent starts the event of a program on logger l.
func NewEvent(l *zerolog.Logger, p *Program) *zerolog.Event {
	switch p.Entry {
	case "", "WithLevel":
		return l.WithLevel(zerolog.Level(p.Level))
	case "Log":
		return l.Log()
	case "Trace":
		return l.Trace()
	case "Debug":
		return l.Debug()
	case "Info":
		return l.Info()
	case "Warn":
		return l.Warn()
	case "Error":
		return l.Error()
	case "Err":
		return l.Err(plainErr{"e"})
	case "ErrNil":
		return l.Err(nil)
	}
	panic("prog: unknown entry " + p.Entry)
}

// Finish finalizes the event.
func Finish(e *zerolog.Event, p *Program) {
	switch p.Fin {
	case "", "Msg":
		e.Msg(string(p.Msg))
	case "Msgf":
		e.Msgf("%s", string(p.Msg))
	case "Msgf0":
		// a format without operands: still a format (the message is fmt.Sprintf(format), so %% is one per cent sign)
		e.Msgf(strings.ReplaceAll(string(p.Msg), "%", "%%"))
	case "MsgFunc":
		m := string(p.Msg)
		e.MsgFunc(func() string { return m })
	case "Send":
		e.Send()
	default:
		panic("prog: unknown finalizer " + p.Fin)
	}
}

// Run executes one program and returns what the destination writer and the hooks saw.
func Run(p *Program) (res *Result) {
	res = &Result{Levels: []int{}, Hooks: []HookCall{}}
	restore := ApplySettings(p.Set)
	old := zerolog.ErrorHandler
	zerolog.ErrorHandler = func(err error) { res.Handled = append(res.Handled, err.Error()) }
	defer func() {
		zerolog.ErrorHandler = old
		restore()
		if x := recover(); x != nil {
			res.Panic = fmt.Sprint(x)
		}
	}()
	l := Derive(recWriter{res}, p.Derive, res)
	e := NewEvent(&l, p)
	e = ApplyEvent(e, p.Ev)
	Finish(e, p)
	return res
}
