package prog

import (
	"encoding/binary"
	"encoding/hex"
	"fmt"
	"math"
)

// cborref: an RFC 8949 reader written against the RFC, independent of zerolog's encoder and decoder.
//
// ScanHeads is the byte-level half of well-formedness: it reads one data item head after another
// (initial byte, argument, and for definite strings the payload) and emits one token per head. The
// nesting half - array / map counts, indefinite containers and breaks, map parity, text-string keys -
// is the automaton written in TLA+ (spec/cbor/CborWF.tla), which is run on these tokens.
//
// Tokens [kind, n]:
//
//	["U",0] unsigned int   ["N",0] negative int   ["B",len] definite byte string   ["T",len] definite text
//	["B*",0] ["T*",0] indefinite strings   ["A",n] ["M",n] definite array/map with n items/pairs
//	["A*",0] ["M*",0] indefinite   ["G",tag] tag   ["F",bits] float   ["S",v] simple   ["BRK",0]
//	["X",off] byte-level error at offset off (reserved additional info 28-30, truncated head or payload,
//	simple value encoded in two bytes < 32)
type Head struct {
	K string
	N uint64
}

func (h Head) MarshalJSON() ([]byte, error) {
	n := h.N
	if n > 1<<28 {
		n = 1 << 28 // TLC integers are 32 bit; larger lengths cannot occur for in-memory payloads, tags are small
	}
	return []byte(fmt.Sprintf("[%q,%d]", h.K, n)), nil
}

// readArg returns the argument for additional info ai, the number of bytes consumed after the initial
// byte, and ok=false for reserved ai or truncation.
func readArg(b []byte, ai byte) (uint64, int, bool) {
	switch {
	case ai < 24:
		return uint64(ai), 0, true
	case ai == 24:
		if len(b) < 1 {
			return 0, 0, false
		}
		return uint64(b[0]), 1, true
	case ai == 25:
		if len(b) < 2 {
			return 0, 0, false
		}
		return uint64(binary.BigEndian.Uint16(b)), 2, true
	case ai == 26:
		if len(b) < 4 {
			return 0, 0, false
		}
		return uint64(binary.BigEndian.Uint32(b)), 4, true
	case ai == 27:
		if len(b) < 8 {
			return 0, 0, false
		}
		return binary.BigEndian.Uint64(b), 8, true
	}
	return 0, 0, false // 28, 29, 30 reserved; 31 handled by the caller
}

func ScanHeads(b []byte) []Head {
	hs := []Head{}
	i := 0
	for i < len(b) {
		ib := b[i]
		major, ai := ib>>5, ib&31
		if ai == 31 {
			switch major {
			case 2:
				hs = append(hs, Head{"B*", 0})
			case 3:
				hs = append(hs, Head{"T*", 0})
			case 4:
				hs = append(hs, Head{"A*", 0})
			case 5:
				hs = append(hs, Head{"M*", 0})
			case 7:
				hs = append(hs, Head{"BRK", 0})
			default: // 0, 1, 6 with ai 31 are not well-formed
				return append(hs, Head{"X", uint64(i)})
			}
			i++
			continue
		}
		arg, n, ok := readArg(b[i+1:], ai)
		if !ok {
			return append(hs, Head{"X", uint64(i)})
		}
		i += 1 + n
		switch major {
		case 0:
			hs = append(hs, Head{"U", 0})
		case 1:
			hs = append(hs, Head{"N", 0})
		case 2, 3:
			if arg > uint64(len(b)-i) {
				return append(hs, Head{"X", uint64(i)})
			}
			k := "B"
			if major == 3 {
				k = "T"
			}
			hs = append(hs, Head{k, arg})
			i += int(arg)
		case 4:
			hs = append(hs, Head{"A", arg})
		case 5:
			hs = append(hs, Head{"M", arg})
		case 6:
			hs = append(hs, Head{"G", arg})
		case 7:
			switch {
			case ai < 24:
				hs = append(hs, Head{"S", arg})
			case ai == 24:
				if arg < 32 {
					return append(hs, Head{"X", uint64(i)})
				}
				hs = append(hs, Head{"S", arg})
			default:
				hs = append(hs, Head{"F", uint64(ai)})
			}
		}
	}
	return hs
}

// Item is a decoded data item (generic tree), used to compare logged values with arguments.
type Item struct {
	Major byte    `json:"m"`
	AI    byte    `json:"ai"`              // additional information of the head (argument width / float width)
	U     string  `json:"u,omitempty"`     // argument as decimal (ints: value; negative ints: -1-value already applied)
	Hex   string  `json:"hex,omitempty"`   // string payload, hex
	Items []*Item `json:"items,omitempty"` // array elements / map keys and values alternating / tag content
	Indef bool    `json:"indef,omitempty"`
	Bits  string  `json:"bits,omitempty"` // float bits, hex
	F     float64 `json:"-"`
}

type decErr struct{ msg string }

func (e decErr) Error() string { return e.msg }

// DecodeItem decodes one well-formed item from b and returns it with the number of bytes consumed.
func DecodeItem(b []byte, depth int) (it *Item, n int, err error) {
	if depth > 64 {
		return nil, 0, decErr{"too deep"}
	}
	if len(b) == 0 {
		return nil, 0, decErr{"empty"}
	}
	ib := b[0]
	major, ai := ib>>5, ib&31
	it = &Item{Major: major, AI: ai}
	if ai == 31 {
		if major != 2 && major != 3 && major != 4 && major != 5 {
			return nil, 0, decErr{"bad indefinite"}
		}
		it.Indef = true
		i := 1
		var payload []byte
		for {
			if i >= len(b) {
				return nil, 0, decErr{"missing break"}
			}
			if b[i] == 0xff {
				i++
				break
			}
			c, k, e := DecodeItem(b[i:], depth+1)
			if e != nil {
				return nil, 0, e
			}
			if major == 2 || major == 3 {
				if c.Major != major || c.Indef {
					return nil, 0, decErr{"bad chunk"}
				}
				p, _ := hex.DecodeString(c.Hex)
				payload = append(payload, p...)
			} else {
				it.Items = append(it.Items, c)
			}
			i += k
		}
		if major == 2 || major == 3 {
			it.Hex = hex.EncodeToString(payload)
		}
		if major == 5 && len(it.Items)%2 != 0 {
			return nil, 0, decErr{"odd map"}
		}
		return it, i, nil
	}
	arg, k, ok := readArg(b[1:], ai)
	if !ok {
		return nil, 0, decErr{"bad head"}
	}
	i := 1 + k
	switch major {
	case 0:
		it.U = fmt.Sprintf("%d", arg)
	case 1:
		if arg == math.MaxUint64 {
			it.U = "-18446744073709551616"
		} else {
			it.U = fmt.Sprintf("-%d", arg+1)
		}
	case 2, 3:
		if arg > uint64(len(b)-i) {
			return nil, 0, decErr{"short string"}
		}
		it.Hex = hex.EncodeToString(b[i : i+int(arg)])
		i += int(arg)
	case 4, 5:
		cnt := arg
		if major == 5 {
			cnt *= 2
		}
		if cnt > uint64(len(b)) {
			return nil, 0, decErr{"count beyond input"}
		}
		for j := uint64(0); j < cnt; j++ {
			c, k2, e := DecodeItem(b[i:], depth+1)
			if e != nil {
				return nil, 0, e
			}
			it.Items = append(it.Items, c)
			i += k2
		}
	case 6:
		it.U = fmt.Sprintf("%d", arg)
		c, k2, e := DecodeItem(b[i:], depth+1)
		if e != nil {
			return nil, 0, e
		}
		it.Items = []*Item{c}
		i += k2
	case 7:
		switch ai {
		case 25:
			it.Bits = fmt.Sprintf("0x%04x", arg)
		case 26:
			it.Bits = fmt.Sprintf("0x%08x", arg)
		case 27:
			it.Bits = fmt.Sprintf("0x%016x", arg)
		default:
			it.U = fmt.Sprintf("%d", arg)
		}
	}
	return it, i, nil
}
