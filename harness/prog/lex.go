package prog

import (
	"bytes"
	"encoding/json"
	"unicode/utf8"
)

// Lex is an independent RFC 8259 tokenizer (it shares no code with zerolog or encoding/json). It is
// the projection from output bytes to the token alphabet of spec/logger/EventDoc.tla:
//
//	{ } [ ] , :   punctuation
//	K             string at member-name position (first string after '{' or after ',' inside an object)
//	V             any other scalar: string, number (strict RFC 8259 syntax), true / false / null
//	X             lexical error (bad escape, bad number, raw control byte in a string, unknown byte)
//
// The grammar itself (nesting, commas, colons) is NOT checked here: that is done by the automaton
// written in TLA+ on these tokens.
type Lexed struct {
	Tokens []string `json:"tokens"`
	Keys   []KeyAt  `json:"keys"` // pre-order (depth, key) of every object member name; key "?" if not plain ASCII
	Strs   []string `json:"-"`
}

// KeyAt is one object member name with its nesting depth, marshalled as [depth, "name"].
type KeyAt struct {
	D int
	K string
}

func (k KeyAt) MarshalJSON() ([]byte, error) {
	return json.Marshal([]interface{}{k.D, k.K})
}

func isDigit(c byte) bool { return c >= '0' && c <= '9' }

// lexNumber returns the length of the RFC 8259 number at the start of b, or 0.
func lexNumber(b []byte) int {
	i := 0
	if i < len(b) && b[i] == '-' {
		i++
	}
	if i >= len(b) || !isDigit(b[i]) {
		return 0
	}
	if b[i] == '0' {
		i++
	} else {
		for i < len(b) && isDigit(b[i]) {
			i++
		}
	}
	if i < len(b) && b[i] == '.' {
		j := i + 1
		if j >= len(b) || !isDigit(b[j]) {
			return 0
		}
		for j < len(b) && isDigit(b[j]) {
			j++
		}
		i = j
	}
	if i < len(b) && (b[i] == 'e' || b[i] == 'E') {
		j := i + 1
		if j < len(b) && (b[j] == '+' || b[j] == '-') {
			j++
		}
		if j >= len(b) || !isDigit(b[j]) {
			return 0
		}
		for j < len(b) && isDigit(b[j]) {
			j++
		}
		i = j
	}
	return i
}

func isHex(c byte) bool {
	return isDigit(c) || (c >= 'a' && c <= 'f') || (c >= 'A' && c <= 'F')
}

// lexString returns the length of the string literal at b[0] == '"' (including quotes) and its
// content with escapes resolved for plain ASCII; ok=false on a lexical error.
func lexString(b []byte) (n int, text string, ok bool) {
	var out []byte
	plain := true
	i := 1
	for i < len(b) {
		c := b[i]
		switch {
		case c == '"':
			if !plain {
				return i + 1, "?", true
			}
			return i + 1, string(out), true
		case c < 0x20:
			return i, "", false
		case c == '\\':
			if i+1 >= len(b) {
				return i, "", false
			}
			switch b[i+1] {
			case '"', '\\', '/':
				out = append(out, b[i+1])
				i += 2
			case 'b', 'f', 'n', 'r', 't':
				plain = false
				i += 2
			case 'u':
				if i+5 >= len(b) || !isHex(b[i+2]) || !isHex(b[i+3]) || !isHex(b[i+4]) || !isHex(b[i+5]) {
					return i, "", false
				}
				plain = false
				i += 6
			default:
				return i, "", false
			}
		default:
			if c >= 0x7f {
				plain = false
			}
			out = append(out, c)
			i++
		}
	}
	return i, "", false // unterminated
}

// LexJSON tokenizes one JSON text (without its trailing newline).
func LexJSON(b []byte) Lexed {
	var lx Lexed
	lx.Tokens = []string{}
	lx.Keys = []KeyAt{}
	type frame struct {
		obj     bool
		wantKey bool
	}
	var stack []frame
	afterValue := func() {
		if n := len(stack); n > 0 && stack[n-1].obj {
			// the next string after a comma is a key again; handled at ','
		}
	}
	i := 0
	for i < len(b) {
		c := b[i]
		switch {
		case c == ' ' || c == '\t' || c == '\r' || c == '\n':
			i++
		case c == '{':
			lx.Tokens = append(lx.Tokens, "{")
			stack = append(stack, frame{obj: true, wantKey: true})
			i++
		case c == '[':
			lx.Tokens = append(lx.Tokens, "[")
			stack = append(stack, frame{})
			i++
		case c == '}' || c == ']':
			lx.Tokens = append(lx.Tokens, string(c))
			if len(stack) > 0 {
				stack = stack[:len(stack)-1]
			}
			afterValue()
			i++
		case c == ',':
			lx.Tokens = append(lx.Tokens, ",")
			if n := len(stack); n > 0 && stack[n-1].obj {
				stack[n-1].wantKey = true
			}
			i++
		case c == ':':
			lx.Tokens = append(lx.Tokens, ":")
			i++
		case c == '"':
			n, text, ok := lexString(b[i:])
			if !ok {
				lx.Tokens = append(lx.Tokens, "X")
				return lx
			}
			if m := len(stack); m > 0 && stack[m-1].obj && stack[m-1].wantKey {
				lx.Tokens = append(lx.Tokens, "K")
				stack[m-1].wantKey = false
				lx.Keys = append(lx.Keys, KeyAt{len(stack) - 1, text})
			} else {
				lx.Tokens = append(lx.Tokens, "V")
			}
			i += n
		case c == '-' || isDigit(c):
			n := lexNumber(b[i:])
			if n == 0 {
				lx.Tokens = append(lx.Tokens, "X")
				return lx
			}
			lx.Tokens = append(lx.Tokens, "V")
			i += n
		case bytes.HasPrefix(b[i:], []byte("true")) || bytes.HasPrefix(b[i:], []byte("null")):
			lx.Tokens = append(lx.Tokens, "V")
			i += 4
		case bytes.HasPrefix(b[i:], []byte("false")):
			lx.Tokens = append(lx.Tokens, "V")
			i += 5
		default:
			lx.Tokens = append(lx.Tokens, "X")
			return lx
		}
	}
	return lx
}

// Raw are the byte-level clauses of C01 that are not token-level.
type Raw struct {
	EndsNL   bool `json:"nl"`    // ends with exactly one '\n'
	NoCtl    bool `json:"noctl"` // no other byte < 0x20 (in particular no other newline)
	UTF8     bool `json:"utf8"`  // valid UTF-8
	NonEmpty bool `json:"nonempty"`
}

func RawChecks(out []byte) Raw {
	r := Raw{NonEmpty: len(out) > 0}
	if len(out) == 0 {
		return r
	}
	r.EndsNL = out[len(out)-1] == '\n'
	body := out
	if r.EndsNL {
		body = out[:len(out)-1]
	}
	r.NoCtl = true
	for _, c := range body {
		if c < 0x20 {
			r.NoCtl = false
			break
		}
	}
	r.UTF8 = utf8.Valid(out)
	return r
}

// Collapse replaces the value of every member whose name is listed in opaque by a single V and drops
// the member names inside it: values produced by an external marshaler (encoding/json through
// Interface, caller-supplied RawJSON) are one value to the builder discipline of EventDoc. The full
// token list is still what the RFC 8259 automaton judges.
func Collapse(lx Lexed, opaque []string, opaqueEl ...string) Lexed {
	if len(opaque) == 0 && len(opaqueEl) == 0 {
		return lx
	}
	op := map[string]bool{}
	for _, o := range opaque {
		op[o] = true
	}
	opel := map[string]bool{}
	for _, o := range opaqueEl {
		opel[o] = true
	}
	out := Lexed{Tokens: []string{}, Keys: []KeyAt{}}
	ki := 0
	i := 0
	// skip one structured value starting at token j (which is "{" or "["); returns the index after it and
	// advances ki past the member names inside
	skip := func(j int) int {
		depth := 0
		for j < len(lx.Tokens) {
			switch lx.Tokens[j] {
			case "{", "[":
				depth++
			case "}", "]":
				depth--
			case "K":
				ki++
			}
			j++
			if depth == 0 {
				break
			}
		}
		return j
	}
	for i < len(lx.Tokens) {
		t := lx.Tokens[i]
		out.Tokens = append(out.Tokens, t)
		i++
		if t != "K" || ki >= len(lx.Keys) {
			continue
		}
		k := lx.Keys[ki]
		ki++
		out.Keys = append(out.Keys, k)
		if i+1 >= len(lx.Tokens) || lx.Tokens[i] != ":" {
			continue
		}
		if op[k.K] && (lx.Tokens[i+1] == "{" || lx.Tokens[i+1] == "[") {
			out.Tokens = append(out.Tokens, ":", "V")
			i = skip(i + 1)
			continue
		}
		if opel[k.K] && lx.Tokens[i+1] == "[" {
			// an array whose ELEMENTS are rendered by an external marshaler: each structured element is one V
			out.Tokens = append(out.Tokens, ":", "[")
			j := i + 2
			for j < len(lx.Tokens) && lx.Tokens[j] != "]" {
				if lx.Tokens[j] == "{" || lx.Tokens[j] == "[" {
					out.Tokens = append(out.Tokens, "V")
					j = skip(j)
				} else {
					out.Tokens = append(out.Tokens, lx.Tokens[j])
					j++
				}
			}
			i = j
		}
	}
	return out
}
