// Auxiliary observation for C05 (DESIGN 3.7): children of one parent logger derived and used by real
// goroutines on the uninstrumented build under the race detector; every line must carry exactly the
// fields of the goroutine's own derivation path.
package main

import (
	"bytes"
	"encoding/json"
	"fmt"
	"os"
	"sync"

	"github.com/rs/zerolog"
)

type sink struct {
	mu    sync.Mutex
	lines []string
}

func (s *sink) Write(p []byte) (int, error) {
	s.mu.Lock()
	s.lines = append(s.lines, string(p))
	s.mu.Unlock()
	return len(p), nil
}

func main() {
	rounds := 40
	bad := []string{}
	for r := 0; r < rounds; r++ {
		s := &sink{}
		parent := zerolog.New(s).With().Str("p", "parent").Logger().Hook(zerolog.HookFunc(func(e *zerolog.Event, l zerolog.Level, m string) {}))
		var wg sync.WaitGroup
		for g := 0; g < 8; g++ {
			wg.Add(1)
			go func(g int) {
				defer wg.Done()
				child := parent.With().Int("g", g).Logger()
				if g%2 == 0 {
					child = child.Hook(zerolog.HookFunc(func(e *zerolog.Event, l zerolog.Level, m string) { e.Int("hg", g) }))
				}
				grand := child.With().Int("gg", g).Logger()
				for i := 0; i < 50; i++ {
					child.Info().Int("i", i).Msg("c")
					grand.Info().Int("i", i).Msg("d")
					parent.Info().Msg("p")
				}
			}(g)
		}
		wg.Wait()
		for _, ln := range s.lines {
			var m map[string]interface{}
			if err := json.Unmarshal(bytes.TrimSpace([]byte(ln)), &m); err != nil {
				bad = append(bad, fmt.Sprintf("round %d: invalid line %q", r, ln))
				continue
			}
			switch m["message"] {
			case "p":
				if _, ok := m["g"]; ok || m["p"] != "parent" {
					bad = append(bad, fmt.Sprintf("round %d: parent line carries a child's field: %s", r, ln))
				}
			case "c", "d":
				g, _ := m["g"].(float64)
				if hg, ok := m["hg"]; ok && hg.(float64) != g {
					bad = append(bad, fmt.Sprintf("round %d: line of child %v ran the hook of child %v", r, g, hg))
				}
				if int(g)%2 == 0 {
					if _, ok := m["hg"]; !ok {
						bad = append(bad, fmt.Sprintf("round %d: child %v lost its hook: %s", r, g, ln))
					}
				}
				if gg, ok := m["gg"]; ok && gg.(float64) != g {
					bad = append(bad, fmt.Sprintf("round %d: grandchild of %v carries gg=%v", r, g, gg))
				}
			}
		}
	}
	json.NewEncoder(os.Stdout).Encode(map[string]interface{}{"rounds": rounds, "bad": bad})
}
