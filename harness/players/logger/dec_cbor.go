//go:build binary_log

package main

import (
	"fmt"

	"github.com/rs/zerolog"
)

const binaryBuild = true

func decodeMany(b []byte) (out []byte, errs string, panicked string) {
	defer func() {
		if x := recover(); x != nil {
			panicked = fmt.Sprint(x)
		}
	}()
	o, err := zerolog.VerifCbor2JsonMany(b)
	if err != nil {
		errs = err.Error()
	}
	return o, errs, ""
}
