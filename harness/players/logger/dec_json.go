//go:build !binary_log

package main

const binaryBuild = false

func decodeMany(b []byte) (out []byte, errs string, panicked string) { return b, "", "" }
