// Player for the logger families (C01, C03, ...): runs logging programs (harness/prog) on the real
// zerolog API and records, per program, what the destination writer received, projected to the token
// alphabet of spec/logger/EventDoc.tla by an independent lexer.
package main

import (
	"bufio"
	"bytes"
	"encoding/base64"
	"encoding/json"
	"flag"
	"fmt"
	"os"

	"verifharness/prog"
)

// Bounds on what is handed to TLC per event. The largest generated events (a typed slice of 256 elements inside
// nested containers) have a few hundred heads / tokens; beyond these bounds the event is marked malformed (X).
const maxHeads, maxTokens = 2000, 6000

func capTokens(t []string) []string {
	if len(t) > maxTokens {
		return append(t[:maxTokens:maxTokens], "X")
	}
	return t
}

type outLine struct {
	A         string          `json:"a"`
	ID        string          `json:"id"`
	Abs       interface{}     `json:"abs,omitempty"`
	NW        int             `json:"nw"`
	Tokens    []string        `json:"tokens"`
	Keys      []prog.KeyAt    `json:"keys"`
	CTok      []string        `json:"ctokens"` // tokens / keys with opaque member values collapsed to one V
	CKeys     []prog.KeyAt    `json:"ckeys"`
	Raw       prog.Raw        `json:"raw"`
	Valid     bool            `json:"gojson"` // cross-check: encoding/json accepts the line
	Hooks     []prog.HookCall `json:"hooks"`
	HookMsgOK bool            `json:"hookmsgok"` // every hook received the event's final message
	Levels    []int           `json:"levels"`
	Panic     string          `json:"panic"`
	Out       string          `json:"out,omitempty"`
	// binary_log build only
	Heads   []prog.Head  `json:"heads,omitempty"` // RFC 8949 heads found by the independent scanner
	Item    *prog.Item   `json:"item,omitempty"`  // the event decoded by the independent generic decoder
	ItemErr string       `json:"itemerr,omitempty"`
	Rest    int          `json:"rest"`          // bytes left after the first item
	Dec     string       `json:"dec,omitempty"` // what the bundled decoder makes of it (base64)
	DecErr  string       `json:"decerr,omitempty"`
	DecPan  string       `json:"decpanic,omitempty"`
	DTok    []string     `json:"dtokens,omitempty"` // lexer on the decoded JSON
	DKeys   []prog.KeyAt `json:"dkeys,omitempty"`
	DRaw    *prog.Raw    `json:"draw,omitempty"`
}

func main() {
	in := flag.String("scripts", "", "programs ndjson")
	outp := flag.String("out", "hist.ndjson", "recording")
	withBytes := flag.Bool("bytes", false, "include the output bytes (base64)")
	flag.Parse()
	f, err := os.Open(*in)
	if err != nil {
		fmt.Fprintln(os.Stderr, err)
		os.Exit(2)
	}
	of, _ := os.Create(*outp)
	w := bufio.NewWriterSize(of, 1<<20)
	sc := bufio.NewScanner(f)
	sc.Buffer(make([]byte, 1<<20), 1<<28)
	n := 0
	var allOut [][]byte
	w.WriteString(`{"a":"Reset"}` + "\n")
	for sc.Scan() {
		if len(bytes.TrimSpace(sc.Bytes())) == 0 {
			continue
		}
		var p prog.Program
		if err := json.Unmarshal(sc.Bytes(), &p); err != nil {
			fmt.Fprintln(os.Stderr, "bad program:", err)
			os.Exit(2)
		}
		res := prog.Run(&p)
		ol := outLine{A: "Prog", ID: p.ID, Abs: p.Abs, NW: len(res.Writes), Hooks: res.Hooks, Levels: res.Levels, Panic: res.Panic,
			Tokens: []string{}, Keys: []prog.KeyAt{}, CTok: []string{}, CKeys: []prog.KeyAt{}}
		if len(res.Writes) > 0 && binaryBuild {
			out := res.Writes[0]
			allOut = append(allOut, out)
			ol.Heads = prog.ScanHeads(out)
			if len(ol.Heads) > maxHeads { // no generated program comes near; garbage (a mis-sized string) can
				ol.Heads = append(ol.Heads[:maxHeads:maxHeads], prog.Head{K: "X", N: 0})
			}
			it, n, err := prog.DecodeItem(out, 0)
			if err != nil {
				ol.ItemErr = err.Error()
			} else {
				ol.Item, ol.Rest = it, len(out)-n
			}
			dec, derr, dpan := decodeMany(out)
			ol.Dec, ol.DecErr, ol.DecPan = base64.StdEncoding.EncodeToString(dec), derr, dpan
			raw := prog.RawChecks(dec)
			ol.DRaw = &raw
			lx := prog.LexJSON(bytes.TrimSuffix(dec, []byte("\n")))
			cl := prog.Collapse(lx, p.Opaque, p.OpaqueEl...)
			ol.DTok, ol.DKeys = cl.Tokens, cl.Keys
			ol.Tokens, ol.Keys = lx.Tokens, lx.Keys
			if raw.EndsNL {
				ol.DTok = append(append([]string{}, ol.DTok...), "NL")
				ol.Tokens = append(append([]string{}, ol.Tokens...), "NL")
			}
			ol.Valid = json.Valid(bytes.TrimSuffix(dec, []byte("\n")))
			ol.Out = base64.StdEncoding.EncodeToString(out)
		} else if len(res.Writes) > 0 {
			out := res.Writes[0]
			ol.Raw = prog.RawChecks(out)
			body := bytes.TrimSuffix(out, []byte("\n"))
			lx := prog.LexJSON(body)
			ol.Tokens, ol.Keys = lx.Tokens, lx.Keys
			cl := prog.Collapse(lx, p.Opaque, p.OpaqueEl...)
			ol.CTok, ol.CKeys = cl.Tokens, cl.Keys
			if ol.Raw.EndsNL {
				ol.Tokens = append(ol.Tokens, "NL")
				ol.CTok = append(append([]string{}, ol.CTok...), "NL")
			}
			ol.Valid = json.Valid(body)
			if *withBytes {
				ol.Out = base64.StdEncoding.EncodeToString(out)
			}
		}
		wantMsg := string(p.Msg)
		if p.Fin == "Send" {
			wantMsg = ""
		}
		ol.HookMsgOK = true
		for _, h := range res.Hooks {
			if h.Msg != wantMsg {
				ol.HookMsgOK = false
			}
		}
		ol.Tokens, ol.CTok, ol.DTok = capTokens(ol.Tokens), capTokens(ol.CTok), capTokens(ol.DTok)
		b, _ := json.Marshal(ol)
		w.Write(b)
		w.WriteByte('\n')
		n++
	}
	if binaryBuild && len(allOut) > 0 {
		// the whole run as ONE binary log stream, decoded in one call: line i must be what event i decodes to alone
		var stream []byte
		for _, o := range allOut {
			stream = append(stream, o...)
		}
		dec, derr, dpan := decodeMany(stream)
		ls := bytes.Split(bytes.TrimSuffix(dec, []byte("\n")), []byte("\n"))
		mism := 0
		first := -1
		for i := range allOut {
			alone, _, _ := decodeMany(allOut[i])
			if i >= len(ls) || !bytes.Equal(bytes.TrimSuffix(alone, []byte("\n")), ls[i]) {
				mism++
				if first < 0 {
					first = i
				}
			}
		}
		b, _ := json.Marshal(map[string]interface{}{"a": "Stream", "events": len(allOut), "bytes": len(stream), "lines": len(ls), "mismatch": mism, "first": first, "decerr": derr, "decpanic": dpan})
		w.Write(b)
		w.WriteByte('\n')
	}
	w.Flush()
	of.Close()
	fmt.Printf("played=%d\n", n)
}
