package main

import (
	"bytes"
	"encoding/json"
	"errors"
	"fmt"
	"hash/crc32"
	"io"
	"strconv"

	"github.com/rs/zerolog"
)

type multiConf struct {
	Name   string   `json:"name"`
	Kinds  []string `json:"kinds"`
	FLevel []int    `json:"flevel"`
	Multi  bool     `json:"multi"`
}

type multiOp struct {
	Lvl int      `json:"lvl"`
	Out []string `json:"out"`
}

type multiFam struct{ confs map[string]*multiConf }

func init() { families["multi"] = &multiFam{confs: map[string]*multiConf{}} }

func (f *multiFam) define(raw json.RawMessage) error {
	var c multiConf
	if err := json.Unmarshal(raw, &c); err != nil {
		return err
	}
	f.confs[c.Name] = &c
	return nil
}

type multiRun struct {
	got      [][4]int
	expected []byte
	outcome  []string
	side     *zerolog.Logger // non-nil: destinations log through it from inside Write / WriteLevel
}

type mdest struct {
	r   *multiRun
	id  int
	err error
}

func eventNo(p []byte) int {
	i := bytes.Index(p, []byte(`"k":`))
	if i < 0 {
		return -1
	}
	j := i + 4
	e := j
	for e < len(p) && p[e] >= '0' && p[e] <= '9' {
		e++
	}
	n, err := strconv.Atoi(string(p[j:e]))
	if err != nil {
		return -1
	}
	return n
}

func (d *mdest) record(lvl int, p []byte) (int, error) {
	intact := 0
	if bytes.Equal(p, d.r.expected) {
		intact = 1
	}
	d.r.got = append(d.r.got, [4]int{d.id, eventNo(p), lvl, intact})
	if d.r.side != nil {
		// a destination that itself logs through zerolog while it is inside Write (an audit line, a failure report to a
		// fallback logger): the bytes it was handed must stay what they are for the destinations served after it
		d.r.side.Warn().Int("dest", d.id).Str("outcome", d.r.outcome[d.id-1]).Bytes("pad", p).Msg("destination called")
	}
	switch d.r.outcome[d.id-1] {
	case "err":
		// "returns an error": with whatever count - nothing, a part, or (bytes went out, then a flush or an acknowledgement
		// failed) everything. It is the error that makes it a failure
		switch (eventNo(p) + d.id) % 3 {
		case 1:
			return len(p), d.err
		case 2:
			return len(p) / 2, d.err
		}
		return 0, d.err
	case "short":
		if len(p) > 0 {
			return len(p) - 1, nil
		}
	}
	return len(p), nil
}

// plain destination: io.Writer only
type plainDest struct{ d *mdest }

func (p plainDest) Write(b []byte) (int, error) { return p.d.record(-999, b) }

// level-aware destination
type levelDest struct{ d *mdest }

func (p levelDest) Write(b []byte) (int, error) { return p.d.record(-999, b) }
func (p levelDest) WriteLevel(l zerolog.Level, b []byte) (int, error) {
	return p.d.record(int(l), b)
}

func (f *multiFam) play(l *Line, out *rec) error {
	c := f.confs[l.Conf]
	if c == nil {
		return fmt.Errorf("unknown conf %q", l.Conf)
	}
	r := &multiRun{}
	var ws []io.Writer
	errs := map[error]string{io.ErrShortWrite: "short"}
	for i, k := range c.Kinds {
		d := &mdest{r: r, id: i + 1, err: errors.New("dest" + strconv.Itoa(i+1))}
		errs[d.err] = "err" + strconv.Itoa(i+1)
		switch k {
		case "plain":
			ws = append(ws, plainDest{d})
		case "level":
			ws = append(ws, levelDest{d})
		case "filtered":
			ws = append(ws, &zerolog.FilteredLevelWriter{Writer: levelDest{d}, Level: zerolog.Level(c.FLevel[i])})
		default:
			return fmt.Errorf("unknown destination kind %q", k)
		}
	}
	var handled []string
	old := zerolog.ErrorHandler
	zerolog.ErrorHandler = func(err error) {
		if r.side != nil {
			// an ErrorHandler that reports through zerolog itself (re-entrant): the event being finished must still complete -
			// Panic() still panics - whatever the handler's own event does to the pools
			// (two events open at once: whichever pooled object the finished event went back into is among them)
			e1 := r.side.Error().Err(err)
			e2 := r.side.Warn().Str("also", "open")
			e2.Msg("second")
			e1.Msg("write failed")
		}
		if s, ok := errs[err]; ok {
			handled = append(handled, s)
		} else {
			handled = append(handled, "other:"+err.Error())
		}
	}
	defer func() { zerolog.ErrorHandler = old }()
	var logger zerolog.Logger
	if c.Multi {
		if crc32.ChecksumIEEE([]byte(l.ID))%2 == 1 {
			// every second history: one more destination at the end that is not part of the modelled list - a zerolog.Logger used
			// as an io.Writer (forwarding events into another logger). It accepts everything, so it must change nothing: a
			// Logger.Write that reports fewer bytes than it took would surface as a short write nobody made
			audit := zerolog.New(io.Discard)
			ws = append(ws, audit)
		}
		if crc32.ChecksumIEEE([]byte(l.ID))%7 == 4 {
			// one history in seven: a syslog writer with the CEE cookie as the FIRST destination, again outside the modelled list.
			// It hands syslog the cookie plus the event and accounts for the event: nothing it does may look like a short write,
			// and a failure of a later destination is still the one that is reported
			ws = append([]io.Writer{zerolog.SyslogCEEWriter(&mockSyslog{})}, ws...)
		}
		logger = zerolog.New(zerolog.MultiLevelWriter(ws...))
	} else {
		logger = zerolog.New(ws[0])
	}
	if crc32.ChecksumIEEE([]byte(l.ID))%5 >= 3 {
		// two histories in five: the logger gets its destination afterwards, the way applications re-target a configured logger
		// (Logger.Output, log.Output): a level-aware destination must stay level-aware - same fan-out, same levels, same filters
		var w io.Writer = ws[0]
		if c.Multi {
			w = zerolog.MultiLevelWriter(ws...)
		}
		logger = zerolog.New(io.Discard).Output(w)
	}
	out.emit(map[string]interface{}{"a": "Reset", "conf": c.Name, "id": l.ID})
	if crc32.ChecksumIEEE([]byte(l.ID))%3 == 0 { // every third history: re-entrant destinations
		sl := zerolog.New(io.Discard)
		r.side = &sl
	}
	for i, raw := range l.Ops {
		var op multiOp
		if err := json.Unmarshal(raw, &op); err != nil {
			return err
		}
		k := i + 1
		var ref bytes.Buffer
		rl := zerolog.New(&ref)
		// levels >= 100 stand for the entry point Panic() (level op.Lvl-100 = PanicLevel): the event carries a completion
		// callback that panics with the message AFTER the write and the error routing
		viaPanic := op.Lvl >= 100
		lvl := op.Lvl
		if viaPanic {
			lvl -= 100
		}
		rl.WithLevel(zerolog.Level(lvl)).Int("k", k).Msg("m")
		r.expected = ref.Bytes()
		r.got = [][4]int{}
		r.outcome = op.Out
		handled = []string{}
		returned := false
		func() {
			defer func() {
				if x := recover(); x != nil && viaPanic && x == "m" {
					returned = true // Panic() ends by panicking with the message: that IS its normal completion
				}
			}()
			if viaPanic {
				logger.Panic().Int("k", k).Msg("m")
				return // not reached: Panic() must have panicked
			}
			logger.WithLevel(zerolog.Level(lvl)).Int("k", k).Msg("m")
			returned = true
		}()
		out.emit(map[string]interface{}{"a": "Ev", "lvl": op.Lvl, "out": op.Out, "got": r.got, "handled": handled, "returned": returned})
	}
	return nil
}
