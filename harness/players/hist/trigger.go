package main

import (
	"bytes"
	"encoding/json"
	"fmt"
	"hash/crc32"
	"io"
	"strings"
	"time"

	"github.com/rs/zerolog"
)

type trigConf struct {
	Name string `json:"name"`
	Cond int    `json:"cond"`
	Trig int    `json:"trig"`
}

type trigOp struct {
	A string `json:"a"`
	L int    `json:"l"`
	S int    `json:"s"`
}

type trigFam struct{ confs map[string]*trigConf }

func init() { families["trigger"] = &trigFam{confs: map[string]*trigConf{}} }

func (f *trigFam) define(raw json.RawMessage) error {
	var c trigConf
	if err := json.Unmarshal(raw, &c); err != nil {
		return err
	}
	f.confs[c.Name] = &c
	return nil
}

// line ids of spec/writers/Trigger.tla -> bytes (all newline-terminated, no interior newline)
var trigLines = map[int][]byte{
	1: []byte("\n"),
	2: []byte("a\n"),
	3: []byte("\xff{\"k\":1}\n"),
	4: []byte(strings.Repeat("x", 3000) + "\n"),
	5: []byte("\x00\x01\x7f\x80\xff\x0b\x09\n"),
}

func lineID(p []byte) int {
	for id, b := range trigLines {
		if bytes.Equal(p, b) {
			return id
		}
	}
	return 0
}

type trigDest struct{ got [][2]int }

// plainDest is a destination that is an io.Writer only (no WriteLevel): the lines must arrive all the same; their levels
// are not observable there (recorded as -999 and not compared)
type plainTrigDest struct{ d *trigDest }

func (p plainTrigDest) Write(b []byte) (int, error) { return p.d.Write(b) }

// a call that does not come back is an observation, not a dead player: after the first one the plain-destination variant
// is no longer used in this process
var trigHung bool

func returnsInTime(f func()) bool {
	done := make(chan struct{})
	go func() { f(); close(done) }()
	select {
	case <-done:
		return true
	case <-time.After(10 * time.Second):
		return false
	}
}

func (d *trigDest) Write(p []byte) (int, error) {
	d.got = append(d.got, [2]int{-999, lineID(p)}) // Write instead of WriteLevel: the level was lost
	return len(p), nil
}
func (d *trigDest) WriteLevel(l zerolog.Level, p []byte) (int, error) {
	d.got = append(d.got, [2]int{int(l), lineID(p)})
	return len(p), nil
}

// calmLW: the syslog writers panic on a level they do not know. A trigger writer that releases a line with a level nobody wrote is
// what the recording destination next to it shows; the panic must not end the player before it can be recorded
type calmLW struct{ lw zerolog.LevelWriter }

func (c calmLW) Write(p []byte) (int, error) { return c.lw.Write(p) }
func (c calmLW) WriteLevel(l zerolog.Level, p []byte) (n int, err error) {
	defer func() {
		if recover() != nil {
			n, err = len(p), nil
		}
	}()
	return c.lw.WriteLevel(l, p)
}

// the syslog writers know the levels Trace..NoLevel only (anything else is a programming error there)
func trigSyslogLevels(ops []json.RawMessage) bool {
	for _, raw := range ops {
		var op trigOp
		if json.Unmarshal(raw, &op) != nil || (op.A == "W" && (op.L < -1 || op.L > 6)) {
			return false
		}
	}
	return true
}

func (f *trigFam) play(l *Line, out *rec) error {
	c := f.confs[l.Conf]
	if c == nil {
		return fmt.Errorf("unknown conf %q", l.Conf)
	}
	d := &trigDest{}
	h := crc32.ChecksumIEEE([]byte(l.ID))
	var dw io.Writer = d
	plain := h%4 == 1 && !trigHung
	if plain {
		dw = plainTrigDest{d}
	}
	if h%4 == 3 && trigSyslogLevels(l.Ops) {
		// the destination is a fan-out: a syslog level writer (which has no severity for Trace and forwards nothing then) next to
		// the recording destination. Whatever one destination does with a line, the other receives every released line
		dw = zerolog.MultiLevelWriter(calmLW{zerolog.SyslogLevelWriter(&mockSyslog{})}, d)
	}
	w := &zerolog.TriggerLevelWriter{Writer: dw, ConditionalLevel: zerolog.Level(c.Cond), TriggerLevel: zerolog.Level(c.Trig)}
	out.emit(map[string]interface{}{"a": "Reset", "conf": c.Name, "id": l.ID, "plain": plain})
	if h%8 == 5 {
		// "all levels other than 10": one line held at every level of the int8 range (but the separator's), then an explicit
		// Trigger - on a writer of its own, before the history proper
		sd := &trigDest{}
		sw := &zerolog.TriggerLevelWriter{Writer: sd, ConditionalLevel: zerolog.Level(127), TriggerLevel: zerolog.Level(127)}
		levels := []int{}
		for lv := -128; lv <= 126; lv++ {
			if lv == 10 {
				continue
			}
			sw.WriteLevel(zerolog.Level(lv), append([]byte(nil), trigLines[2]...))
			levels = append(levels, lv)
		}
		early := len(sd.got)
		sw.Trigger()
		got := sd.got
		if got == nil {
			got = [][2]int{}
		}
		out.emit(map[string]interface{}{"a": "LSweep", "levels": levels, "early": early, "s": 2, "out": got})
		sw.Close()
	}
	// a COMPANION writer with the same thresholds and its own destination lives at the same time (every second history):
	// from some point of the main history on it holds one line after each main operation, and after the main writer was
	// closed it triggers. Writers share nothing but the buffer pool: the companion's history must satisfy the same
	// contract by itself. Its records follow the main ones after a "Reset2" line.
	var comp *zerolog.TriggerLevelWriter
	cd := &trigDest{}
	var crecs []map[string]interface{}
	cstart, cwrites := -1, 0
	if h%2 == 0 {
		comp = &zerolog.TriggerLevelWriter{Writer: cd, ConditionalLevel: zerolog.Level(c.Cond), TriggerLevel: zerolog.Level(c.Trig)}
		cstart = int(h/2) % (len(l.Ops) + 1)
	}
	clevel := c.Cond // a level the companion's lines are held at, where the thresholds allow one
	if c.Trig-1 < clevel {
		clevel = c.Trig - 1
	}
	if clevel < -128 {
		clevel = -128
	}
	if clevel == 10 {
		clevel = 9
	}
	compOp := func(a string, s int) {
		cd.got = [][2]int{}
		ok := true
		lv := 0
		switch a {
		case "W":
			lv = clevel
			p := append([]byte(nil), trigLines[s]...)
			n, err := comp.WriteLevel(zerolog.Level(lv), p)
			ok = err == nil && n == len(p)
		case "T":
			ok = comp.Trigger() == nil
		case "C":
			ok = comp.Close() == nil
		}
		crecs = append(crecs, map[string]interface{}{"a": a, "l": lv, "s": s, "out": cd.got, "ok": ok})
	}
	for opi, raw := range l.Ops {
		if comp != nil && opi >= cstart && cwrites < 4 {
			compOp("W", []int{2, 3, 5, 2}[cwrites])
			cwrites++
		}
		var op trigOp
		if err := json.Unmarshal(raw, &op); err != nil {
			return err
		}
		d.got = [][2]int{}
		ok := true
		back := returnsInTime(func() {
			switch op.A {
			case "W":
				p := append([]byte(nil), trigLines[op.S]...)
				n, err := w.WriteLevel(zerolog.Level(op.L), p)
				ok = err == nil && n == len(p)
				for i := range p { // the logger reuses its buffer after the call
					p[i] = '#'
				}
			case "T":
				ok = w.Trigger() == nil
			case "C":
				ok = w.Close() == nil
			}
		})
		if op.A != "W" && op.A != "T" && op.A != "C" {
			return fmt.Errorf("unknown op %q", op.A)
		}
		if !back {
			trigHung = true
			out.emit(map[string]interface{}{"a": op.A, "l": op.L, "s": op.S, "out": [][2]int{}, "ok": false, "hung": true})
			return nil // the writer is stuck: nothing more can be observed of this history
		}
		out.emit(map[string]interface{}{"a": op.A, "l": op.L, "s": op.S, "out": d.got, "ok": ok})
	}
	if comp != nil && cwrites == 0 {
		compOp("W", 2)
	}
	// like a per-request writer: closed at the end (buffer goes back to the shared pool)
	w.Close()
	if comp != nil {
		compOp("T", 0)
		compOp("C", 0)
		out.emit(map[string]interface{}{"a": "Reset2", "conf": c.Name, "id": l.ID + "+companion"})
		for _, r := range crecs {
			out.emit(r)
		}
	}
	return nil
}
