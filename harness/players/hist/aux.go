package main

// Extension families (not among the listed properties): syslog level writers, LevelHook dispatch, loggers carried
// in a context.Context. Contracts: spec/aux/*.tla.

import (
	"bytes"
	"context"
	"encoding/json"
	"errors"
	"fmt"

	"github.com/rs/zerolog"
)

func init() {
	families["syslog"] = &syslogFam{}
	families["levelhook"] = &levelHookFam{}
	families["ctxstore"] = &ctxStoreFam{}
}

// ---- syslog

type sysCall struct {
	Method string
	Msg    string
}

type mockSyslog struct {
	calls  []sysCall
	fail   bool   // the level methods return an error
	wfault string // "prefix": the first Write fails; "body": the Write of the event fails
	nwrite int
}

var errSys = errors.New("syslog down")

func (m *mockSyslog) rec(method, msg string) error {
	m.calls = append(m.calls, sysCall{method, msg})
	if m.fail {
		return errSys
	}
	return nil
}
func (m *mockSyslog) Write(p []byte) (int, error) {
	m.calls = append(m.calls, sysCall{"Write", string(p)})
	m.nwrite++
	isPrefix := string(p) == "@cee:"
	if (m.wfault == "prefix" && isPrefix) || (m.wfault == "body" && !isPrefix) {
		return 0, errSys
	}
	return len(p), nil
}
func (m *mockSyslog) Debug(s string) error   { return m.rec("Debug", s) }
func (m *mockSyslog) Info(s string) error    { return m.rec("Info", s) }
func (m *mockSyslog) Warning(s string) error { return m.rec("Warning", s) }
func (m *mockSyslog) Err(s string) error     { return m.rec("Err", s) }
func (m *mockSyslog) Emerg(s string) error   { return m.rec("Emerg", s) }
func (m *mockSyslog) Crit(s string) error    { return m.rec("Crit", s) }

type syslogFam struct{}

func (*syslogFam) define(json.RawMessage) error { return nil }

type sysOp struct {
	Op     string `json:"op"`
	L      int    `json:"l"`
	Fault  bool   `json:"fault"`
	WFault string `json:"wfault"`
}

func (*syslogFam) play(l *Line, out *rec) error {
	out.emit(map[string]interface{}{"a": "Reset", "id": l.ID})
	var h struct {
		Cee bool    `json:"cee"`
		Ops []sysOp `json:"ops"`
	}
	if err := json.Unmarshal(l.Ops[0], &h); err != nil {
		return err
	}
	prefix := ""
	if h.Cee {
		prefix = "@cee:"
	}
	got := []map[string]interface{}{}
	for _, op := range h.Ops {
		m := &mockSyslog{fail: op.Fault, wfault: op.WFault}
		var w zerolog.LevelWriter
		if h.Cee {
			w = zerolog.SyslogCEEWriter(m)
		} else {
			w = zerolog.SyslogLevelWriter(m)
		}
		body := []byte("{\"k\":\"v\"}\n")
		var n int
		var err error
		panicked := false
		handled := 0
		func() {
			defer func() {
				if x := recover(); x != nil {
					panicked = true
				}
			}()
			switch op.Op {
			case "WL":
				n, err = w.WriteLevel(zerolog.Level(op.L), body)
			case "W":
				n, err = w.Write(body)
			case "LOG":
				var ref bytes.Buffer
				rl := zerolog.New(&ref)
				rl.WithLevel(zerolog.Level(op.L)).Str("k", "v").Msg("m")
				body = ref.Bytes()
				old := zerolog.ErrorHandler
				zerolog.ErrorHandler = func(e error) { handled++; err = e }
				sl := zerolog.New(w)
				sl.WithLevel(zerolog.Level(op.L)).Str("k", "v").Msg("m")
				zerolog.ErrorHandler = old
				n = len(body)
				if err != nil {
					n = len(body) // the logger does not report n; the method's error reaches ErrorHandler
				}
			}
		}()
		calls := [][2]interface{}{}
		msgok := true
		for _, c := range m.calls {
			hasPrefix := false
			switch {
			case c.Method == "Write":
				hasPrefix = c.Msg == "@cee:"
				if !hasPrefix && c.Msg != string(body) {
					msgok = false
				}
			default:
				hasPrefix = prefix != "" && len(c.Msg) >= len(prefix) && c.Msg[:len(prefix)] == prefix
				if c.Msg != prefix+string(body) {
					msgok = false
				}
			}
			calls = append(calls, [2]interface{}{c.Method, hasPrefix})
		}
		full := false
		switch op.Op {
		case "WL", "LOG":
			full = n == len(body)
		case "W":
			want := len(body)
			if h.Cee {
				want += len(prefix)
			}
			full = n == want && err == nil
		}
		if op.Op == "LOG" && (err != nil) != (handled == 1) {
			msgok = false // the method's error must reach ErrorHandler exactly once
		}
		got = append(got, map[string]interface{}{"calls": calls, "msgok": msgok, "panicked": panicked, "err": err != nil, "full": full})
	}
	out.emit(map[string]interface{}{"a": "Syslog", "id": l.ID, "cee": h.Cee, "ops": h.Ops, "got": got})
	return nil
}

// ---- LevelHook

type levelHookFam struct{}

func (*levelHookFam) define(json.RawMessage) error { return nil }

type slotHook struct {
	slot int
	runs *[]int
	ok   *bool
	want zerolog.Level
}

func (s slotHook) Run(e *zerolog.Event, level zerolog.Level, msg string) {
	*s.runs = append(*s.runs, s.slot)
	if level != s.want || msg != "m" {
		*s.ok = false
	}
}

func (*levelHookFam) play(l *Line, out *rec) error {
	out.emit(map[string]interface{}{"a": "Reset", "id": l.ID})
	var h struct {
		Cfg    []int `json:"cfg"`
		Levels []int `json:"levels"`
	}
	if err := json.Unmarshal(l.Ops[0], &h); err != nil {
		return err
	}
	got := []map[string]interface{}{}
	oldGlobal := zerolog.GlobalLevel()
	zerolog.SetGlobalLevel(zerolog.Level(-128)) // custom levels below Trace must pass the global gate too
	defer zerolog.SetGlobalLevel(oldGlobal)
	for _, lv := range h.Levels {
		var runs []int
		ok := true
		var lh zerolog.LevelHook
		for _, s := range h.Cfg {
			hk := slotHook{s, &runs, &ok, zerolog.Level(lv)}
			switch zerolog.Level(s) {
			case zerolog.TraceLevel:
				lh.TraceHook = hk
			case zerolog.DebugLevel:
				lh.DebugHook = hk
			case zerolog.InfoLevel:
				lh.InfoHook = hk
			case zerolog.WarnLevel:
				lh.WarnHook = hk
			case zerolog.ErrorLevel:
				lh.ErrorHook = hk
			case zerolog.FatalLevel:
				lh.FatalHook = hk
			case zerolog.PanicLevel:
				lh.PanicHook = hk
			case zerolog.NoLevel:
				lh.NoLevelHook = hk
			}
		}
		var buf bytes.Buffer
		hl := zerolog.New(&buf).Level(zerolog.Level(-128)).Hook(lh)
		hl.WithLevel(zerolog.Level(lv)).Msg("m")
		if runs == nil {
			runs = []int{}
		}
		got = append(got, map[string]interface{}{"level": lv, "runs": runs, "argsok": ok, "written": buf.Len() > 0})
	}
	out.emit(map[string]interface{}{"a": "LevelHook", "id": l.ID, "cfg": h.Cfg, "got": got})
	return nil
}

// ---- loggers carried in a context

type ctxStoreFam struct{}

func (*ctxStoreFam) define(json.RawMessage) error { return nil }

type nameSink struct{ name *string }

func (nameSink) Write(p []byte) (int, error) { return len(p), nil }

func (*ctxStoreFam) play(l *Line, out *rec) error {
	out.emit(map[string]interface{}{"a": "Reset", "id": l.ID})
	var h struct {
		Def bool `json:"def"`
		Ops []struct {
			Op   string `json:"op"`
			From int    `json:"from"`
			Kind string `json:"kind"`
			Same bool   `json:"same"`
			Want string `json:"want"`
		} `json:"ops"`
	}
	if err := json.Unmarshal(l.Ops[0], &h); err != nil {
		return err
	}
	mk := func(id string) zerolog.Logger {
		return zerolog.New(&bytes.Buffer{}).With().Str("id", id).Logger()
	}
	loggers := map[string]zerolog.Logger{"a": mk("a"), "b": mk("b"), "dis": mk("dis").Level(zerolog.Disabled)}
	old := zerolog.DefaultContextLogger
	defer func() { zerolog.DefaultContextLogger = old }()
	zerolog.DefaultContextLogger = nil
	if h.Def {
		d := mk("def")
		zerolog.DefaultContextLogger = &d
	}
	type key struct{}
	ctxs := []context.Context{context.WithValue(context.Background(), key{}, 0)}
	got := []map[string]interface{}{}
	for _, op := range h.Ops {
		src := ctxs[op.From-1]
		switch op.Op {
		case "With":
			c2 := loggers[op.Kind].WithContext(src)
			ctxs = append(ctxs, c2)
			got = append(got, map[string]interface{}{"same": c2 == src, "found": ""})
		case "Get":
			lg := zerolog.Ctx(src)
			found := "?"
			if lg == nil {
				found = "nil"
			} else {
				var buf bytes.Buffer
				pl := lg.Output(&buf)
				pl.Log().Msg("probe")
				var m map[string]interface{}
				switch {
				case buf.Len() == 0 && lg.GetLevel() == zerolog.Disabled:
					// a disabled logger: the stored one ("dis") or the package's fallback
					if zerolog.Ctx(src) == zerolog.Ctx(context.Background()) && !h.Def {
						found = "disabled"
					} else {
						found = "dis"
					}
				case json.Unmarshal(buf.Bytes(), &m) == nil:
					found = fmt.Sprint(m["id"])
				}
			}
			got = append(got, map[string]interface{}{"same": false, "found": found})
		}
	}
	out.emit(map[string]interface{}{"a": "CtxStore", "id": l.ID, "def": h.Def, "ops": h.Ops, "got": got})
	return nil
}
