package main

// Extension families (not among the listed properties): syslog level writers, LevelHook dispatch, loggers carried
// in a context.Context. Contracts: spec/aux/*.tla.

import (
	"bytes"
	"context"
	"encoding/json"
	"errors"
	"fmt"
	"strconv"
	"strings"

	"github.com/rs/zerolog"
)

func init() {
	families["syslog"] = &syslogFam{}
	families["levelhook"] = &levelHookFam{}
	families["ctxstore"] = &ctxStoreFam{}
	families["levelnames"] = &levelNamesFam{}
}

// ---- syslog

type sysCall struct {
	Method string
	Msg    string
}

type mockSyslog struct {
	calls  []sysCall
	fail   bool   // the level methods return an error
	wfault string // "prefix": the first Write fails; "body": the Write of the event fails
	nwrite int
}

var errSys = errors.New("syslog down")

func (m *mockSyslog) rec(method, msg string) error {
	m.calls = append(m.calls, sysCall{method, msg})
	if m.fail {
		return errSys
	}
	return nil
}
func (m *mockSyslog) Write(p []byte) (int, error) {
	m.calls = append(m.calls, sysCall{"Write", string(p)})
	m.nwrite++
	isPrefix := string(p) == "@cee:"
	if (m.wfault == "prefix" && isPrefix) || (m.wfault == "body" && !isPrefix) {
		return 0, errSys
	}
	return len(p), nil
}
func (m *mockSyslog) Debug(s string) error   { return m.rec("Debug", s) }
func (m *mockSyslog) Info(s string) error    { return m.rec("Info", s) }
func (m *mockSyslog) Warning(s string) error { return m.rec("Warning", s) }
func (m *mockSyslog) Err(s string) error     { return m.rec("Err", s) }
func (m *mockSyslog) Emerg(s string) error   { return m.rec("Emerg", s) }
func (m *mockSyslog) Crit(s string) error    { return m.rec("Crit", s) }

type syslogFam struct{}

func (*syslogFam) define(json.RawMessage) error { return nil }

type sysOp struct {
	Op     string `json:"op"`
	L      int    `json:"l"`
	Fault  bool   `json:"fault"`
	WFault string `json:"wfault"`
}

func (*syslogFam) play(l *Line, out *rec) error {
	out.emit(map[string]interface{}{"a": "Reset", "id": l.ID})
	var h struct {
		Cee bool    `json:"cee"`
		Ops []sysOp `json:"ops"`
	}
	if err := json.Unmarshal(l.Ops[0], &h); err != nil {
		return err
	}
	prefix := ""
	if h.Cee {
		prefix = "@cee:"
	}
	got := []map[string]interface{}{}
	for _, op := range h.Ops {
		m := &mockSyslog{fail: op.Fault, wfault: op.WFault}
		var w zerolog.LevelWriter
		if h.Cee {
			w = zerolog.SyslogCEEWriter(m)
		} else {
			w = zerolog.SyslogLevelWriter(m)
		}
		body := []byte("{\"k\":\"v\"}\n")
		var n int
		var err error
		panicked := false
		handled := 0
		func() {
			defer func() {
				if x := recover(); x != nil {
					panicked = true
				}
			}()
			switch op.Op {
			case "WL":
				n, err = w.WriteLevel(zerolog.Level(op.L), body)
			case "W":
				n, err = w.Write(body)
			case "LOG":
				var ref bytes.Buffer
				rl := zerolog.New(&ref)
				rl.WithLevel(zerolog.Level(op.L)).Str("k", "v").Msg("m")
				body = ref.Bytes()
				old := zerolog.ErrorHandler
				zerolog.ErrorHandler = func(e error) { handled++; err = e }
				sl := zerolog.New(w)
				sl.WithLevel(zerolog.Level(op.L)).Str("k", "v").Msg("m")
				zerolog.ErrorHandler = old
				n = len(body)
				if err != nil {
					n = len(body) // the logger does not report n; the method's error reaches ErrorHandler
				}
			}
		}()
		calls := [][2]interface{}{}
		msgok := true
		for _, c := range m.calls {
			hasPrefix := false
			switch {
			case c.Method == "Write":
				hasPrefix = c.Msg == "@cee:"
				if !hasPrefix && c.Msg != string(body) {
					msgok = false
				}
			default:
				hasPrefix = prefix != "" && len(c.Msg) >= len(prefix) && c.Msg[:len(prefix)] == prefix
				if c.Msg != prefix+string(body) {
					msgok = false
				}
			}
			calls = append(calls, [2]interface{}{c.Method, hasPrefix})
		}
		full := false
		switch op.Op {
		case "WL", "LOG":
			full = n == len(body)
		case "W":
			want := len(body)
			if h.Cee {
				want += len(prefix)
			}
			full = n == want && err == nil
		}
		if op.Op == "LOG" && (err != nil) != (handled == 1) {
			msgok = false // the method's error must reach ErrorHandler exactly once
		}
		got = append(got, map[string]interface{}{"calls": calls, "msgok": msgok, "panicked": panicked, "err": err != nil, "full": full})
	}
	out.emit(map[string]interface{}{"a": "Syslog", "id": l.ID, "cee": h.Cee, "ops": h.Ops, "got": got})
	return nil
}

// ---- LevelHook

type levelHookFam struct{}

func (*levelHookFam) define(json.RawMessage) error { return nil }

type slotHook struct {
	slot int
	runs *[]int
	ok   *bool
	want zerolog.Level
}

func (s slotHook) Run(e *zerolog.Event, level zerolog.Level, msg string) {
	*s.runs = append(*s.runs, s.slot)
	if level != s.want || msg != "m" {
		*s.ok = false
	}
}

func (*levelHookFam) play(l *Line, out *rec) error {
	out.emit(map[string]interface{}{"a": "Reset", "id": l.ID})
	var h struct {
		Cfg    []int `json:"cfg"`
		Levels []int `json:"levels"`
	}
	if err := json.Unmarshal(l.Ops[0], &h); err != nil {
		return err
	}
	got := []map[string]interface{}{}
	oldGlobal := zerolog.GlobalLevel()
	zerolog.SetGlobalLevel(zerolog.Level(-128)) // custom levels below Trace must pass the global gate too
	defer zerolog.SetGlobalLevel(oldGlobal)
	for _, lv := range h.Levels {
		var runs []int
		ok := true
		var lh zerolog.LevelHook
		for _, s := range h.Cfg {
			hk := slotHook{s, &runs, &ok, zerolog.Level(lv)}
			switch zerolog.Level(s) {
			case zerolog.TraceLevel:
				lh.TraceHook = hk
			case zerolog.DebugLevel:
				lh.DebugHook = hk
			case zerolog.InfoLevel:
				lh.InfoHook = hk
			case zerolog.WarnLevel:
				lh.WarnHook = hk
			case zerolog.ErrorLevel:
				lh.ErrorHook = hk
			case zerolog.FatalLevel:
				lh.FatalHook = hk
			case zerolog.PanicLevel:
				lh.PanicHook = hk
			case zerolog.NoLevel:
				lh.NoLevelHook = hk
			}
		}
		var buf bytes.Buffer
		hl := zerolog.New(&buf).Level(zerolog.Level(-128)).Hook(lh)
		func() {
			defer func() {
				if recover() != nil {
					ok = false // a hook dispatch that dereferences an empty slot: recorded, not a dead player
				}
			}()
			hl.WithLevel(zerolog.Level(lv)).Msg("m")
		}()
		if runs == nil {
			runs = []int{}
		}
		got = append(got, map[string]interface{}{"level": lv, "runs": runs, "argsok": ok, "written": buf.Len() > 0})
	}
	out.emit(map[string]interface{}{"a": "LevelHook", "id": l.ID, "cfg": h.Cfg, "got": got})
	return nil
}

// ---- loggers carried in a context

type ctxStoreFam struct{}

func (*ctxStoreFam) define(json.RawMessage) error { return nil }

type nameSink struct{ name *string }

func (nameSink) Write(p []byte) (int, error) { return len(p), nil }

func (*ctxStoreFam) play(l *Line, out *rec) error {
	out.emit(map[string]interface{}{"a": "Reset", "id": l.ID})
	var h struct {
		Def bool `json:"def"`
		Ops []struct {
			Op   string `json:"op"`
			From int    `json:"from"`
			Kind string `json:"kind"`
			Same bool   `json:"same"`
			Want string `json:"want"`
		} `json:"ops"`
	}
	if err := json.Unmarshal(l.Ops[0], &h); err != nil {
		return err
	}
	mk := func(id string) zerolog.Logger {
		return zerolog.New(&bytes.Buffer{}).With().Str("id", id).Logger()
	}
	loggers := map[string]zerolog.Logger{"a": mk("a"), "b": mk("b"), "dis": mk("dis").Level(zerolog.Disabled)}
	old := zerolog.DefaultContextLogger
	defer func() { zerolog.DefaultContextLogger = old }()
	zerolog.DefaultContextLogger = nil
	if h.Def {
		d := mk("def")
		zerolog.DefaultContextLogger = &d
	}
	type key struct{}
	ctxs := []context.Context{context.WithValue(context.Background(), key{}, 0)}
	got := []map[string]interface{}{}
	for _, op := range h.Ops {
		src := ctxs[op.From-1]
		switch op.Op {
		case "With":
			c2 := loggers[op.Kind].WithContext(src)
			ctxs = append(ctxs, c2)
			got = append(got, map[string]interface{}{"same": c2 == src, "found": ""})
		case "Get":
			lg := zerolog.Ctx(src)
			found := "?"
			if lg == nil {
				found = "nil"
			} else {
				var buf bytes.Buffer
				pl := lg.Output(&buf)
				pl.Log().Msg("probe")
				var m map[string]interface{}
				switch {
				case buf.Len() == 0 && lg.GetLevel() == zerolog.Disabled:
					// a disabled logger: the stored one ("dis") or the package's fallback
					if zerolog.Ctx(src) == zerolog.Ctx(context.Background()) && !h.Def {
						found = "disabled"
					} else {
						found = "dis"
					}
				case json.Unmarshal(buf.Bytes(), &m) == nil:
					found = fmt.Sprint(m["id"])
				}
			}
			got = append(got, map[string]interface{}{"same": false, "found": found})
		}
	}
	out.emit(map[string]interface{}{"a": "CtxStore", "id": l.ID, "def": h.Def, "ops": h.Ops, "got": got})
	return nil
}

// ---- the text form of levels (spec/aux/LevelNames.tla)

type levelNamesFam struct{}

func (*levelNamesFam) define(json.RawMessage) error { return nil }

// abstract text of LevelNames.tla
type lvText struct {
	K string `json:"k"`
	L int    `json:"l"`
	C string `json:"c"`
	N int    `json:"n"`
	F string `json:"f"`
}

var lvNamed = []int{-1, 0, 1, 2, 3, 4, 5, 6, 7}

var lvJunk = []string{"foo", "1.5", " 1", "info ", "informational", "0x1", "1e1", "\uff19", "99999999999999999999", "--1", "1_0", "tracee"}

func lvCase(s, c string) string {
	switch c {
	case "upper":
		return strings.ToUpper(s)
	case "mixed":
		b := []byte(strings.ToLower(s))
		for i := 0; i < len(b); i += 2 {
			if b[i] >= 'a' && b[i] <= 'z' {
				b[i] -= 'a' - 'A'
			}
		}
		return string(b)
	}
	return s
}

func (*levelNamesFam) play(l *Line, out *rec) error {
	out.emit(map[string]interface{}{"a": "Reset", "id": l.ID})
	var h struct {
		Conf   string   `json:"conf"`
		Texts  []lvText `json:"texts"`
		Levels []int    `json:"levels"`
	}
	if err := json.Unmarshal(l.Ops[0], &h); err != nil {
		return err
	}
	oldF := zerolog.LevelFieldMarshalFunc
	oldV := []string{zerolog.LevelTraceValue, zerolog.LevelDebugValue, zerolog.LevelInfoValue, zerolog.LevelWarnValue, zerolog.LevelErrorValue, zerolog.LevelFatalValue, zerolog.LevelPanicValue}
	defer func() {
		zerolog.LevelFieldMarshalFunc = oldF
		zerolog.LevelTraceValue, zerolog.LevelDebugValue, zerolog.LevelInfoValue, zerolog.LevelWarnValue, zerolog.LevelErrorValue, zerolog.LevelFatalValue, zerolog.LevelPanicValue = oldV[0], oldV[1], oldV[2], oldV[3], oldV[4], oldV[5], oldV[6]
	}()
	// the player's own table of names: what String() must say (strName) and what MarshalText must say (marName)
	strName := map[int]string{-1: "trace", 0: "debug", 1: "info", 2: "warn", 3: "error", 4: "fatal", 5: "panic", 6: "", 7: "disabled"}
	switch h.Conf {
	case "values":
		zerolog.LevelTraceValue, zerolog.LevelDebugValue, zerolog.LevelInfoValue, zerolog.LevelWarnValue, zerolog.LevelErrorValue, zerolog.LevelFatalValue, zerolog.LevelPanicValue = "trc", "dbg", "inf", "wrn", "err", "ftl", "pnc"
		strName = map[int]string{-1: "trc", 0: "dbg", 1: "inf", 2: "wrn", 3: "err", 4: "ftl", 5: "pnc", 6: "", 7: "disabled"}
	case "func":
		zerolog.LevelFieldMarshalFunc = func(l zerolog.Level) string { return "<" + l.String() + ">" }
	}
	marName := map[int]string{}
	for k, v := range strName {
		if h.Conf == "func" {
			v = "<" + v + ">"
		}
		marName[k] = v
	}
	concrete := func(t lvText) string {
		switch t.K {
		case "name":
			return lvCase(marName[t.L], t.C)
		case "num":
			switch t.F {
			case "plus":
				return "+" + strconv.Itoa(t.N)
			case "zeros":
				if t.N < 0 {
					return "-00" + strconv.Itoa(-t.N)
				}
				return "00" + strconv.Itoa(t.N)
			}
			return strconv.Itoa(t.N)
		case "empty":
			return ""
		case "wrapnum":
			return "<" + strconv.Itoa(t.N) + ">"
		}
		return lvJunk[t.N-1]
	}
	classify := func(s string, names map[int]string, wrapped bool) lvText {
		for _, n := range lvNamed {
			if s == names[n] {
				return lvText{"name", n, "lower", 0, "plain"}
			}
		}
		if wrapped && len(s) > 2 && s[0] == '<' && s[len(s)-1] == '>' {
			if i, err := strconv.Atoi(s[1 : len(s)-1]); err == nil && strconv.Itoa(i) == s[1:len(s)-1] {
				return lvText{"wrapnum", 0, "lower", i, "plain"}
			}
		}
		if i, err := strconv.Atoi(s); err == nil && strconv.Itoa(i) == s {
			return lvText{"num", 0, "lower", i, "plain"}
		}
		return lvText{"junk", 0, "lower", 0, "plain"}
	}
	parsed := []map[string]interface{}{}
	for _, t := range h.Texts {
		s := concrete(t)
		lv, err := zerolog.ParseLevel(s)
		u := zerolog.Level(99) // UnmarshalText assigns the receiver whatever happens
		uerr := u.UnmarshalText([]byte(s))
		parsed = append(parsed, map[string]interface{}{"t": t, "text": s, "lvl": int(lv), "err": err != nil, "ulvl": int(u), "uerr": uerr != nil})
	}
	strs := []map[string]interface{}{}
	for _, n := range h.Levels {
		lv := zerolog.Level(n)
		m, merr := lv.MarshalText()
		var back zerolog.Level = 99
		berr := back.UnmarshalText(m)
		strs = append(strs, map[string]interface{}{"l": n, "s": classify(lv.String(), strName, false), "m": classify(string(m), marName, h.Conf == "func"),
			"merr": merr != nil, "back": berr == nil && back == lv})
	}
	var nilLevel *zerolog.Level
	out.emit(map[string]interface{}{"a": "LevelNames", "id": l.ID, "conf": h.Conf, "parsed": parsed, "strs": strs, "nilerr": nilLevel.UnmarshalText([]byte("info")) != nil})
	return nil
}
