package main

import (
	"bytes"
	"context"
	"encoding/json"
	"errors"
	"fmt"
	"os"
	"os/exec"
	"reflect"
	"strings"

	"github.com/rs/zerolog"
	zlog "github.com/rs/zerolog/log"
)

// C04: level gate cube, entry points, level text forms, inert filtered events, Fatal exit.
type gateFam struct{}

func init() {
	families["gate"] = &gateFam{}
	if mode := os.Getenv("VERIF_FATAL_CHILD"); mode != "" {
		fatalChild(mode, os.Getenv("VERIF_FATAL_FILE"))
	}
}

func (f *gateFam) define(raw json.RawMessage) error { return nil }

type gateOp struct {
	A     string `json:"a"`
	Entry string `json:"entry"`
	LL    int    `json:"ll"`
	GL    int    `json:"gl"`
	Lo    int    `json:"lo"`
	Hi    int    `json:"hi"`
}

type lvlW struct {
	n    int
	lvls []int
}

func (w *lvlW) Write(p []byte) (int, error) { w.n++; w.lvls = append(w.lvls, -999); return len(p), nil }
func (w *lvlW) WriteLevel(l zerolog.Level, p []byte) (int, error) {
	w.n++
	w.lvls = append(w.lvls, int(l))
	return len(p), nil
}

type countHook struct{ n *int }

func (h countHook) Run(e *zerolog.Event, l zerolog.Level, m string) { *h.n++ }

func (f *gateFam) play(l *Line, out *rec) error {
	defer zerolog.SetGlobalLevel(zerolog.TraceLevel)
	out.emit(map[string]interface{}{"a": "Reset", "id": l.ID})
	for _, raw := range l.Ops {
		var op gateOp
		if err := json.Unmarshal(raw, &op); err != nil {
			return err
		}
		switch op.A {
		case "CubeRange":
			for e := op.Lo; e <= op.Hi; e++ {
				if e > 7 {
					break
				}
				for g := -128; g <= 127; g++ {
					zerolog.SetGlobalLevel(zerolog.Level(g))
					var ivals [][2]int
					wlok := true
					open := false
					panics := 0
					for ll := -128; ll <= 127; ll++ {
						w := &lvlW{}
						lg := zerolog.New(w).Level(zerolog.Level(ll))
						func() {
							defer func() {
								if recover() != nil {
									panics++
								}
							}()
							lg.WithLevel(zerolog.Level(e)).Msg("m")
						}()
						if w.n > 0 {
							if w.n != 1 || w.lvls[0] != e {
								wlok = false
							}
							if open {
								ivals[len(ivals)-1][1] = ll
							} else {
								ivals = append(ivals, [2]int{ll, ll})
								open = true
							}
						} else {
							open = false
						}
					}
					if ivals == nil {
						ivals = [][2]int{}
					}
					out.emit(map[string]interface{}{"a": "Cube", "e": e, "g": g, "written": ivals, "wlok": wlok, "panics": panics})
				}
			}
		case "Entry":
			out.emit(gateEntry(op))
		case "TextAll":
			for lv := -128; lv <= 127; lv++ {
				L := zerolog.Level(lv)
				parsed, perr := zerolog.ParseLevel(L.String())
				mt, _ := L.MarshalText()
				var um zerolog.Level
				uerr := um.UnmarshalText(mt)
				out.emit(map[string]interface{}{"a": "Text", "lvl": lv, "str": L.String(), "parsed": int(parsed), "perr": perr != nil || uerr != nil, "mt": string(mt), "um": int(um)})
			}
		case "NilAll":
			gateNil(out)
			gateDiscarded(out)
		case "FatalAll":
			for _, filtered := range []bool{false, true} {
				out.emit(gateFatal(filtered))
			}
		default:
			return fmt.Errorf("unknown gate op %q", op.A)
		}
	}
	return nil
}

type recSampler struct {
	admit bool
	calls *int
}

func (s recSampler) Sample(zerolog.Level) bool { *s.calls++; return s.admit }

// gateRun sends one event through the entry point on logger lg (the package-level logger is lg too).
func gateRun(op gateOp, lg zerolog.Logger) (panicked bool, pmsg string) {
	old := zlog.Logger
	zlog.Logger = lg
	defer func() { zlog.Logger = old }()
	func() {
		defer func() {
			if x := recover(); x != nil {
				panicked, pmsg = true, fmt.Sprint(x)
			}
		}()
		x := op.Entry
		switch {
		case x == "Trace":
			lg.Trace().Msg("m")
		case x == "Debug":
			lg.Debug().Msg("m")
		case x == "Info":
			lg.Info().Msg("m")
		case x == "Warn":
			lg.Warn().Msg("m")
		case x == "Error":
			lg.Error().Msg("m")
		case x == "Panic":
			lg.Panic().Msg("m")
		case x == "Log":
			lg.Log().Msg("m")
		case x == "ErrNil":
			lg.Err(nil).Msg("m")
		case x == "Err":
			lg.Err(errors.New("x")).Msg("m")
		case x == "Print":
			lg.Print("m")
		case x == "Printf":
			lg.Printf("%s", "m")
		case x == "Println":
			lg.Println("m")
		case x == "Write":
			lg.Write([]byte("m\n"))
		case strings.HasPrefix(x, "WithLevel"):
			var n int
			fmt.Sscanf(x[len("WithLevel"):], "%d", &n)
			lg.WithLevel(zerolog.Level(n)).Msg("m")
		case x == "log.Trace":
			zlog.Trace().Msg("m")
		case x == "log.Debug":
			zlog.Debug().Msg("m")
		case x == "log.Info":
			zlog.Info().Msg("m")
		case x == "log.Warn":
			zlog.Warn().Msg("m")
		case x == "log.Error":
			zlog.Error().Msg("m")
		case x == "log.Panic":
			zlog.Panic().Msg("m")
		case x == "log.Log":
			zlog.Log().Msg("m")
		case x == "log.Err":
			zlog.Err(errors.New("x")).Msg("m")
		case x == "log.Print":
			zlog.Print("m")
		case x == "log.Printf":
			zlog.Printf("%s", "m")
		case x == "log.WithLevel4":
			zlog.WithLevel(zerolog.FatalLevel).Msg("m")
		default:
			panic("unknown entry " + x)
		}
	}()
	return
}

func gateEntry(op gateOp) map[string]interface{} {
	w := &lvlW{}
	hooks := 0
	lg := zerolog.New(w).Level(zerolog.Level(op.LL)).Hook(countHook{&hooks})
	zerolog.SetGlobalLevel(zerolog.Level(op.GL))
	panicked, pmsg := gateRun(op, lg)
	wl := -999
	if len(w.lvls) > 0 {
		wl = w.lvls[0]
	}
	// the same event with a recording sampler attached: once admitting, once rejecting
	wa, wr := &lvlW{}, &lvlW{}
	ca, cr := 0, 0
	gateRun(op, zerolog.New(wa).Level(zerolog.Level(op.LL)).Sample(recSampler{true, &ca}))
	gateRun(op, zerolog.New(wr).Level(zerolog.Level(op.LL)).Sample(recSampler{false, &cr}))
	return map[string]interface{}{"a": "Entry", "entry": op.Entry, "ll": op.LL, "gl": op.GL, "written": w.n > 0, "nwrites": w.n, "wlevel": wl,
		"panicked": panicked, "pmsg": pmsg, "hookruns": hooks,
		"scallsadmit": ca, "writtenadmit": wa.n, "scallsreject": cr, "writtenreject": wr.n}
}

type recObj struct{ calls *int }

func (o recObj) MarshalZerologObject(e *zerolog.Event) { *o.calls++ }

// recErr is an error that is also an object marshaler: any use of it by a filtered event is observable
type recErr struct{ calls *int }

func (o recErr) Error() string                         { return "recErr" }
func (o recErr) MarshalZerologObject(e *zerolog.Event) { *o.calls++ }

type recStringer struct{ calls *int }

func (o recStringer) String() string { return "s" }

type recArr struct{ calls *int }

func (o recArr) MarshalZerologArray(a *zerolog.Array) { *o.calls++ }

// gateNil calls every exported method of a filtered (nil) *Event, enumerated by reflection.
func gateNil(out *rec) {
	calls := 0
	w := &lvlW{}
	// the process-wide marshal functions are callbacks too
	oe, oi, os_ := zerolog.ErrorMarshalFunc, zerolog.InterfaceMarshalFunc, zerolog.ErrorStackMarshaler
	zerolog.ErrorMarshalFunc = func(err error) interface{} { calls++; return err }
	zerolog.InterfaceMarshalFunc = func(v interface{}) ([]byte, error) { calls++; return []byte("null"), nil }
	zerolog.ErrorStackMarshaler = func(err error) interface{} { calls++; return nil }
	defer func() {
		zerolog.ErrorMarshalFunc, zerolog.InterfaceMarshalFunc, zerolog.ErrorStackMarshaler = oe, oi, os_
	}()
	lg := zerolog.New(w).Level(zerolog.Disabled).Hook(countHook{&calls})
	ev := lg.Info()
	rv := reflect.ValueOf(ev)
	rt := rv.Type()
	tObj := reflect.TypeOf((*zerolog.LogObjectMarshaler)(nil)).Elem()
	tArr := reflect.TypeOf((*zerolog.LogArrayMarshaler)(nil)).Elem()
	tCtx := reflect.TypeOf((*context.Context)(nil)).Elem()
	tErr := reflect.TypeOf((*error)(nil)).Elem()
	tStr := reflect.TypeOf((*fmt.Stringer)(nil)).Elem()
	// the aftermath of a no-op: an event logged AFTER the filtered call, built from fresh zerolog.Arr() / zerolog.Dict()
	// values, must be byte-identical to the same event logged before anything was filtered (what a filtered call was
	// handed goes back to its pool as if it had never been used)
	var pw bytes.Buffer
	probeLg := zerolog.New(&pw)
	probe := func() string {
		pw.Reset()
		probeLg.Info().Array("a", zerolog.Arr().Str("x").Int(0)).Dict("d", zerolog.Dict().Str("y", "z")).
			Array("e", zerolog.Arr()).Dict("f", zerolog.Dict()).Msg("probe")
		return pw.String()
	}
	ref := probe()
	for i := 0; i < 2*rt.NumMethod(); i++ {
		variant := i / rt.NumMethod() // 0: recording user types; 1: the library's own pooled builders, not empty
		i := i % rt.NumMethod()
		name := rt.Method(i).Name
		m := rv.Method(i)
		mt := m.Type()
		var args []reflect.Value
		for j := 0; j < mt.NumIn(); j++ {
			pt := mt.In(j)
			if mt.IsVariadic() && j == mt.NumIn()-1 {
				break
			}
			switch {
			case pt == tObj:
				var o zerolog.LogObjectMarshaler = recObj{&calls}
				args = append(args, reflect.ValueOf(&o).Elem())
			case pt == tArr:
				var o zerolog.LogArrayMarshaler = recArr{&calls}
				if variant == 1 {
					o = zerolog.Arr().Str("stale").Int(-1)
				}
				args = append(args, reflect.ValueOf(&o).Elem())
			case pt == tCtx:
				c := context.Background()
				args = append(args, reflect.ValueOf(&c).Elem())
			case pt == tErr:
				var e error = recErr{&calls}
				args = append(args, reflect.ValueOf(&e).Elem())
			case pt == tStr:
				var st fmt.Stringer = recStringer{&calls}
				args = append(args, reflect.ValueOf(&st).Elem())
			case pt.Kind() == reflect.Slice && pt.Elem() == tErr:
				args = append(args, reflect.ValueOf([]error{recErr{&calls}, recErr{&calls}}))
			case pt.Kind() == reflect.Slice && pt.Elem() == tStr:
				args = append(args, reflect.ValueOf([]fmt.Stringer{recStringer{&calls}}))
			case pt.Kind() == reflect.Slice:
				sl := reflect.MakeSlice(pt, 2, 2) // non-empty typed slices: loops over elements run if unguarded
				args = append(args, sl)
			case pt.Kind() == reflect.Func:
				fn := reflect.MakeFunc(pt, func(in []reflect.Value) []reflect.Value {
					calls++
					outs := make([]reflect.Value, pt.NumOut())
					for k := range outs {
						outs[k] = reflect.Zero(pt.Out(k))
					}
					return outs
				})
				args = append(args, fn)
			case pt == reflect.TypeOf((*zerolog.Event)(nil)):
				d := zerolog.Dict()
				if variant == 1 {
					d = d.Str("stale", "1").Int("n", -1)
				}
				args = append(args, reflect.ValueOf(d))
			case pt.Kind() == reflect.Interface:
				x := interface{}(map[string]interface{}{"a": 1})
				if name == "Fields" {
					x = map[string]interface{}{"o": recObj{&calls}, "e": recErr{&calls}, "es": []error{recErr{&calls}}}
				}
				args = append(args, reflect.ValueOf(&x).Elem())
			default:
				args = append(args, reflect.Zero(pt))
			}
		}
		before := calls + w.n
		pan := ""
		neutral := true
		func() {
			defer func() {
				if x := recover(); x != nil {
					pan = fmt.Sprint(x)
				}
			}()
			res := m.Call(args)
			for _, r := range res {
				switch v := r.Interface().(type) {
				case *zerolog.Event:
					neutral = neutral && v == nil
				case bool:
					neutral = neutral && !v
				case context.Context:
					neutral = neutral && v == context.Background()
				}
			}
		}()
		ncalls := calls + w.n - before
		out.emit(map[string]interface{}{"a": "Nil", "m": name, "variant": variant, "calls": ncalls, "panic": pan, "neutral": neutral, "after": probe() == ref})
	}
}

// funcHook calls e.Func from inside a hook (a hook may run after another hook has discarded the event)
type funcHook struct{ calls *int }

func (h funcHook) Run(e *zerolog.Event, l zerolog.Level, m string) {
	e.Func(func(*zerolog.Event) { *h.calls++ })
}

type discardHook struct{}

func (discardHook) Run(e *zerolog.Event, l zerolog.Level, m string) { e.Discard() }

// gateDiscarded: an event that was ENABLED when it was created and then discarded (by its owner, or by an earlier hook) is
// not written, reports Enabled() == false, and Func - "runs only if the event is enabled" - does not run its callback.
func gateDiscarded(out *rec) {
	for _, how := range []string{"owner", "hook"} {
		for _, fin := range []string{"Msg", "Msgf", "Send", "MsgFunc"} {
			calls := 0
			w := &lvlW{}
			lg := zerolog.New(w)
			if how == "hook" {
				lg = lg.Hook(discardHook{}, funcHook{&calls})
			}
			e := lg.Info().Str("k", "v")
			enabled := true
			if how == "owner" {
				e.Discard()
				enabled = e.Enabled()
				e.Func(func(*zerolog.Event) { calls++ })
			}
			switch fin {
			case "Msg":
				e.Msg("m")
			case "Msgf":
				e.Msgf("m%d", 1)
			case "Send":
				e.Send()
			case "MsgFunc":
				e.MsgFunc(func() string { return "m" })
			}
			if how == "hook" {
				enabled = false // the discarding hook ran inside the finalizer; what is observable is the callback count and the write count
			}
			out.emit(map[string]interface{}{"a": "Disc", "how": how, "fin": fin, "calls": calls, "written": w.n, "enabled": enabled})
		}
	}
	// the chain continues on what Discard() RETURNS (the documented form: log.Info().Discard().Msg(...)): a filtered event like
	// any other - no hook, no MsgFunc / Func callback, no marshaler, no write, and a Panic event that was discarded does not panic
	for _, entry := range []string{"Info", "Panic", "WithLevelFatal"} {
		for _, fin := range []string{"Msg", "Msgf", "Send", "MsgFunc"} {
			calls := 0
			w := &lvlW{}
			lg := zerolog.New(w).Hook(countHook{&calls})
			var e *zerolog.Event
			switch entry {
			case "Info":
				e = lg.Info()
			case "Panic":
				e = lg.Panic()
			default:
				e = lg.WithLevel(zerolog.FatalLevel)
			}
			func() {
				defer func() {
					if recover() != nil {
						calls += 1000
					}
				}()
				d := e.Str("k", "v").Discard()
				enabled := d.Enabled()
				d = d.Func(func(*zerolog.Event) { calls++ }).Object("o", countObj{&calls}).Stringer("s", countStr{&calls})
				switch fin {
				case "Msg":
					d.Msg("m")
				case "Msgf":
					d.Msgf("m%v", countStr{&calls})
				case "Send":
					d.Send()
				case "MsgFunc":
					d.MsgFunc(func() string { calls++; return "m" })
				}
				out.emit(map[string]interface{}{"a": "Disc", "how": "chain-" + entry, "fin": fin, "calls": calls, "written": w.n, "enabled": enabled})
			}()
		}
	}
}

type countObj struct{ calls *int }

func (o countObj) MarshalZerologObject(e *zerolog.Event) { *o.calls++ }

type countStr struct{ calls *int }

func (o countStr) String() string { *o.calls++; return "s" }

type closeW struct{ f *os.File }

func (w closeW) Write(p []byte) (int, error) { return w.f.Write(p) }
func (w closeW) Close() error                { w.f.WriteString("CLOSED\n"); return w.f.Close() }

func fatalChild(mode, path string) {
	f, err := os.Create(path)
	if err != nil {
		os.Exit(97)
	}
	lg := zerolog.New(closeW{f})
	if mode == "filtered" {
		lg = lg.Level(zerolog.Disabled)
	}
	lg.Fatal().Msg("m")
	os.Exit(98) // not reached if Fatal exits
}

func gateFatal(filtered bool) map[string]interface{} {
	tmp, _ := os.CreateTemp("", "verif-fatal-*")
	tmp.Close()
	defer os.Remove(tmp.Name())
	mode := "enabled"
	if filtered {
		mode = "filtered"
	}
	cmd := exec.Command(os.Args[0])
	cmd.Env = append(os.Environ(), "VERIF_FATAL_CHILD="+mode, "VERIF_FATAL_FILE="+tmp.Name())
	err := cmd.Run()
	code := 0
	if ee, ok := err.(*exec.ExitError); ok {
		code = ee.ExitCode()
	} else if err != nil {
		code = -1
	}
	data, _ := os.ReadFile(tmp.Name())
	lines := strings.Split(strings.TrimSuffix(string(data), "\n"), "\n")
	n, closed := 0, false
	for _, ln := range lines {
		if ln == "CLOSED" {
			closed = true
		} else if ln != "" {
			n++
		}
	}
	return map[string]interface{}{"a": "Fatal", "filtered": filtered, "exit": code, "nwrites": n, "closed": closed}
}
