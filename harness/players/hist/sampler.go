package main

import (
	"encoding/json"
	"errors"
	"fmt"
	"hash/crc32"
	"time"

	"github.com/rs/zerolog"
)

type samplerNode struct {
	Kind  string `json:"kind"`
	N     uint32 `json:"n"`
	B     uint32 `json:"b"`
	Per   int64  `json:"per"`
	Next  int    `json:"next"`
	Slots []int  `json:"slots"`
}

type samplerConf struct {
	Name  string        `json:"name"`
	Kind  string        `json:"kind"`
	Nodes []samplerNode `json:"nodes"`
	Root  int           `json:"root"`
	LL    int           `json:"ll"`
	GL    int           `json:"gl"`
}

type samplerOp struct {
	A   string `json:"a"`
	Lvl int    `json:"lvl"`
	Now int64  `json:"now"`
	Adm bool   `json:"adm"`
}

type samplerFam struct{ confs map[string]*samplerConf }

func init() { families["sampler"] = &samplerFam{confs: map[string]*samplerConf{}} }

func (f *samplerFam) define(raw json.RawMessage) error {
	var c samplerConf
	if err := json.Unmarshal(raw, &c); err != nil {
		return err
	}
	f.confs[c.Name] = &c
	return nil
}

// build makes fresh real sampler instances for the configuration (ids are 1-based).
func buildSampler(c *samplerConf, id int, memo map[int]zerolog.Sampler) zerolog.Sampler {
	if id == 0 {
		return nil
	}
	if s, ok := memo[id]; ok {
		return s
	}
	n := c.Nodes[id-1]
	var s zerolog.Sampler
	switch n.Kind {
	case "basic":
		s = &zerolog.BasicSampler{N: n.N}
	case "burst":
		b := &zerolog.BurstSampler{Burst: n.B, Period: time.Duration(n.Per)}
		if nx := buildSampler(c, n.Next, memo); nx != nil {
			b.NextSampler = nx
		}
		s = b
	case "level":
		ls := zerolog.LevelSampler{}
		set := func(dst *zerolog.Sampler, id int) {
			if x := buildSampler(c, id, memo); x != nil {
				*dst = x
			}
		}
		set(&ls.TraceSampler, n.Slots[0])
		set(&ls.DebugSampler, n.Slots[1])
		set(&ls.InfoSampler, n.Slots[2])
		set(&ls.WarnSampler, n.Slots[3])
		set(&ls.ErrorSampler, n.Slots[4])
		s = ls
	default:
		panic("unknown sampler kind " + n.Kind)
	}
	memo[id] = s
	return s
}

type countW struct{ n int }

func (w *countW) Write(p []byte) (int, error) { w.n++; return len(p), nil }

func (f *samplerFam) play(l *Line, out *rec) error {
	c := f.confs[l.Conf]
	if c == nil {
		return fmt.Errorf("unknown conf %q", l.Conf)
	}
	var now int64
	oldTS := zerolog.TimestampFunc
	zerolog.TimestampFunc = func() time.Time { return time.Unix(0, now) }
	defer func() {
		zerolog.TimestampFunc = oldTS
		zerolog.DisableSampling(false)
		zerolog.SetGlobalLevel(zerolog.TraceLevel)
	}()
	root := buildSampler(c, c.Root, map[int]zerolog.Sampler{})
	out.emit(map[string]interface{}{"a": "Reset", "conf": c.Name, "id": l.ID})
	w := &countW{}
	var logger zerolog.Logger
	built := false
	build := func() {
		// built at the first event, not before: in histories that begin with Toggle the logger gets its sampler while sampling
		// is globally disabled (or just re-enabled) - what DisableSampling says when a logger is BUILT must not matter later
		if built || c.Kind != "logger" {
			return
		}
		built = true
		logger = zerolog.New(w).Level(zerolog.Level(c.LL))
		if crc32.ChecksumIEEE([]byte(l.ID))%3 == 1 {
			// one history in three: the logger descends from a silenced one (a package-level logger switched off, a request logger
			// switched on again): Level only sets the level - the descendant is sampled like any other logger
			logger = zerolog.New(w).Level(zerolog.Disabled)
			if root != nil {
				logger = logger.Sample(root)
			}
			logger = logger.With().Logger().Level(zerolog.Level(c.LL))
		} else if root != nil {
			logger = logger.Sample(root)
		}
	}
	if c.Kind == "logger" {
		zerolog.SetGlobalLevel(zerolog.Level(c.GL))
	}
	for opi, raw := range l.Ops {
		var op samplerOp
		if err := json.Unmarshal(raw, &op); err != nil {
			return err
		}
		now = op.Now
		switch op.A {
		case "Call":
			adm := root.Sample(zerolog.Level(op.Lvl))
			out.emit(samplerOp{A: "Call", Lvl: op.Lvl, Now: op.Now, Adm: adm})
		case "Log":
			build()
			before := w.n
			logVia(&logger, zerolog.Level(op.Lvl), opi)
			out.emit(samplerOp{A: "Log", Lvl: op.Lvl, Now: op.Now, Adm: w.n == before+1})
			if w.n > before+1 {
				out.emit(map[string]interface{}{"a": "ExtraWrite", "n": w.n - before})
			}
			if crc32.ChecksumIEEE([]byte(l.ID))%4 == 2 {
				// a child that takes the sampler OFF again - Sample(nil) - is an unsampled logger: what passes the levels is written,
				// and the parent's sampler never hears of it (its later decisions are what they would have been)
				b2 := w.n
				child := logger.Sample(nil)
				child.Log().Msg("u")
				out.emit(map[string]interface{}{"a": "Unsampled", "lvl": int(zerolog.NoLevel), "written": w.n - b2})
			}
		case "Toggle":
			zerolog.DisableSampling(op.Adm)
			out.emit(samplerOp{A: "Toggle", Adm: op.Adm})
		default:
			return fmt.Errorf("unknown op %q", op.A)
		}
	}
	return nil
}

// logVia sends one event of the given level through one of the entry points that exist for that level (rotating with the
// position in the history): each consults the sampler exactly once per event.
func logVia(l *zerolog.Logger, lvl zerolog.Level, i int) {
	switch lvl {
	case zerolog.DebugLevel:
		switch i % 5 {
		case 0:
			l.Debug().Msg("x")
		case 1:
			l.Print("x")
		case 2:
			l.Printf("x%d", 1)
		case 3:
			l.Println("x")
		default:
			l.WithLevel(lvl).Msg("x")
		}
	case zerolog.TraceLevel:
		if i%2 == 0 {
			l.Trace().Msg("x")
		} else {
			l.WithLevel(lvl).Msg("x")
		}
	case zerolog.InfoLevel:
		switch i % 3 {
		case 0:
			l.Info().Msg("x")
		case 1:
			l.Err(nil).Msg("x")
		default:
			l.WithLevel(lvl).Send()
		}
	case zerolog.WarnLevel:
		if i%2 == 0 {
			l.Warn().Msgf("x%d", 1)
		} else {
			l.WithLevel(lvl).Msg("x")
		}
	case zerolog.ErrorLevel:
		switch i % 3 {
		case 0:
			l.Error().Msg("x")
		case 1:
			l.Err(errors.New("e")).Msg("x")
		default:
			l.WithLevel(lvl).Msg("x")
		}
	case zerolog.NoLevel:
		switch i % 3 {
		case 0:
			l.Log().Msg("x")
		case 1:
			l.Write([]byte("x")) // the io.Writer adapter (stdlog.SetOutput(logger)): one event, one consultation
		default:
			l.WithLevel(lvl).Msg("x")
		}
	default:
		l.WithLevel(lvl).Msg("x")
	}
}
