package main

import (
	"encoding/json"
	"fmt"
	"time"

	"github.com/rs/zerolog"
)

type samplerNode struct {
	Kind  string `json:"kind"`
	N     uint32 `json:"n"`
	B     uint32 `json:"b"`
	Per   int64  `json:"per"`
	Next  int    `json:"next"`
	Slots []int  `json:"slots"`
}

type samplerConf struct {
	Name  string        `json:"name"`
	Kind  string        `json:"kind"`
	Nodes []samplerNode `json:"nodes"`
	Root  int           `json:"root"`
	LL    int           `json:"ll"`
	GL    int           `json:"gl"`
}

type samplerOp struct {
	A   string `json:"a"`
	Lvl int    `json:"lvl"`
	Now int64  `json:"now"`
	Adm bool   `json:"adm"`
}

type samplerFam struct{ confs map[string]*samplerConf }

func init() { families["sampler"] = &samplerFam{confs: map[string]*samplerConf{}} }

func (f *samplerFam) define(raw json.RawMessage) error {
	var c samplerConf
	if err := json.Unmarshal(raw, &c); err != nil {
		return err
	}
	f.confs[c.Name] = &c
	return nil
}

// build makes fresh real sampler instances for the configuration (ids are 1-based).
func buildSampler(c *samplerConf, id int, memo map[int]zerolog.Sampler) zerolog.Sampler {
	if id == 0 {
		return nil
	}
	if s, ok := memo[id]; ok {
		return s
	}
	n := c.Nodes[id-1]
	var s zerolog.Sampler
	switch n.Kind {
	case "basic":
		s = &zerolog.BasicSampler{N: n.N}
	case "burst":
		b := &zerolog.BurstSampler{Burst: n.B, Period: time.Duration(n.Per)}
		if nx := buildSampler(c, n.Next, memo); nx != nil {
			b.NextSampler = nx
		}
		s = b
	case "level":
		ls := zerolog.LevelSampler{}
		set := func(dst *zerolog.Sampler, id int) {
			if x := buildSampler(c, id, memo); x != nil {
				*dst = x
			}
		}
		set(&ls.TraceSampler, n.Slots[0])
		set(&ls.DebugSampler, n.Slots[1])
		set(&ls.InfoSampler, n.Slots[2])
		set(&ls.WarnSampler, n.Slots[3])
		set(&ls.ErrorSampler, n.Slots[4])
		s = ls
	default:
		panic("unknown sampler kind " + n.Kind)
	}
	memo[id] = s
	return s
}

type countW struct{ n int }

func (w *countW) Write(p []byte) (int, error) { w.n++; return len(p), nil }

func (f *samplerFam) play(l *Line, out *rec) error {
	c := f.confs[l.Conf]
	if c == nil {
		return fmt.Errorf("unknown conf %q", l.Conf)
	}
	var now int64
	oldTS := zerolog.TimestampFunc
	zerolog.TimestampFunc = func() time.Time { return time.Unix(0, now) }
	defer func() {
		zerolog.TimestampFunc = oldTS
		zerolog.DisableSampling(false)
		zerolog.SetGlobalLevel(zerolog.TraceLevel)
	}()
	root := buildSampler(c, c.Root, map[int]zerolog.Sampler{})
	out.emit(map[string]interface{}{"a": "Reset", "conf": c.Name, "id": l.ID})
	w := &countW{}
	var logger zerolog.Logger
	if c.Kind == "logger" {
		logger = zerolog.New(w).Level(zerolog.Level(c.LL))
		if root != nil {
			logger = logger.Sample(root)
		}
		zerolog.SetGlobalLevel(zerolog.Level(c.GL))
	}
	for _, raw := range l.Ops {
		var op samplerOp
		if err := json.Unmarshal(raw, &op); err != nil {
			return err
		}
		now = op.Now
		switch op.A {
		case "Call":
			adm := root.Sample(zerolog.Level(op.Lvl))
			out.emit(samplerOp{A: "Call", Lvl: op.Lvl, Now: op.Now, Adm: adm})
		case "Log":
			before := w.n
			logger.WithLevel(zerolog.Level(op.Lvl)).Msg("x")
			out.emit(samplerOp{A: "Log", Lvl: op.Lvl, Now: op.Now, Adm: w.n == before+1})
			if w.n > before+1 {
				out.emit(map[string]interface{}{"a": "ExtraWrite", "n": w.n - before})
			}
		case "Toggle":
			zerolog.DisableSampling(op.Adm)
			out.emit(samplerOp{A: "Toggle", Adm: op.Adm})
		default:
			return fmt.Errorf("unknown op %q", op.A)
		}
	}
	return nil
}
