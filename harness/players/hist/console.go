package main

import (
	"bytes"
	"encoding/base64"
	"encoding/json"
	"errors"
	"fmt"
	"math"
	"os"
	"path/filepath"
	"strconv"
	"strings"
	"time"

	"github.com/rs/zerolog"
)

// C16: ConsoleWriter. Each case = member names (with a value class each) + configuration; the event is
// produced by the real JSON logger, rendered by the real ConsoleWriter (colour off), and the output line
// is parsed back into the unit names it is made of, using reference renderings of every unit that are
// computed here from the logged values with the standard library only.
type consoleFam struct{}

func init() { families["console"] = &consoleFam{} }

func (f *consoleFam) define(raw json.RawMessage) error { return nil }

type consCfg struct {
	Parts  []string `json:"parts"`
	PExcl  []string `json:"pexcl"`
	FOrder []string `json:"forder"`
	FExcl  []string `json:"fexcl"`
}

type consCase struct {
	Raw  string   `json:"raw"` // base64 of an event line produced elsewhere (the C01 generator): only success/length/determinism are judged
	Ev   []string `json:"ev"`
	VC   []string `json:"vc"` // value class per member
	Cfg  consCfg  `json:"cfg"`
	Deft bool     `json:"defaultparts"`
	Ren  bool     `json:"rename"` // the global field names are changed (after package init) to ts / lvl / src / msg / err; only with defaultparts
	TSet int      `json:"tset"`   // index into tsets: TimeFieldFormat (global), ConsoleWriter.TimeFormat and .TimeLocation
}

// tset: one combination of the settings that decide how the time part is rendered. The contract is independent of how
// ConsoleWriter parses the field back: the part shows the INSTANT that was logged (at the resolution TimeFieldFormat keeps)
// in TimeLocation, laid out by TimeFormat (Kitchen when empty).
type tset struct {
	tff    string         // zerolog.TimeFieldFormat while the event is logged and rendered
	layout string         // ConsoleWriter.TimeFormat
	loc    *time.Location // ConsoleWriter.TimeLocation
}

var tsets = []tset{
	{time.RFC3339, "", time.UTC},
	{time.RFC3339, time.RFC3339, time.FixedZone("east", 2*3600)},
	{zerolog.TimeFormatUnix, "", time.UTC},
	{zerolog.TimeFormatUnixMs, "15:04:05.000", time.UTC},
	{zerolog.TimeFormatUnixMicro, time.RFC3339Nano, time.FixedZone("west", -7*3600)},
	{zerolog.TimeFormatUnixNano, time.StampNano, time.UTC},
	{time.RFC3339Nano, "2006-01-02 15:04:05.000000000 -0700", time.FixedZone("half", 5*3600+1800)},
}

var realTimes = []time.Time{
	time.Date(2001, 2, 3, 4, 5, 6, 123456789, time.UTC),
	time.Date(1969, 12, 31, 23, 59, 58, 999999999, time.UTC),
	time.Date(2038, 1, 19, 3, 14, 8, 1000, time.FixedZone("x", 3600)),
	time.Unix(0, 0).UTC(),
}

// timeReal marks a member logged with Event.Time: the expected text is computed from the instant itself.
type timeReal struct{ t time.Time }

var curTset = tsets[0]

var fmtLevels = map[string]string{"trace": "TRC", "debug": "DBG", "info": "INF", "warn": "WRN", "error": "ERR", "fatal": "FTL", "panic": "PNC"}

func needsQuoteRef(s string) bool {
	for i := 0; i < len(s); i++ {
		if s[i] < 0x20 || s[i] > 0x7e || s[i] == ' ' || s[i] == '\\' || s[i] == '"' {
			return true
		}
	}
	return false
}

// addField logs member name with a value of class vc and returns the value as ConsoleWriter will decode it.
func addField(e *zerolog.Event, name, vc string, i int) (*zerolog.Event, interface{}) {
	switch vc {
	case "plain":
		v := fmt.Sprintf("v%d", i)
		return e.Str(name, v), v
	case "quote":
		// ... also with the offending rune FIRST (and nothing else to quote for)
		v := []string{"two words", "q\"uote", "back\\slash", "tab\there", "café", "", "line\nbreak", "del\x7fdel", "tilde~tilde", "u80\u0080", "us\x1f",
			"\tb", "été", "\x1b[31mred", "\nnext=line", "\x7fd"}[i%16]
		return e.Str(name, v), v
	case "int":
		v := []int64{0, -7, 9007199254740993, 42}[i%4]
		return e.Int64(name, v), json.Number(strconv.FormatInt(v, 10))
	case "floatexp":
		return e.Float64(name, 1e21), json.Number("1e+21")
	case "numtok": // number tokens whose digits a numeric round trip would not give back: they must appear verbatim
		switch i % 12 {
		case 0:
			return e.Float64(name, math.Copysign(0, -1)), json.Number("-0")
		case 1:
			return e.Float32(name, float32(math.Copysign(0, -1))), json.Number("-0")
		case 2:
			return e.Uint64(name, math.MaxUint64), json.Number("18446744073709551615")
		case 3:
			return e.Int64(name, math.MinInt64), json.Number("-9223372036854775808")
		case 4:
			return e.Float64(name, 1e-7), json.Number("1e-7")
		case 5:
			return e.Float64(name, -1.5e300), json.Number("-1.5e+300")
		case 6:
			return e.Float32(name, 0.1), json.Number("0.1")
		default:
			tok := []string{"-0.0", "1E2", "1.0", "0.10", "-0e0"}[i%12-7]
			return e.RawJSON(name, []byte(tok)), json.Number(tok)
		}
	case "bool":
		return e.Bool(name, i%2 == 0), i%2 == 0
	case "null":
		return e.Interface(name, nil), nil
	case "obj":
		// a nested number beyond 2^53 and a float with more digits than float64 prints: both survive only with UseNumber
		return e.Dict(name, zerolog.Dict().Int64("b", 9007199254740993).Str("a", "x y").RawJSON("c", []byte("0.12345678901234567890"))),
			map[string]interface{}{"b": json.Number("9007199254740993"), "a": "x y", "c": json.Number("0.12345678901234567890")}
	case "arr":
		return e.Ints(name, []int{1, 2}), []interface{}{json.Number("1"), json.Number("2")}
	case "objpct": // characters that are special to formatting verbs, quoting and escaping, inside a nested value
		return e.Dict(name, zerolog.Dict().Str("pct", "100% %d %s").Str("k%v", "a%%b")), map[string]interface{}{"pct": "100% %d %s", "k%v": "a%%b"}
	case "arrpct":
		return e.Strs(name, []string{"50%", "%!s(x)", "a\\b"}), []interface{}{"50%", "%!s(x)", "a\\b"}
	case "pct":
		v := []string{"100%", "%d", "%%"}[i%3]
		return e.Str(name, v), v
	case "lvl-info":
		return e.Str(name, "info"), "info"
	case "lvl-warn":
		return e.Str(name, "warn"), "warn"
	case "lvl-custom":
		return e.Str(name, "custom"), "custom"
	case "lvl-num":
		return e.Int(name, 3), json.Number("3")
	case "time-real":
		t := realTimes[i%len(realTimes)]
		return e.Time(name, t), timeReal{t}
	case "time-rfc":
		return e.Str(name, "2001-02-03T04:05:06Z"), "2001-02-03T04:05:06Z"
	case "time-bad":
		return e.Str(name, "yesterday"), "yesterday"
	case "time-unix":
		return e.Int64(name, 981173106), json.Number("981173106")
	case "msg":
		switch i % 7 {
		case 5: // the member under the message key need not be a string (Int("message", 42).Msg("")): a number keeps its digits
			return e.Int64(name, 42), json.Number("42")
		case 6:
			return e.Float64(name, 1.5), json.Number("1.5")
		}
		v := []string{"hello", "hello world", "m\"q", " ", "\t"}[i%7%5]
		return e.Str(name, v), v
	case "caller":
		return e.Str(name, "/nonexistent/dir/file.go:12"), "/nonexistent/dir/file.go:12"
	}
	panic("unknown value class " + vc)
}

func fieldText(v interface{}) string {
	switch x := v.(type) {
	case string:
		if needsQuoteRef(x) {
			return strconv.Quote(x)
		}
		return x
	case json.Number:
		return string(x)
	default:
		b, _ := json.Marshal(x)
		return string(b)
	}
}

func partText(p string, v interface{}, present bool) string {
	switch p {
	case "level":
		if !present || v == nil {
			return "???"
		}
		s, ok := v.(string)
		if !ok {
			s = fmt.Sprintf("%s", v)
		}
		if fl, ok := fmtLevels[s]; ok {
			return fl
		}
		if len(s) == 0 {
			return "???"
		}
		if len(s) > 3 {
			s = s[:3]
		}
		return strings.ToUpper(s)
	case "time":
		if !present {
			return "<nil>"
		}
		switch x := v.(type) {
		case timeReal:
			ts := curTset
			layout := ts.layout
			if layout == "" {
				layout = time.Kitchen
			}
			// the instant the JSON field carries: a layout without fraction and Unix seconds drop the fraction (floor);
			// the millisecond / microsecond forms divide UnixNano (integer division, toward zero); the others are exact
			at := x.t
			ns := x.t.UnixNano()
			switch ts.tff {
			case time.RFC3339:
				at = x.t.Truncate(time.Second)
			case zerolog.TimeFormatUnix:
				at = time.Unix(x.t.Unix(), 0)
			case zerolog.TimeFormatUnixMs:
				at = time.Unix(0, ns/1000000*1000000)
			case zerolog.TimeFormatUnixMicro:
				at = time.Unix(0, ns/1000*1000)
			}
			return at.In(ts.loc).Format(layout)
		case string:
			t, err := time.ParseInLocation(time.RFC3339, x, time.UTC)
			if err != nil {
				return x
			}
			return t.In(time.UTC).Format(time.Kitchen)
		case json.Number:
			n, _ := x.Int64()
			return time.Unix(n, 0).In(time.UTC).Format(time.Kitchen)
		}
		return "<nil>"
	case "message":
		return fmt.Sprintf("%s", v)
	case "caller":
		c, _ := v.(string)
		if cwd, err := os.Getwd(); err == nil {
			if rel, err := filepath.Rel(cwd, c); err == nil {
				c = rel
			}
		}
		return c + " >"
	}
	return fmt.Sprintf("%s", v) // custom part: %s of the decoded value
}

// parseUnits explains line as parts (texts from pt) followed by fields (texts from ft), separated by single spaces.
func parseUnits(line string, partOrder []string, pt map[string]string, ft map[string]string) (parts, fields []string, ok bool) {
	var rec func(pos int, inFields bool, usedP map[string]bool, usedF map[string]bool) bool
	rec = func(pos int, inFields bool, usedP, usedF map[string]bool) bool {
		if pos == len(line) {
			return true
		}
		if pos > 0 {
			if line[pos] != ' ' {
				return false
			}
			pos++
		}
		try := func(name, text string, isField bool) bool {
			if text == "" || !strings.HasPrefix(line[pos:], text) {
				return false
			}
			end := pos + len(text)
			if end != len(line) && line[end] != ' ' {
				return false
			}
			if isField {
				usedF[name] = true
				fields = append(fields, name)
				if rec(end, true, usedP, usedF) {
					return true
				}
				fields = fields[:len(fields)-1]
				delete(usedF, name)
			} else {
				usedP[name] = true
				parts = append(parts, name)
				if rec(end, false, usedP, usedF) {
					return true
				}
				parts = parts[:len(parts)-1]
				delete(usedP, name)
			}
			return false
		}
		if !inFields {
			for _, p := range partOrder {
				if !usedP[p] && try(p, pt[p], false) {
					return true
				}
			}
		}
		for name, text := range ft {
			if !usedF[name] && try(name, text, true) {
				return true
			}
		}
		return false
	}
	ok = rec(0, false, map[string]bool{}, map[string]bool{})
	return
}

// failingOut is a destination that rejects (error) or truncates (short count) what ConsoleWriter hands it.
type failingOut struct{ short bool }

func (f failingOut) Write(p []byte) (int, error) {
	if f.short {
		return len(p) / 2, nil
	}
	return 0, errors.New("destination down")
}

// poison: a ConsoleWriter Write that FAILS - its destination errors or accepts only part, or FormatExtra refuses the
// event - right before the measured case. ConsoleWriter's scratch buffers are pooled package-wide: whatever the failed
// Write leaves behind must not show up in the next event's line ("the same event and configuration always give the same bytes").
func poison(mode int) {
	ev := []byte(`{"level":"warn","message":"STALE stale","secret":"s3cr3t"}` + "\n")
	switch mode % 4 {
	case 3:
		// another writer that lives at the same time and rearranges ITS OWN default parts in place
		w := zerolog.NewConsoleWriter(func(w *zerolog.ConsoleWriter) {
			w.Out, w.NoColor = &bytes.Buffer{}, true
			if len(w.PartsOrder) > 1 {
				w.PartsOrder[0], w.PartsOrder[1] = w.PartsOrder[1], w.PartsOrder[0]
			}
		})
		w.Write(ev)
	case 0:
		zerolog.ConsoleWriter{Out: failingOut{}, NoColor: true}.Write(ev)
	case 1:
		zerolog.ConsoleWriter{Out: failingOut{short: true}, NoColor: true}.Write(ev)
	case 2:
		zerolog.ConsoleWriter{Out: &bytes.Buffer{}, NoColor: true, FormatExtra: func(map[string]interface{}, *bytes.Buffer) error {
			return errors.New("extra refused")
		}}.Write(ev)
	}
}

// renamed: canonical member name -> the name it has while the global field names are changed
var renamed = map[string]string{"time": "ts", "level": "lvl", "caller": "src", "message": "msg", "error": "err"}

func actual(ren bool, name string) string {
	if r, ok := renamed[name]; ren && ok {
		return r
	}
	return name
}

func actuals(ren bool, names []string) []string {
	if names == nil {
		return nil
	}
	out := make([]string, len(names))
	for i, n := range names {
		out[i] = actual(ren, n)
	}
	return out
}

func (f *consoleFam) play(l *Line, out *rec) error {
	out.emit(map[string]interface{}{"a": "Reset", "id": l.ID})
	for ci, raw := range l.Ops {
		var c consCase
		if err := json.Unmarshal(raw, &c); err != nil {
			return err
		}
		if ci%3 == 0 {
			poison(ci / 3)
		}
		if c.Raw != "" {
			inb, _ := base64.StdEncoding.DecodeString(c.Raw)
			var o1, o2 bytes.Buffer
			n, err := zerolog.ConsoleWriter{Out: &o1, NoColor: true, TimeLocation: time.UTC}.Write(inb)
			zerolog.ConsoleWriter{Out: &o2, NoColor: true, TimeLocation: time.UTC}.Write(inb)
			errs := ""
			if err != nil {
				errs = err.Error()
			}
			line := o1.String()
			out.emit(map[string]interface{}{"a": "Raw", "n": n, "inlen": len(inb), "err": errs, "same": bytes.Equal(o1.Bytes(), o2.Bytes()),
				"oneline": strings.HasSuffix(line, "\n") && strings.Count(line, "\n") == 1, "endsnl": strings.HasSuffix(line, "\n")})
			continue
		}
		curTset = tsets[c.TSet%len(tsets)]
		oldTFF := zerolog.TimeFieldFormat
		zerolog.TimeFieldFormat = curTset.tff
		ren := c.Ren && c.Deft
		oTS, oLV, oCA, oMS, oER := zerolog.TimestampFieldName, zerolog.LevelFieldName, zerolog.CallerFieldName, zerolog.MessageFieldName, zerolog.ErrorFieldName
		if ren {
			zerolog.TimestampFieldName, zerolog.LevelFieldName, zerolog.CallerFieldName, zerolog.MessageFieldName, zerolog.ErrorFieldName =
				renamed["time"], renamed["level"], renamed["caller"], renamed["message"], renamed["error"]
		}
		var in bytes.Buffer
		lg := zerolog.New(&in)
		e := lg.Log()
		vals := map[string]interface{}{}
		for i, name := range c.Ev {
			var v interface{}
			e, v = addField(e, actual(ren, name), c.VC[i], ci+i)
			vals[name] = v // last value wins
		}
		e.Send()
		mk := func(o *bytes.Buffer) zerolog.ConsoleWriter {
			set := func(w *zerolog.ConsoleWriter) {
				w.Out, w.NoColor, w.TimeLocation, w.TimeFormat = o, true, curTset.loc, curTset.layout
				w.PartsExclude, w.FieldsOrder, w.FieldsExclude = actuals(ren, c.Cfg.PExcl), actuals(ren, c.Cfg.FOrder), actuals(ren, c.Cfg.FExcl)
				if !c.Deft {
					w.PartsOrder = append([]string{}, c.Cfg.Parts...)
				}
			}
			var w zerolog.ConsoleWriter
			if ci%2 == 1 {
				w = zerolog.NewConsoleWriter(set) // the constructor and the struct literal must behave alike
				if ci%4 == 3 && len(w.FieldsOrder) > 1 {
					// ... also when the configuration is (re)assigned after construction: the fields are public, what counts is
					// their value at the time of the Write. Built with the reverse field order, given the real one afterwards
					real := w.FieldsOrder
					w = zerolog.NewConsoleWriter(set, func(w *zerolog.ConsoleWriter) {
						rev := make([]string, len(real))
						for i, f := range real {
							rev[len(real)-1-i] = f
						}
						w.FieldsOrder = rev
					})
					w.FieldsOrder = real
				}
			} else {
				set(&w)
			}
			if len(w.FieldsOrder) > 1 {
				// a COPY of the writer with another field order is used first: writers are values, a copy shares nothing
				// with the original that the original's output depends on
				w2 := w
				w2.Out = &bytes.Buffer{}
				w2.FieldsOrder = make([]string, len(w.FieldsOrder))
				for i, f := range w.FieldsOrder {
					w2.FieldsOrder[len(w.FieldsOrder)-1-i] = f
				}
				w2.Write(in.Bytes())
			}
			return w
		}
		var o1, o2 bytes.Buffer
		wcfg := mk(&o1)
		cfgBefore := fmt.Sprint(wcfg.PartsOrder, "|", wcfg.PartsExclude, "|", wcfg.FieldsOrder, "|", wcfg.FieldsExclude)
		n, err := wcfg.Write(in.Bytes())
		cfgIntact := cfgBefore == fmt.Sprint(wcfg.PartsOrder, "|", wcfg.PartsExclude, "|", wcfg.FieldsOrder, "|", wcfg.FieldsExclude)
		mk(&o2).Write(in.Bytes())
		errs := ""
		if err != nil {
			errs = err.Error()
		}
		line := o1.String()
		oneline := strings.HasSuffix(line, "\n") && strings.Count(line, "\n") == 1
		pt := map[string]string{}
		for _, p := range c.Cfg.Parts {
			v, present := vals[p]
			pt[p] = partText(p, v, present)
			if (p == "message" || p == "caller") && !present {
				pt[p] = ""
			}
		}
		ft := map[string]string{}
		for name, v := range vals {
			ft[name] = actual(ren, name) + "=" + fieldText(v)
		}
		parts, fields, ok := parseUnits(strings.TrimSuffix(line, "\n"), c.Cfg.Parts, pt, ft)
		if !ok {
			parts, fields = []string{"?"}, []string{"?"}
		}
		if parts == nil {
			parts = []string{}
		}
		if fields == nil {
			fields = []string{}
		}
		zerolog.TimeFieldFormat = oldTFF
		zerolog.TimestampFieldName, zerolog.LevelFieldName, zerolog.CallerFieldName, zerolog.MessageFieldName, zerolog.ErrorFieldName = oTS, oLV, oCA, oMS, oER
		out.emit(map[string]interface{}{"a": "Case", "rename": ren, "ev": c.Ev, "vc": c.VC, "cfg": c.Cfg, "tset": c.TSet, "n": n, "inlen": in.Len(), "err": errs,
			"same": bytes.Equal(o1.Bytes(), o2.Bytes()) && cfgIntact, "oneline": oneline, "gotparts": parts, "gotfields": fields, "line": line})
	}
	return nil
}
