// Player for BasicSampler under concurrency (C13). Built with -overlay: sync/atomic in
// sampler.go is the gate shim, so every AddUint32 is a scheduling point chosen by the script.
package main

import (
	"bufio"
	"bytes"
	"encoding/json"
	"flag"
	"fmt"
	"math/rand"
	"os"

	"github.com/rs/zerolog"
	"github.com/rs/zerolog/zzverif/vsched"
)

type Script struct {
	ID    string   `json:"id"`
	G     int      `json:"G"`
	K     int      `json:"K"`
	N     uint32   `json:"N"`
	Steps []string `json:"steps"`
	Free  bool     `json:"free"`
	Seed  int64    `json:"seed"`
}

type ev map[string]interface{}

var out *bufio.Writer

func emit(e ev) { b, _ := json.Marshal(e); out.Write(b); out.WriteByte('\n') }

func play(sc Script) bool {
	vsched.Reset()
	emit(ev{"a": "Reset", "id": sc.ID, "N": sc.N, "G": sc.G, "K": sc.K})
	s := &zerolog.BasicSampler{N: sc.N}
	gs := map[string]*vsched.G{}
	var names []string
	for g := 1; g <= sc.G; g++ {
		name := fmt.Sprintf("G%d", g)
		names = append(names, name)
		g := g
		gs[name] = vsched.Go(name, func() {
			for k := 0; k < sc.K; k++ {
				vsched.Gate("s.call", nil, nil)
				emit(ev{"a": "CStart", "g": g})
				adm := s.Sample(zerolog.InfoLevel)
				emit(ev{"a": "CRet", "g": g, "adm": adm})
			}
		})
	}
	step := func(n string) bool {
		t := gs[n]
		if t == nil || !vsched.CanRun(t) {
			return false
		}
		return vsched.Step(t) != "HUNG"
	}
	if sc.Free {
		rng := rand.New(rand.NewSource(sc.Seed))
		for i := 0; i < 10000; i++ {
			var en []string
			for _, n := range names {
				if vsched.CanRun(gs[n]) {
					en = append(en, n)
				}
			}
			if len(en) == 0 {
				break
			}
			step(en[rng.Intn(len(en))])
		}
	} else {
		for _, n := range sc.Steps {
			step(n)
		}
	}
	for i := 0; i < 10000; i++ {
		p := false
		for _, n := range names {
			if vsched.CanRun(gs[n]) {
				if !step(n) {
					return true
				}
				p = true
			}
		}
		if !p {
			break
		}
	}
	return false
}

func main() {
	in := flag.String("scripts", "", "")
	outp := flag.String("out", "conc.ndjson", "")
	flag.Parse()
	f, err := os.Open(*in)
	if err != nil {
		fmt.Fprintln(os.Stderr, err)
		os.Exit(2)
	}
	of, _ := os.Create(*outp)
	out = bufio.NewWriterSize(of, 1<<20)
	sc := bufio.NewScanner(f)
	sc.Buffer(make([]byte, 1<<20), 1<<26)
	n, hung := 0, 0
	for sc.Scan() {
		if len(bytes.TrimSpace(sc.Bytes())) == 0 {
			continue
		}
		var s Script
		if err := json.Unmarshal(sc.Bytes(), &s); err != nil {
			fmt.Fprintln(os.Stderr, err)
			os.Exit(2)
		}
		if play(s) {
			hung++
		}
		n++
	}
	out.Flush()
	fmt.Printf("played=%d hung=%d\n", n, hung)
	if hung > 0 {
		os.Exit(3)
	}
}
