// Auxiliary observation for C15/C06 (DESIGN 3.7): TriggerLevelWriter and SyncWriter used by real
// goroutines on the UNinstrumented build under the Go race detector. Prints one JSON line with what it
// saw; exit 66 = race report.
package main

import (
	"bytes"
	"encoding/json"
	"fmt"
	"os"
	"sync"

	"github.com/rs/zerolog"
)

type dest struct {
	mu    sync.Mutex
	lines []string
	lvls  []int
}

func (d *dest) Write(p []byte) (int, error) { return d.WriteLevel(-99, p) }
func (d *dest) WriteLevel(l zerolog.Level, p []byte) (int, error) {
	d.mu.Lock()
	d.lines = append(d.lines, string(p))
	d.lvls = append(d.lvls, int(l))
	d.mu.Unlock()
	return len(p), nil
}

func main() {
	rounds := 30
	bad := []string{}
	for r := 0; r < rounds; r++ {
		d := &dest{}
		w := &zerolog.TriggerLevelWriter{Writer: d, ConditionalLevel: zerolog.DebugLevel, TriggerLevel: zerolog.ErrorLevel}
		g, k := 6, 40
		var wg sync.WaitGroup
		for i := 0; i < g; i++ {
			wg.Add(1)
			go func(i int) {
				defer wg.Done()
				for j := 0; j < k; j++ {
					lvl := zerolog.DebugLevel
					if j%7 == 3 {
						lvl = zerolog.InfoLevel
					}
					w.WriteLevel(lvl, []byte(fmt.Sprintf("g%d-%03d\n", i, j)))
				}
			}(i)
		}
		wg.Wait()
		w.Trigger()
		w.Close()
		// every line exactly once, unmodified, original level, per-goroutine order kept
		seen := map[string]int{}
		last := map[string]string{} // per goroutine and level class: held lines are released later than pass-through ones
		for n, ln := range d.lines {
			seen[ln]++
			if len(ln) != 7 || !bytes.HasSuffix([]byte(ln), []byte("\n")) {
				bad = append(bad, fmt.Sprintf("round %d: torn line %q", r, ln))
				continue
			}
			key := fmt.Sprintf("%c/%d", ln[1], d.lvls[n])
			if p, ok := last[key]; ok && p >= ln {
				bad = append(bad, fmt.Sprintf("round %d: goroutine order broken %q after %q", r, ln, p))
			}
			last[key] = ln
			var j int
			fmt.Sscanf(ln[3:6], "%d", &j)
			want := 0
			if j%7 == 3 {
				want = 1
			}
			if d.lvls[n] != want {
				bad = append(bad, fmt.Sprintf("round %d: level %d for %q", r, d.lvls[n], ln))
			}
		}
		if len(d.lines) != g*k {
			bad = append(bad, fmt.Sprintf("round %d: %d lines for %d writes", r, len(d.lines), g*k))
		}
		for ln, c := range seen {
			if c != 1 {
				bad = append(bad, fmt.Sprintf("round %d: line %q %d times", r, ln, c))
			}
		}
	}
	json.NewEncoder(os.Stdout).Encode(map[string]interface{}{"rounds": rounds, "bad": bad})
}
