//go:build binary_log

// Player for C17 (the CBOR decoder is total; truncation costs only the last event). Built with
// -tags binary_log and the bridge overlay. Every decoder call runs under recover with a watchdog and an
// allocation measurement.
package main

import (
	"bufio"
	"bytes"
	"encoding/hex"
	"encoding/json"
	"flag"
	"fmt"
	"os"
	"runtime"
	"time"

	"github.com/rs/zerolog"
)

type Op struct {
	A      string      `json:"a"`
	ID     string      `json:"id"`
	Hex    string      `json:"hex"`
	Len    int         `json:"len"`
	First  int         `json:"first"`
	Events []string    `json:"events"`
	Sparse bool        `json:"sparse"` // long stream: cut only at event boundaries and their neighbours
	WF     bool        `json:"wf"`
	Abs    interface{} `json:"abs,omitempty"`
}

type outcome struct {
	kind  string // ok | err | panic | timeout
	msg   string
	out   []byte
	alloc uint64
}

func guard(f func() ([]byte, error)) (o outcome) {
	done := make(chan outcome, 1)
	go func() {
		var r outcome
		defer func() {
			if x := recover(); x != nil {
				r.kind, r.msg = "panic", fmt.Sprint(x)
			}
			done <- r
		}()
		out, err := f()
		r.out = out
		if err != nil {
			r.kind, r.msg = "err", err.Error()
		} else {
			r.kind = "ok"
		}
	}()
	select {
	case o = <-done:
	case <-time.After(5 * time.Second):
		o.kind = "timeout"
	}
	return
}

func measured(f func() ([]byte, error)) outcome {
	var a, b runtime.MemStats
	runtime.ReadMemStats(&a)
	o := guard(f)
	runtime.ReadMemStats(&b)
	o.alloc = b.TotalAlloc - a.TotalAlloc
	return o
}

func decodeMany(in []byte) func() ([]byte, error) {
	return func() ([]byte, error) { return zerolog.VerifCbor2JsonMany(in) }
}

func decodeIfBinary(in []byte) func() ([]byte, error) {
	return func() ([]byte, error) { return zerolog.VerifDecodeIfBinary(in), nil }
}

func console(in []byte) func() ([]byte, error) {
	return func() ([]byte, error) {
		var buf bytes.Buffer
		w := zerolog.ConsoleWriter{Out: &buf, NoColor: true}
		_, err := w.Write(in)
		return buf.Bytes(), err
	}
}

func lines(out []byte) [][]byte {
	var ls [][]byte
	for {
		i := bytes.IndexByte(out, '\n')
		if i < 0 {
			break
		}
		ls = append(ls, out[:i])
		out = out[i+1:]
	}
	return ls
}

func main() {
	in := flag.String("scripts", "", "")
	outp := flag.String("out", "hist.ndjson", "")
	flag.Parse()
	f, err := os.Open(*in)
	if err != nil {
		fmt.Fprintln(os.Stderr, err)
		os.Exit(2)
	}
	of, _ := os.Create(*outp)
	w := bufio.NewWriterSize(of, 1<<20)
	emit := func(v interface{}) { b, _ := json.Marshal(v); w.Write(b); w.WriteByte('\n') }
	sc := bufio.NewScanner(f)
	sc.Buffer(make([]byte, 1<<20), 1<<28)
	n := 0
	for sc.Scan() {
		if len(bytes.TrimSpace(sc.Bytes())) == 0 {
			continue
		}
		var op Op
		if err := json.Unmarshal(sc.Bytes(), &op); err != nil {
			fmt.Fprintln(os.Stderr, err)
			os.Exit(2)
		}
		emit(map[string]interface{}{"a": "Reset", "id": op.ID})
		switch op.A {
		case "Input":
			b, _ := hex.DecodeString(op.Hex)
			for name, fn := range map[string]func() ([]byte, error){"many": decodeMany(b), "ifbinary": decodeIfBinary(b), "console": console(b)} {
				o := measured(fn)
				emit(map[string]interface{}{"a": "Dec", "via": name, "n": len(b), "outcome": o.kind, "msg": trunc(o.msg), "alloc": o.alloc,
					"validjson": o.kind == "ok" && allValid(o.out), "wf": op.WF})
			}
		case "Sweep":
			buf := make([]byte, op.Len)
			buf[0] = byte(op.First)
			total, panics, timeouts := 0, 0, 0
			var maxAlloc uint64
			examples := []string{}
			var rec func(pos int)
			rec = func(pos int) {
				if pos == op.Len {
					total++
					var o outcome
					if total%64 == 0 {
						o = measured(decodeMany(append([]byte(nil), buf...)))
						if o.alloc > maxAlloc {
							maxAlloc = o.alloc
						}
					} else {
						o = guard(decodeMany(append([]byte(nil), buf...)))
					}
					if o.kind == "panic" {
						panics++
						if len(examples) < 3 {
							examples = append(examples, hex.EncodeToString(buf)+": "+trunc(o.msg))
						}
					}
					if o.kind == "timeout" {
						timeouts++
					}
					return
				}
				for v := 0; v < 256; v++ {
					buf[pos] = byte(v)
					rec(pos + 1)
				}
			}
			rec(1)
			emit(map[string]interface{}{"a": "Sweep", "first": op.First, "len": op.Len, "n": total, "panics": panics, "timeouts": timeouts, "maxalloc": maxAlloc, "examples": examples})
		case "Stream":
			var full []byte
			bounds := []int{0}
			for _, h := range op.Events {
				b, _ := hex.DecodeString(h)
				full = append(full, b...)
				bounds = append(bounds, len(full))
			}
			fo := guard(decodeMany(full))
			fl := lines(fo.out)
			emit(map[string]interface{}{"a": "Full", "len": len(full), "bounds": bounds, "outcome": fo.kind, "lines": len(fl), "validjson": allValid(fo.out)})
			near := map[int]bool{}
			for _, b := range bounds {
				for d := -2; d <= 2; d++ {
					near[b+d] = true
				}
			}
			for k := 0; k <= len(full); k++ {
				if op.Sparse && !near[k] && k%97 != 0 {
					continue
				}
				o := guard(decodeMany(full[:k]))
				ls := lines(o.out)
				same := len(ls) <= len(fl)
				for i := 0; same && i < len(ls); i++ {
					same = bytes.Equal(ls[i], fl[i])
				}
				emit(map[string]interface{}{"a": "Cut", "k": k, "outcome": o.kind, "lines": len(ls), "same": same})
			}
			// the same through ConsoleWriter, which receives ONE event per Write: the whole event is written, every proper
			// non-empty prefix of it is refused with an error (a partial event must not come out as a line)
			for i := 1; i < len(bounds) && i <= 3; i++ {
				ev := full[bounds[i-1]:bounds[i]]
				whole := guard(console(ev))
				accepted := []int{}
				for k := 1; k < len(ev); k++ {
					if op.Sparse && k > 40 && k < len(ev)-40 && k%7 != 0 {
						continue
					}
					if o := guard(console(ev[:k])); o.kind != "err" {
						accepted = append(accepted, k)
					}
				}
				if len(accepted) > 20 {
					accepted = accepted[:20]
				}
				emit(map[string]interface{}{"a": "CutVia", "via": "console", "ev": i, "len": len(ev), "whole": whole.kind, "accepted": accepted})
			}
		}
		n++
	}
	w.Flush()
	fmt.Printf("played=%d\n", n)
}

func trunc(s string) string {
	if len(s) > 120 {
		return s[:120]
	}
	return s
}

func allValid(out []byte) bool {
	for _, l := range lines(out) {
		if !json.Valid(l) {
			return false
		}
	}
	return true
}
