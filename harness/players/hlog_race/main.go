// Auxiliary observation for C18 (DESIGN 3.7): many requests served at once by a real http.Handler chain on the
// uninstrumented build under the race detector; every request's event must carry only its own values.
package main

import (
	"bytes"
	"encoding/json"
	"fmt"
	"net/http"
	"net/http/httptest"
	"os"
	"sync"
	"time"

	"github.com/rs/zerolog"
	"github.com/rs/zerolog/hlog"
)

type sink struct {
	mu    sync.Mutex
	lines []string
}

func (s *sink) Write(p []byte) (int, error) {
	s.mu.Lock()
	s.lines = append(s.lines, string(p))
	s.mu.Unlock()
	return len(p), nil
}

func main() {
	s := &sink{}
	base := zerolog.New(s).With().Str("base", "b").Logger()
	var h http.Handler = http.HandlerFunc(func(w http.ResponseWriter, r *http.Request) {
		hlog.FromRequest(r).Info().Msg("req")
		w.Write([]byte("ok"))
	})
	// every field handler, one instance each, shared by all requests (as in a real server): anything a handler keeps
	// between its steps must be per request
	h = hlog.HostHandler("host")(h)
	h = hlog.HostHandler("hostnp", true)(h)
	h = hlog.RemoteIPHandler("rip")(h)
	h = hlog.RefererHandler("ref")(h)
	h = hlog.ProtoHandler("proto")(h)
	h = hlog.HTTPVersionHandler("hv")(h)
	h = hlog.RequestHandler("rq")(h)
	h = hlog.CustomHeaderHandler("cust", "X-Custom")(h)
	h = hlog.UserAgentHandler("ua")(h)
	h = hlog.RemoteAddrHandler("ip")(h)
	h = hlog.MethodHandler("method")(h)
	h = hlog.URLHandler("url")(h)
	h = hlog.RequestIDHandler("req_id", "X-Req")(h)
	h = hlog.AccessHandler(func(r *http.Request, status, size int, d time.Duration) {})(h)
	h = hlog.NewHandler(base)(h)
	N := 400
	var wg sync.WaitGroup
	for i := 0; i < N; i++ {
		wg.Add(1)
		go func(i int) {
			defer wg.Done()
			r := httptest.NewRequest("GET", fmt.Sprintf("/p/%d", i), nil)
			r.RemoteAddr = fmt.Sprintf("10.1.%d.%d:99", i/250, i%250)
			r.Header.Set("User-Agent", fmt.Sprintf("ua-%d", i))
			r.Header.Set("Referer", fmt.Sprintf("http://ref/%d", i))
			r.Header.Set("X-Custom", fmt.Sprintf("c-%d", i))
			r.Host = fmt.Sprintf("h%d.example:8%03d", i, i)
			h.ServeHTTP(httptest.NewRecorder(), r)
		}(i)
	}
	wg.Wait()
	bad := []string{}
	ids := map[string]bool{}
	for _, ln := range s.lines {
		var m map[string]interface{}
		if json.Unmarshal(bytes.TrimSpace([]byte(ln)), &m) != nil {
			bad = append(bad, "invalid line "+ln)
			continue
		}
		var i int
		fmt.Sscanf(fmt.Sprint(m["url"]), "/p/%d", &i)
		if m["ua"] != fmt.Sprintf("ua-%d", i) || m["ip"] != fmt.Sprintf("10.1.%d.%d:99", i/250, i%250) || m["base"] != "b" ||
			m["host"] != fmt.Sprintf("h%d.example:8%03d", i, i) || m["hostnp"] != fmt.Sprintf("h%d.example", i) ||
			m["rip"] != fmt.Sprintf("10.1.%d.%d", i/250, i%250) || m["ref"] != fmt.Sprintf("http://ref/%d", i) ||
			m["cust"] != fmt.Sprintf("c-%d", i) || m["rq"] != fmt.Sprintf("GET /p/%d", i) || m["proto"] != "HTTP/1.1" || m["hv"] != "1.1" {
			bad = append(bad, "request mixes values: "+ln)
		}
		id := fmt.Sprint(m["req_id"])
		if ids[id] {
			bad = append(bad, "request id used twice: "+id)
		}
		ids[id] = true
	}
	if len(s.lines) != N {
		bad = append(bad, fmt.Sprintf("%d events for %d requests", len(s.lines), N))
	}
	if len(bad) > 10 {
		bad = bad[:10]
	}
	json.NewEncoder(os.Stdout).Encode(map[string]interface{}{"requests": N, "bad": bad})
}
