// Auxiliary observation for C06 (DESIGN 3.7): many real goroutines log through one logger, its children,
// the global logger and a SyncWriter on the UNinstrumented build under the race detector. The writer
// checksums its argument on entry and exit and collects every line.
package main

import (
	"bytes"
	"encoding/json"
	"fmt"
	"hash/crc32"
	"os"
	"runtime"
	"strings"
	"sync"
	"sync/atomic"

	"github.com/rs/zerolog"
	zlog "github.com/rs/zerolog/log"
)

type sink struct {
	mu       sync.Mutex
	lines    []string
	unstable int32
	inside   int32
	overlap  int32
	serial   bool
}

func (s *sink) Write(p []byte) (int, error) {
	if s.serial && atomic.AddInt32(&s.inside, 1) != 1 {
		atomic.AddInt32(&s.overlap, 1)
	}
	sum := crc32.ChecksumIEEE(p)
	cp := string(p)
	runtime.Gosched()
	if crc32.ChecksumIEEE(p) != sum {
		atomic.AddInt32(&s.unstable, 1)
	}
	s.mu.Lock()
	s.lines = append(s.lines, cp)
	s.mu.Unlock()
	if s.serial {
		atomic.AddInt32(&s.inside, -1)
	}
	return len(p), nil
}

type userObj struct{ g, k int }

func (o userObj) MarshalZerologObject(e *zerolog.Event) { e.Int("og", o.g).Int("ok", o.k) }

type userArr struct{ g, k int }

func (a userArr) MarshalZerologArray(arr *zerolog.Array) { arr.Int(a.g).Int(a.k) }

// gatePhase: the global level is switched between Disabled and Trace by another goroutine while events are being built.
// Whether an event is emitted is decided ONCE, when it is created; an event that was emitted is the whole event - the
// fields a Func callback adds included - whatever the switch says by the time the chain reaches them.
func gatePhase() []string {
	bad := []string{}
	for r := 0; r < 6; r++ {
		s := &sink{}
		base := zerolog.New(s)
		G, K := 8, 400
		stop := make(chan struct{})
		done := make(chan struct{})
		go func() {
			defer close(done)
			for i := 0; ; i++ {
				select {
				case <-stop:
					zerolog.SetGlobalLevel(zerolog.TraceLevel)
					return
				default:
				}
				if i%2 == 0 {
					zerolog.SetGlobalLevel(zerolog.Disabled)
				} else {
					zerolog.SetGlobalLevel(zerolog.TraceLevel)
				}
				if i%8 == 7 {
					runtime.Gosched()
				}
			}
		}()
		var wg sync.WaitGroup
		for g := 0; g < G; g++ {
			wg.Add(1)
			go func(g int) {
				defer wg.Done()
				l := base.With().Int("child", g).Logger()
				for k := 0; k < K; k++ {
					l.Info().Int("g", g).Int("k", k).Func(func(e *zerolog.Event) { e.Int("f", g*1000+k) }).Msg("m")
				}
			}(g)
		}
		wg.Wait()
		close(stop)
		<-done
		seen := map[string]int{}
		for _, ln := range s.lines {
			var m map[string]interface{}
			if !strings.HasSuffix(ln, "\n") || json.Unmarshal(bytes.TrimSpace([]byte(ln)), &m) != nil {
				bad = append(bad, fmt.Sprintf("gate phase: torn or invalid line (%d bytes)", len(ln)))
				continue
			}
			g, k := int(m["g"].(float64)), int(m["k"].(float64))
			seen[fmt.Sprintf("%d/%d", g, k)]++
			if f, ok := m["f"].(float64); !ok || int(f) != g*1000+k {
				bad = append(bad, fmt.Sprintf("gate phase: event %d/%d was emitted without the field its Func callback adds (f=%v)", g, k, m["f"]))
			}
			if c, ok := m["child"].(float64); !ok || int(c) != g {
				bad = append(bad, fmt.Sprintf("gate phase: event %d/%d carries child=%v", g, k, m["child"]))
			}
		}
		for key, c := range seen {
			if c != 1 {
				bad = append(bad, fmt.Sprintf("gate phase: event %s written %d times", key, c))
			}
		}
		if len(bad) > 5 {
			break
		}
	}
	return bad
}

// here: file:line of the statement that calls it - what the default CallerMarshalFunc prints for an event logged by that statement.
func here() string {
	_, f, ln, _ := runtime.Caller(1)
	return fmt.Sprintf("%s:%d", f, ln)
}

// callerPhase: goroutines log with caller reporting on, from two source lines in turn (each through an event-level Caller() and
// through a logger With().Caller()): every event carries the line it was logged from, whoever else is logging from wherever.
func callerPhase() []string {
	bad := []string{}
	s := &sink{}
	base := zerolog.New(s)
	ctxl := base.With().Caller().Logger()
	G, K := 8, 1500
	var wg sync.WaitGroup
	for g := 0; g < G; g++ {
		wg.Add(1)
		go func(g int) {
			defer wg.Done()
			for k := 0; k < K; k++ {
				if (g+k)%2 == 0 {
					base.Info().Caller().Str("want", here()).Int("g", g).Msg("a")
					ctxl.Info().Str("want", here()).Int("g", g).Msg("c")
				} else {
					base.Info().Caller().Str("want", here()).Int("g", g).Msg("b")
					ctxl.Info().Str("want", here()).Int("g", g).Msg("d")
				}
			}
		}(g)
	}
	wg.Wait()
	if len(s.lines) != G*K*2 {
		bad = append(bad, fmt.Sprintf("caller phase: %d writes for %d events", len(s.lines), G*K*2))
	}
	n := 0
	for _, ln := range s.lines {
		var m map[string]interface{}
		if json.Unmarshal(bytes.TrimSpace([]byte(ln)), &m) != nil {
			bad = append(bad, "caller phase: invalid line")
			continue
		}
		if m["caller"] != m["want"] {
			n++
			if n <= 3 {
				bad = append(bad, fmt.Sprintf("caller phase: event %v logged at %v reports caller %v", m["message"], m["want"], m["caller"]))
			}
		}
	}
	return bad
}

func main() {
	bad := []string{}
	rounds := 12
	pad := strings.Repeat("p", 600)
	big := strings.Repeat("B", 70*1024)
	for r := 0; r < rounds; r++ {
		for _, serial := range []bool{false, true} {
			s := &sink{serial: serial}
			var base zerolog.Logger
			if serial {
				base = zerolog.New(zerolog.SyncWriter(s))
			} else {
				base = zerolog.New(s)
			}
			zlog.Logger = base
			G, K := 8, 60
			var wg sync.WaitGroup
			// the global switches are read on every event: another goroutine keeps storing (values that filter nothing)
			stop := make(chan struct{})
			togglerDone := make(chan struct{})
			go func() {
				defer close(togglerDone)
				for i := 0; ; i++ {
					select {
					case <-stop:
						zerolog.SetGlobalLevel(zerolog.TraceLevel)
						zerolog.DisableSampling(false)
						return
					default:
					}
					zerolog.SetGlobalLevel(zerolog.Level(-1 + i%2)) // Trace / Debug: Info events always pass
					zerolog.DisableSampling(i%2 == 0)
					runtime.Gosched()
				}
			}()
			for g := 0; g < G; g++ {
				wg.Add(1)
				go func(g int) {
					defer wg.Done()
					l := base
					if g%2 == 1 {
						l = base.With().Int("child", g).Logger()
					}
					for k := 0; k < K; k++ {
						e := l.Info()
						if g == 7 {
							e = zlog.Info()
						}
						e = e.Int("g", g).Int("k", k)
						switch k % 5 {
						case 0:
							if k%10 == 0 {
								e = e.Object("o", userObj{g, k}).Array("ua", userArr{g, k})
							}
						case 1:
							e = e.Dict("d", zerolog.Dict().Int("x", g*1000+k))
						case 2:
							e = e.Array("a", zerolog.Arr().Int(g).Int(k))
							// a value that goes through InterfaceMarshalFunc (encoding/json): a different size per goroutine
							e = e.Interface("iv", map[string]interface{}{"g": g, "pad": strings.Repeat(string(rune('a'+g)), 150+g*400)})
						case 3:
							e = e.Str("pad", pad)
						case 4:
							if k%20 == 4 {
								e = e.Str("pad", big)
							}
						}
						e.Msg("m")
					}
				}(g)
			}
			wg.Wait()
			close(stop)
			<-togglerDone
			seen := map[string]int{}
			for _, ln := range s.lines {
				var m map[string]interface{}
				if !strings.HasSuffix(ln, "\n") || json.Unmarshal(bytes.TrimSpace([]byte(ln)), &m) != nil {
					bad = append(bad, fmt.Sprintf("torn or invalid line (%d bytes)", len(ln)))
					continue
				}
				g, k := int(m["g"].(float64)), int(m["k"].(float64))
				seen[fmt.Sprintf("%d/%d", g, k)]++
				if d, ok := m["d"].(map[string]interface{}); ok && int(d["x"].(float64)) != g*1000+k {
					bad = append(bad, fmt.Sprintf("event %d/%d carries another event's dict", g, k))
				}
				if a, ok := m["a"].([]interface{}); ok && (int(a[0].(float64)) != g || int(a[1].(float64)) != k) {
					bad = append(bad, fmt.Sprintf("event %d/%d carries another event's array", g, k))
				}
				if o, ok := m["o"].(map[string]interface{}); ok && (int(o["og"].(float64)) != g || int(o["ok"].(float64)) != k) {
					bad = append(bad, fmt.Sprintf("event %d/%d carries another event's object", g, k))
				}
				if a, ok := m["ua"].([]interface{}); ok && (int(a[0].(float64)) != g || int(a[1].(float64)) != k) {
					bad = append(bad, fmt.Sprintf("event %d/%d carries another event's marshaled array", g, k))
				}
				if iv, ok := m["iv"].(map[string]interface{}); ok {
					pad, _ := iv["pad"].(string)
					if ig, _ := iv["g"].(float64); int(ig) != g || pad != strings.Repeat(string(rune('a'+g)), 150+g*400) {
						bad = append(bad, fmt.Sprintf("event %d/%d carries another event's marshaled value", g, k))
					}
				}
				if c, ok := m["child"]; ok && int(c.(float64)) != g {
					bad = append(bad, fmt.Sprintf("event %d/%d carries child=%v", g, k, c))
				}
			}
			if len(s.lines) != G*K {
				bad = append(bad, fmt.Sprintf("%d writes for %d events", len(s.lines), G*K))
			}
			for key, c := range seen {
				if c != 1 {
					bad = append(bad, fmt.Sprintf("event %s written %d times", key, c))
				}
			}
			if s.unstable > 0 {
				bad = append(bad, fmt.Sprintf("%d buffers changed while the writer was using them", s.unstable))
			}
			if s.overlap > 0 {
				bad = append(bad, fmt.Sprintf("%d overlapping calls under SyncWriter", s.overlap))
			}
		}
	}
	bad = append(bad, gatePhase()...)
	bad = append(bad, callerPhase()...)
	bad = append(bad, consolePhase()...)
	if len(bad) > 10 {
		bad = bad[:10]
	}
	json.NewEncoder(os.Stdout).Encode(map[string]interface{}{"rounds": rounds * 2, "bad": bad})
}

// flakyOut is the destination behind a ConsoleWriter: every 7th call fails (alternately an error and a short count),
// every other call records what it was handed.
type flakyOut struct {
	mu    sync.Mutex
	n     int
	lines []string
}

func (f *flakyOut) Write(p []byte) (int, error) {
	f.mu.Lock()
	defer f.mu.Unlock()
	f.n++
	if f.n%7 == 0 {
		if f.n%14 == 0 {
			return len(p) / 2, nil
		}
		return 0, fmt.Errorf("destination down")
	}
	f.lines = append(f.lines, string(p))
	return len(p), nil
}

// consolePhase: goroutines log through ONE ConsoleWriter (package-wide pooled scratch buffers) whose destination
// fails now and then. Every Write the destination accepts must be exactly one event's own line: nothing of an event
// whose Write failed, nothing of another goroutine's event.
func consolePhase() []string {
	bad := []string{}
	oldH := zerolog.ErrorHandler
	zerolog.ErrorHandler = func(error) {}
	defer func() { zerolog.ErrorHandler = oldH }()
	for r := 0; r < 4; r++ {
		out := &flakyOut{}
		cw := zerolog.ConsoleWriter{Out: out, NoColor: true, PartsExclude: []string{zerolog.TimestampFieldName}, FieldsExclude: []string{"zz", "hidden", "aa", "mm", "bb"}}
		format := "INF m g=%d k=%d"
		if r%2 == 1 {
			// a writer made by the constructor, with a field order: its FIRST events are concurrent (whatever it computes lazily
			// from its configuration is computed while several goroutines are inside Write)
			cw = zerolog.NewConsoleWriter(func(w *zerolog.ConsoleWriter) {
				w.Out, w.NoColor, w.PartsExclude, w.FieldsOrder = out, true, []string{zerolog.TimestampFieldName}, []string{"k", "g"}
				// ... and an exclusion list that is not in alphabetical order: the writer may read its configuration from many
				// goroutines, it must not rearrange it
				w.FieldsExclude = []string{"zz", "hidden", "aa", "mm", "bb"}
			})
			format = "INF m k=%[2]d g=%[1]d"
		}
		l := zerolog.New(cw)
		G, K := 6, 80
		var wg sync.WaitGroup
		for g := 0; g < G; g++ {
			wg.Add(1)
			go func(g int) {
				defer wg.Done()
				for k := 0; k < K; k++ {
					l.Info().Int("g", g).Int("k", k).Str("s", "x y").Int("hidden", 1).Int("aa", 2).Msg("m")
				}
			}(g)
		}
		wg.Wait()
		seen := map[string]int{}
		for _, ln := range out.lines {
			var g, k int
			var n int
			if r%2 == 1 {
				n, _ = fmt.Sscanf(ln, "INF m k=%d g=%d", &k, &g)
			} else {
				n, _ = fmt.Sscanf(ln, "INF m g=%d k=%d", &g, &k)
			}
			if n != 2 || ln != fmt.Sprintf(format+" s=\"x y\"\n", g, k) {
				bad = append(bad, fmt.Sprintf("ConsoleWriter handed its destination something that is not one event's line: %q", ln))
				continue
			}
			seen[fmt.Sprintf("%d/%d", g, k)]++
		}
		for key, c := range seen {
			if c != 1 {
				bad = append(bad, fmt.Sprintf("console event %s written %d times", key, c))
			}
		}
	}
	return bad
}
