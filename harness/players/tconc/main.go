// Player for TriggerLevelWriter under concurrency (C15). Built with -overlay: sync in writer.go is
// the gate shim, so the order in which goroutines take the writer's mutex is chosen by the script.
package main

import (
	"bufio"
	"bytes"
	"encoding/json"
	"flag"
	"fmt"
	"math/rand"
	"os"
	"strings"

	"github.com/rs/zerolog"
	"github.com/rs/zerolog/zzverif/vsched"
)

type Op struct {
	A string `json:"a"`
	L int    `json:"l"`
	S int    `json:"s"`
}

type Script struct {
	ID    string          `json:"id"`
	Cond  int             `json:"cond"`
	Trig  int             `json:"trig"`
	Ops   map[string][]Op `json:"ops"`
	Steps []string        `json:"steps"`
	Free  bool            `json:"free"`
	Seed  int64           `json:"seed"`
}

type ev map[string]interface{}

var out *bufio.Writer

func emit(e ev) { b, _ := json.Marshal(e); out.Write(b); out.WriteByte('\n') }

var lines = map[int][]byte{
	1: []byte("\n"), 2: []byte("a\n"), 3: []byte("\xff{\"k\":1}\n"),
	4: []byte(strings.Repeat("x", 3000) + "\n"), 5: []byte("\x00\x01\x7f\x80\xff\x0b\x09\n"),
}

func lineID(p []byte) int {
	for id, b := range lines {
		if bytes.Equal(p, b) {
			return id
		}
	}
	return 0
}

type dest struct{}

func (dest) Write(p []byte) (int, error) {
	emit(ev{"a": "Dest", "l": -999, "s": lineID(p)})
	return len(p), nil
}
func (dest) WriteLevel(l zerolog.Level, p []byte) (int, error) {
	emit(ev{"a": "Dest", "l": int(l), "s": lineID(p)})
	return len(p), nil
}

func play(sc Script) bool {
	vsched.Reset()
	emit(ev{"a": "Reset", "id": sc.ID, "cond": sc.Cond, "trig": sc.Trig})
	w := &zerolog.TriggerLevelWriter{Writer: dest{}, ConditionalLevel: zerolog.Level(sc.Cond), TriggerLevel: zerolog.Level(sc.Trig)}
	gs := map[string]*vsched.G{}
	var names []string
	for g := 1; g <= len(sc.Ops); g++ {
		name := fmt.Sprintf("G%d", g)
		names = append(names, name)
		g, ops := g, sc.Ops[name]
		gs[name] = vsched.Go(name, func() {
			for _, op := range ops {
				vsched.Gate("t.call", nil, nil)
				emit(ev{"a": "Start", "g": g, "op": op.A, "l": op.L, "s": op.S})
				ok := true
				switch op.A {
				case "W":
					p := append([]byte(nil), lines[op.S]...)
					n, err := w.WriteLevel(zerolog.Level(op.L), p)
					ok = err == nil && n == len(p)
					for i := range p {
						p[i] = '#'
					}
				case "T":
					ok = w.Trigger() == nil
				}
				emit(ev{"a": "Ret", "g": g, "ok": ok})
			}
		})
	}
	step := func(n string) bool {
		t := gs[n]
		if t == nil || !vsched.CanRun(t) {
			return true
		}
		return vsched.Step(t) != "HUNG"
	}
	if sc.Free {
		rng := rand.New(rand.NewSource(sc.Seed))
		for i := 0; i < 5000; i++ {
			var en []string
			for _, n := range names {
				if vsched.CanRun(gs[n]) {
					en = append(en, n)
				}
			}
			if len(en) == 0 {
				break
			}
			if !step(en[rng.Intn(len(en))]) {
				return true
			}
		}
	} else {
		for _, n := range sc.Steps {
			if !step(n) {
				return true
			}
		}
	}
	for i := 0; i < 5000; i++ {
		p := false
		for _, n := range names {
			if vsched.CanRun(gs[n]) {
				if !step(n) {
					return true
				}
				p = true
			}
		}
		if !p {
			break
		}
	}
	for _, n := range names {
		if !gs[n].Done {
			emit(ev{"a": "Stuck", "g": n})
		}
	}
	w.Close()
	return false
}

func main() {
	in := flag.String("scripts", "", "")
	outp := flag.String("out", "conc.ndjson", "")
	flag.Parse()
	f, err := os.Open(*in)
	if err != nil {
		fmt.Fprintln(os.Stderr, err)
		os.Exit(2)
	}
	of, _ := os.Create(*outp)
	out = bufio.NewWriterSize(of, 1<<20)
	s := bufio.NewScanner(f)
	s.Buffer(make([]byte, 1<<20), 1<<26)
	n, hung := 0, 0
	for s.Scan() {
		if len(bytes.TrimSpace(s.Bytes())) == 0 {
			continue
		}
		var sc Script
		if err := json.Unmarshal(s.Bytes(), &sc); err != nil {
			fmt.Fprintln(os.Stderr, err)
			os.Exit(2)
		}
		if play(sc) {
			hung++
		}
		n++
	}
	out.Flush()
	fmt.Printf("played=%d hung=%d\n", n, hung)
	if hung > 0 {
		os.Exit(3)
	}
}
