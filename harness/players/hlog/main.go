// Player for C18 (hlog). Built with -overlay only to get the gate scheduler package (no source file of
// zerolog is rewritten): a gate handler sits between every two middlewares, so the interleaving of
// concurrent requests at handler boundaries is chosen by the script.
package main

import (
	"bufio"
	"bytes"
	"encoding/json"
	"errors"
	"flag"
	"fmt"
	"io"
	"math/rand"
	"net"
	"net/http"
	"net/http/httptest"
	"os"
	"strings"
	"sync"
	"time"

	"github.com/rs/zerolog"
	"github.com/rs/zerolog/hlog"
	"github.com/rs/zerolog/zzverif/vsched"
)

type Script struct {
	Kind   string     `json:"kind"` // iso | proxy
	ID     string     `json:"id"`
	Chains [][]string `json:"chains"`
	Steps  []string   `json:"steps"`
	Free   bool       `json:"free"`
	Big    bool       `json:"bigbase"` // the logger given to NewHandler already carries more than 500 bytes of context
	Seed   int64      `json:"seed"`
	// proxy
	Cap string `json:"cap"`
	Ops []struct {
		Op string `json:"op"`
		X  int    `json:"x"`
	} `json:"ops"`
}

var out *bufio.Writer

func emit(v interface{}) { b, _ := json.Marshal(v); out.Write(b); out.WriteByte('\n') }

type sink struct {
	mu    sync.Mutex
	lines [][]byte
}

func (s *sink) Write(p []byte) (int, error) {
	s.mu.Lock()
	s.lines = append(s.lines, append([]byte(nil), p...))
	s.mu.Unlock()
	return len(p), nil
}

func gate(next http.Handler) http.Handler {
	return http.HandlerFunc(func(w http.ResponseWriter, r *http.Request) {
		vsched.Gate("h.next", nil, nil)
		next.ServeHTTP(w, r)
	})
}

func mkRequest(i int) *http.Request {
	methods := []string{"GET", "POST", "PUT", "DELETE"}
	r := httptest.NewRequest(methods[i%4], fmt.Sprintf("http://host%d.example:80%d/path/%d?q=%d", i, i, i, i), nil)
	r.RemoteAddr = fmt.Sprintf("10.0.0.%d:%d", i, 4000+i)
	if i%3 == 0 {
		r.RemoteAddr = fmt.Sprintf("[2001:db8::%d]:%d", i, 4000+i) // IPv6 literal: the host part is between brackets
	}
	if i%5 == 4 {
		// no port at all (an address a "real ip" middleware put there): there is nothing to cut off - the whole value is the host
		r.RemoteAddr = []string{fmt.Sprintf("2001:db8::%d", i), fmt.Sprintf("10.0.1.%d", i), fmt.Sprintf("fe80::%d%%eth0", i)}[i/5%3]
	}
	r.Header.Set("User-Agent", fmt.Sprintf("agent/%d", i))
	r.Header.Set("Referer", fmt.Sprintf("http://ref/%d", i))
	r.Header.Set("X-Custom", fmt.Sprintf("custom-%d", i))
	r.Host = fmt.Sprintf("host%d.example:80%d", i, i)
	if i%7 == 5 {
		r.Host = []string{"[::1]", fmt.Sprintf("host%d.example", i), fmt.Sprintf("[2001:db8::%d]:8443", i)}[i/7%3] // default port: none in the header
	}
	r.Header.Set("X-Verif-N", fmt.Sprint(i))
	return r
}

// handlerOf returns the middleware of kind k for key and what it must log for request r (reference: plain getters).
func handlerOf(k, key string, r *http.Request) (func(http.Handler) http.Handler, string) {
	switch k {
	case "url":
		return hlog.URLHandler(key), r.URL.String()
	case "method":
		return hlog.MethodHandler(key), r.Method
	case "request":
		return hlog.RequestHandler(key), r.Method + " " + r.URL.String()
	case "remoteaddr":
		return hlog.RemoteAddrHandler(key), r.RemoteAddr
	case "remoteip":
		h, _, err := net.SplitHostPort(r.RemoteAddr)
		if err != nil {
			h = r.RemoteAddr // no port to cut off
		}
		return hlog.RemoteIPHandler(key), h
	case "useragent":
		return hlog.UserAgentHandler(key), r.Header.Get("User-Agent")
	case "referer":
		return hlog.RefererHandler(key), r.Header.Get("Referer")
	case "proto":
		return hlog.ProtoHandler(key), r.Proto
	case "custom":
		return hlog.CustomHeaderHandler(key, "X-Custom"), r.Header.Get("X-Custom")
	case "customlc": // header names are case-insensitive: the handler may be configured with any spelling
		return hlog.CustomHeaderHandler(key, "x-custom"), r.Header.Get("X-Custom")
	case "customuc":
		return hlog.CustomHeaderHandler(key, "X-CUSTOM"), r.Header.Get("X-Custom")
	case "host":
		return hlog.HostHandler(key), r.Host
	case "hosttrim":
		hst := r.Host
		if h, _, err := net.SplitHostPort(r.Host); err == nil {
			hst = h
		}
		return hlog.HostHandler(key, true), hst
	case "httpversion":
		return hlog.HTTPVersionHandler(key), strings.TrimPrefix(r.Proto, "HTTP/")
	case "requestid":
		// the id is generated per request: the expected value is what IDFromRequest gives the final handler,
		// which must also be the response header
		return hlog.RequestIDHandler(key, "X-Rid"), "<rid>"
	case "etag":
		// logged after the inner handlers returned, from the response header the final handler set (quotes removed)
		return hlog.EtagHandler(key), "<post>etag-" + r.Header.Get("X-Verif-N")
	case "respheader":
		return hlog.ResponseHeaderHandler(key, "X-Resp"), "<post>resp-" + r.Header.Get("X-Verif-N")
	}
	panic("unknown handler " + k)
}

func fieldsOf(line []byte) [][2]string {
	dec := json.NewDecoder(bytes.NewReader(line))
	res := [][2]string{}
	if t, err := dec.Token(); err != nil || t != json.Delim('{') {
		return [][2]string{{"<invalid>", string(line)}}
	}
	for dec.More() {
		k, err := dec.Token()
		var v interface{}
		if err != nil || dec.Decode(&v) != nil {
			return append(res, [2]string{"<invalid>", string(line)})
		}
		ks, _ := k.(string)
		if ks == "message" || ks == "pad" {
			continue
		}
		res = append(res, [2]string{ks, fmt.Sprint(v)})
	}
	return res
}

func playIso(sc Script) {
	vsched.Reset()
	emit(map[string]interface{}{"a": "Reset", "id": sc.ID})
	s := &sink{}
	base := zerolog.New(s).With().Str("base", "b").Logger()
	if sc.Big {
		base = zerolog.New(s).With().Str("base", "b").Str("pad", strings.Repeat("p", 520)).Logger()
	}
	type reqState struct {
		want     [][2]string
		got      [][2]string
		n        int
		wantPost [][2]string // the event logged after the chain returned: also what Etag / ResponseHeader handlers add on the way out
		gotPost  [][2]string
		nPost    int
		rid      string
	}
	states := make([]*reqState, len(sc.Chains))
	gs := map[string]*vsched.G{}
	// ONE NewHandler middleware instance serves every request, as in a real server (a logger copy made per middleware
	// instead of per request is shared by all of them); the rest of each request's chain hangs below a dispatcher
	var innerMu sync.Mutex
	inner := map[string]http.Handler{}
	root := hlog.NewHandler(base)(gate(http.HandlerFunc(func(w http.ResponseWriter, r *http.Request) {
		innerMu.Lock()
		h := inner[r.Header.Get("X-Verif-Slot")]
		innerMu.Unlock()
		h.ServeHTTP(w, r)
	})))
	var names []string
	for i, chain := range sc.Chains {
		i, chain := i, chain
		st := &reqState{want: [][2]string{{"base", "b"}}}
		states[i] = st
		name := fmt.Sprintf("R%d", i+1)
		names = append(names, name)
		gs[name] = vsched.Go(name, func() {
			vsched.Gate("h.start", nil, nil)
			r := mkRequest(i + 1)
			mine := &sink{}
			_ = mine
			var final http.Handler = http.HandlerFunc(func(w http.ResponseWriter, r *http.Request) {
				w.Header().Set("Etag", fmt.Sprintf("\"etag-%d\"", i+1))
				w.Header().Set("X-Resp", fmt.Sprintf("resp-%d", i+1))
				if id, ok := hlog.IDFromRequest(r); ok {
					st.rid = id.String()
					if w.Header().Get("X-Rid") != st.rid {
						st.rid = "<response header differs: " + w.Header().Get("X-Rid") + ">"
					}
				}
				before := len(s.lines)
				hlog.FromRequest(r).Log().Msg(fmt.Sprintf("req%d", i+1))
				s.mu.Lock()
				for _, ln := range s.lines[before:] {
					if bytes.Contains(ln, []byte(fmt.Sprintf(`"message":"req%d"`, i+1))) {
						st.got = fieldsOf(ln)
						st.n++
					}
				}
				s.mu.Unlock()
			})
			h := final
			for k := len(chain) - 1; k >= 0; k-- {
				mw, want := handlerOf(chain[k], fmt.Sprintf("k%d", k+1), r)
				_ = want
				h = mw(gate(h))
			}
			var post [][2]string
			for k := range chain {
				_, want := handlerOf(chain[k], fmt.Sprintf("k%d", k+1), r)
				if strings.HasPrefix(want, "<post>") {
					// added while unwinding: innermost first
					post = append([][2]string{{fmt.Sprintf("k%d", k+1), strings.TrimPrefix(want, "<post>")}}, post...)
					continue
				}
				st.want = append(st.want, [2]string{fmt.Sprintf("k%d", k+1), want})
			}
			// outermost below NewHandler: logs once more after everything inside has returned
			inner0 := h
			h = http.HandlerFunc(func(w http.ResponseWriter, r *http.Request) {
				inner0.ServeHTTP(w, r)
				before := len(s.lines)
				hlog.FromRequest(r).Log().Msg(fmt.Sprintf("post%d", i+1))
				s.mu.Lock()
				for _, ln := range s.lines[before:] {
					if bytes.Contains(ln, []byte(fmt.Sprintf(`"message":"post%d"`, i+1))) {
						st.gotPost = fieldsOf(ln)
						st.nPost++
					}
				}
				s.mu.Unlock()
			})
			defer func() {
				for j := range st.want {
					if st.want[j][1] == "<rid>" {
						st.want[j][1] = st.rid
					}
				}
				st.wantPost = append(append([][2]string{}, st.want...), post...)
			}()
			slot := fmt.Sprintf("%d", i+1)
			r.Header.Set("X-Verif-Slot", slot)
			innerMu.Lock()
			inner[slot] = h
			innerMu.Unlock()
			root.ServeHTTP(httptest.NewRecorder(), r)
		})
	}
	step := func(n string) bool {
		t := gs[n]
		if t == nil || !vsched.CanRun(t) {
			return true
		}
		return vsched.Step(t) != "HUNG"
	}
	if sc.Free {
		rng := rand.New(rand.NewSource(sc.Seed))
		for i := 0; i < 5000; i++ {
			var en []string
			for _, n := range names {
				if vsched.CanRun(gs[n]) {
					en = append(en, n)
				}
			}
			if len(en) == 0 {
				break
			}
			step(en[rng.Intn(len(en))])
		}
	} else {
		for _, n := range sc.Steps {
			step(n)
		}
	}
	for i := 0; i < 5000; i++ {
		p := false
		for _, n := range names {
			if vsched.CanRun(gs[n]) {
				step(n)
				p = true
			}
		}
		if !p {
			break
		}
	}
	done := true
	for i, st := range states {
		if !gs[names[i]].Done {
			done = false
		}
		if st.gotPost == nil {
			st.gotPost = [][2]string{}
		}
		if st.wantPost == nil {
			st.wantPost = [][2]string{}
		}
		emit(map[string]interface{}{"a": "Req", "r": i + 1, "chain": sc.Chains[i], "got": st.got, "want": st.want, "nevents": st.n,
			"gotpost": st.gotPost, "wantpost": st.wantPost, "npost": st.nPost})
	}
	before := len(s.lines)
	base.Log().Msg("base")
	emit(map[string]interface{}{"a": "Base", "got": fieldsOf(s.lines[before])})
	emit(map[string]interface{}{"a": "End", "done": done})
}

// ---- response proxy

type under struct {
	hdr   http.Header
	fwd   []int
	bytes int
	next  []int // accepted counts for the coming Write / ReadFrom calls
}

func (u *under) Header() http.Header { return u.hdr }
func (u *under) WriteHeader(c int)   { u.fwd = append(u.fwd, c) }
func (u *under) accept(n int) (int, error) {
	acc := n
	if len(u.next) > 0 {
		acc, u.next = u.next[0], u.next[1:]
	}
	if acc > n {
		acc = n
	}
	u.bytes += acc
	if acc == 0 && n > 0 {
		return 0, errors.New("underlying write failed")
	}
	if acc < n {
		return acc, io.ErrShortWrite
	}
	return acc, nil
}
func (u *under) Write(p []byte) (int, error) { return u.accept(len(p)) }

type underFlush struct{ *under }

func (u underFlush) Flush() {}

type underFull struct{ *under }

func (u underFull) Flush()                   {}
func (u underFull) CloseNotify() <-chan bool { return make(chan bool) }
func (u underFull) Hijack() (net.Conn, *bufio.ReadWriter, error) {
	return nil, nil, errors.New("not supported")
}
func (u underFull) ReadFrom(r io.Reader) (int64, error) {
	b, _ := io.ReadAll(r)
	n, err := u.accept(len(b))
	return int64(n), err
}

func playProxy(sc Script) {
	emit(map[string]interface{}{"a": "Reset", "id": sc.ID})
	u := &under{hdr: http.Header{}}
	for _, op := range sc.Ops {
		if op.Op != "WH" && op.Op != "FL" {
			u.next = append(u.next, op.X)
		}
	}
	var w http.ResponseWriter
	switch sc.Cap {
	case "basic":
		w = u
	case "flusher":
		w = underFlush{u}
	default:
		w = underFull{u}
	}
	calls, status, size := 0, -1, -1
	inner := http.HandlerFunc(func(w http.ResponseWriter, r *http.Request) {
		for _, op := range sc.Ops {
			switch op.Op {
			case "WH":
				w.WriteHeader(op.X)
			case "FL":
				if fl, ok := w.(http.Flusher); ok {
					fl.Flush()
				} else {
					panic("Flush scripted but the proxy does not offer it")
				}
			case "W":
				w.Write([]byte("12345"))
			case "RF":
				if rf, ok := w.(io.ReaderFrom); ok {
					rf.ReadFrom(strings.NewReader("1234567"))
				} else {
					panic("ReadFrom scripted but the proxy does not offer it")
				}
			}
		}
	})
	h := hlog.AccessHandler(func(r *http.Request, st, sz int, d time.Duration) { calls++; status, size = st, sz })(inner)
	pan := ""
	func() {
		defer func() {
			if x := recover(); x != nil {
				pan = fmt.Sprint(x)
			}
		}()
		h.ServeHTTP(w, httptest.NewRequest("GET", "/", nil))
	}()
	fwd := u.fwd
	if fwd == nil {
		fwd = []int{}
	}
	emit(map[string]interface{}{"a": "Seq", "cap": sc.Cap, "ops": sc.Ops, "status": status, "size": size, "under": u.bytes, "fwd": fwd, "calls": calls, "panic": pan})
}

func main() {
	in := flag.String("scripts", "", "")
	outp := flag.String("out", "hist.ndjson", "")
	flag.Parse()
	f, err := os.Open(*in)
	if err != nil {
		fmt.Fprintln(os.Stderr, err)
		os.Exit(2)
	}
	of, _ := os.Create(*outp)
	out = bufio.NewWriterSize(of, 1<<20)
	s := bufio.NewScanner(f)
	s.Buffer(make([]byte, 1<<20), 1<<26)
	n := 0
	for s.Scan() {
		if len(bytes.TrimSpace(s.Bytes())) == 0 {
			continue
		}
		var sc Script
		if err := json.Unmarshal(s.Bytes(), &sc); err != nil {
			fmt.Fprintln(os.Stderr, err)
			os.Exit(2)
		}
		if sc.Kind == "proxy" {
			playProxy(sc)
		} else {
			playIso(sc)
		}
		n++
	}
	out.Flush()
	fmt.Printf("played=%d\n", n)
}
