//go:build !binary_log

package main

const buildName = "json"
