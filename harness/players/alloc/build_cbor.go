//go:build binary_log

package main

const buildName = "binary_log"
