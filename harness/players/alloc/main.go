// Player for C07 (zero heap allocation on the documented fast paths). Two builds of the same program:
//   - plain (default and -tags binary_log): testing.AllocsPerRun on every chain (the trusted instrument)
//   - -tags poolshim with the go -overlay shim pool: pool Get/Put counts per chain (pool balance)
//
// Chains come from TLC (spec/logger/AllocChain.tla); arguments are preallocated, as the benchmarks do.
package main

import (
	"bufio"
	"bytes"
	"encoding/json"
	"errors"
	"flag"
	"fmt"
	"math"
	"os"
	"runtime"
	"strings"
	"testing"
	"time"

	"github.com/rs/zerolog"
)

type obj struct{ n int }

func (o *obj) MarshalZerologObject(e *zerolog.Event) { e.Str("name", "x").Int("n", o.n) }

type arrPtr struct{ n int }

func (a *arrPtr) MarshalZerologArray(arr *zerolog.Array) { arr.Int(a.n).Str("x") }

var (
	aArrM               = &arrPtr{3}
	aStrs               = []string{"a", "b"}
	aBytes              = []byte("bytes")
	aBools              = []bool{true, false}
	aInts               = []int{1, -2}
	aInts8              = []int8{1, -2}
	aInts16             = []int16{1, -2}
	aInts32             = []int32{1, -2}
	aInts64             = []int64{1, -2}
	aUints              = []uint{1, 2}
	aU8                 = []uint8{1, 2}
	aU16                = []uint16{1, 2}
	aU32                = []uint32{1, 2}
	aU64                = []uint64{1, 1 << 63}
	aF32                = []float32{1.5, 2}
	aF64                = []float64{1.5, 1e21}
	aTime               = time.Date(2020, 1, 2, 3, 4, 5, 6, time.UTC)
	aTime2              = aTime.Add(-time.Second)
	aTimes              = []time.Time{aTime, aTime2}
	aDurs               = []time.Duration{time.Second, time.Millisecond}
	aErr                = errors.New("plain")
	aObj                = &obj{7}
	aRaw                = []byte(`{"r":1}`)
	aType   interface{} = aObj
	aFunc               = func(e *zerolog.Event) { e.Int("f", 1) }
)

// argument value classes, selected per chain by `variant`: the fast paths are allocation-free for every value, not
// only for the plain ones (strings that need escaping, floats in exponent form and non-finite, extreme integers,
// sub-second and pre-epoch times, durations below the unit)
var variant int

var (
	// class 2 is LONG (more than 32 and more than 64 bytes: beyond any small on-stack conversion buffer) and needs escaping
	vStr  = []string{"value", "needs \"escape\"\n\t", "caf\u00e9 \xff \u2028 " + strings.Repeat("long \"quoted\" tail\n", 4)}
	vStrs = [][]string{{"a", "b"}, {"q\"", "\n", ""}, {"\xff\xfe", "\u00e9", strings.Repeat("x\"y", 20)}}
	vByt  = [][]byte{[]byte("bytes"), []byte("q\"\\\n"), append([]byte{0xff, 0x00, 0x7f, '"'}, bytes.Repeat([]byte("0123456789\"\xc3\xa9"), 6)...)}
	vF32  = []float32{1.5, 1e-7, float32(math.Inf(1))}
	vF64  = []float64{1e21, 1e-7, math.NaN()}
	vFs32 = [][]float32{{1.5, 2}, {1e-7, 3e38}, {float32(math.NaN()), 0}}
	vFs64 = [][]float64{{1.5, 1e21}, {1e-7, 5e-324}, {math.Inf(-1), 0}}
	vI64  = []int64{-5, math.MinInt64, math.MaxInt64}
	vU64  = []uint64{1 << 63, math.MaxUint64, 0}
	// class 0: a weekday with a long name, nine fractional digits, a named zone east of UTC (the longest renderings of the
	// text layouts); class 1: pre-epoch, nine nines, a zone with minutes west of UTC; class 2: the epoch in UTC
	vTime = []time.Time{time.Date(2024, 5, 15, 10, 11, 12, 123456789, time.FixedZone("CEST", 2*3600)),
		time.Date(1960, 1, 2, 3, 4, 5, 999999999, time.FixedZone("", -(3*3600+1800))), time.Unix(0, 0).UTC()}
	vDur  = []time.Duration{time.Second, 250 * time.Nanosecond, -90 * time.Minute}
	vDurs = [][]time.Duration{{time.Second, time.Millisecond}, {1, -1}, {math.MaxInt64, 0}}
	vTms  = [][]time.Time{{vTime[0], vTime[1]}, {vTime[1], vTime[2]}, {vTime[2], vTime[0]}}
)

var (
	bigStr   = strings.Repeat("s", 60000)
	longEsc  = "\"" + strings.Repeat("e", 6000) + "\n\u00e9" + strings.Repeat("f", 6000)
	bigBytes = bytes.Repeat([]byte("b"), 45000)
)

var methods = map[string]func(e *zerolog.Event) *zerolog.Event{
	"Str":       func(e *zerolog.Event) *zerolog.Event { return e.Str("s", vStr[variant]) },
	"Strs":      func(e *zerolog.Event) *zerolog.Event { return e.Strs("ss", vStrs[variant]) },
	"Bytes":     func(e *zerolog.Event) *zerolog.Event { return e.Bytes("b", vByt[variant]) },
	"Hex":       func(e *zerolog.Event) *zerolog.Event { return e.Hex("h", vByt[variant]) },
	"Bool":      func(e *zerolog.Event) *zerolog.Event { return e.Bool("bo", true) },
	"Bools":     func(e *zerolog.Event) *zerolog.Event { return e.Bools("bs", aBools) },
	"Int":       func(e *zerolog.Event) *zerolog.Event { return e.Int("i", -5) },
	"Ints":      func(e *zerolog.Event) *zerolog.Event { return e.Ints("is", aInts) },
	"Int8":      func(e *zerolog.Event) *zerolog.Event { return e.Int8("i8", -5) },
	"Ints8":     func(e *zerolog.Event) *zerolog.Event { return e.Ints8("is8", aInts8) },
	"Int16":     func(e *zerolog.Event) *zerolog.Event { return e.Int16("i16", -5) },
	"Ints16":    func(e *zerolog.Event) *zerolog.Event { return e.Ints16("is16", aInts16) },
	"Int32":     func(e *zerolog.Event) *zerolog.Event { return e.Int32("i32", -5) },
	"Ints32":    func(e *zerolog.Event) *zerolog.Event { return e.Ints32("is32", aInts32) },
	"Int64":     func(e *zerolog.Event) *zerolog.Event { return e.Int64("i64", vI64[variant]) },
	"Ints64":    func(e *zerolog.Event) *zerolog.Event { return e.Ints64("is64", aInts64) },
	"Uint":      func(e *zerolog.Event) *zerolog.Event { return e.Uint("u", 5) },
	"Uints":     func(e *zerolog.Event) *zerolog.Event { return e.Uints("us", aUints) },
	"Uint8":     func(e *zerolog.Event) *zerolog.Event { return e.Uint8("u8", 5) },
	"Uints8":    func(e *zerolog.Event) *zerolog.Event { return e.Uints8("us8", aU8) },
	"Uint16":    func(e *zerolog.Event) *zerolog.Event { return e.Uint16("u16", 5) },
	"Uints16":   func(e *zerolog.Event) *zerolog.Event { return e.Uints16("us16", aU16) },
	"Uint32":    func(e *zerolog.Event) *zerolog.Event { return e.Uint32("u32", 5) },
	"Uints32":   func(e *zerolog.Event) *zerolog.Event { return e.Uints32("us32", aU32) },
	"Uint64":    func(e *zerolog.Event) *zerolog.Event { return e.Uint64("u64", vU64[variant]) },
	"Uints64":   func(e *zerolog.Event) *zerolog.Event { return e.Uints64("us64", aU64) },
	"Float32":   func(e *zerolog.Event) *zerolog.Event { return e.Float32("f32", vF32[variant]) },
	"Floats32":  func(e *zerolog.Event) *zerolog.Event { return e.Floats32("fs32", vFs32[variant]) },
	"Float64":   func(e *zerolog.Event) *zerolog.Event { return e.Float64("f64", vF64[variant]) },
	"Floats64":  func(e *zerolog.Event) *zerolog.Event { return e.Floats64("fs64", vFs64[variant]) },
	"Time":      func(e *zerolog.Event) *zerolog.Event { return e.Time("t", vTime[variant]) },
	"Times":     func(e *zerolog.Event) *zerolog.Event { return e.Times("ts", vTms[variant]) },
	"Dur":       func(e *zerolog.Event) *zerolog.Event { return e.Dur("d", vDur[variant]) },
	"Durs":      func(e *zerolog.Event) *zerolog.Event { return e.Durs("ds", vDurs[variant]) },
	"TimeDiff":  func(e *zerolog.Event) *zerolog.Event { return e.TimeDiff("td", vTime[variant], vTime[(variant+1)%3]) },
	"Timestamp": func(e *zerolog.Event) *zerolog.Event { return e.Timestamp() },
	"Err":       func(e *zerolog.Event) *zerolog.Event { return e.Err(aErr) },
	"AnErr":     func(e *zerolog.Event) *zerolog.Event { return e.AnErr("ae", aErr) },
	"Dict":      func(e *zerolog.Event) *zerolog.Event { return e.Dict("dict", zerolog.Dict().Str("a", "b").Int("n", 1)) },
	"Array":     func(e *zerolog.Event) *zerolog.Event { return e.Array("arr", zerolog.Arr().Int(1).Str("x")) },
	"Object":    func(e *zerolog.Event) *zerolog.Event { return e.Object("obj", aObj) },
	// empty / nil arguments of the same methods
	"IntsInline":     func(e *zerolog.Event) *zerolog.Event { return e.Ints("ii", []int{variant, variant + 1, -variant}) },
	"StrsInline":     func(e *zerolog.Event) *zerolog.Event { return e.Strs("si", []string{vStr[variant], "b"}) },
	"Floats64Inline": func(e *zerolog.Event) *zerolog.Event { return e.Floats64("fi", []float64{vF64[variant], 0.5}) },
	"BoolsInline":    func(e *zerolog.Event) *zerolog.Event { return e.Bools("bi", []bool{variant == 0, true}) },
	"TimesInline":    func(e *zerolog.Event) *zerolog.Event { return e.Times("ti", []time.Time{vTime[variant], vTime[0]}) },
	// Type with a VALUE operand (not a pointer, not a constant): converted to interface{} at the call site, on the stack as long
	// as Type does not let its parameter escape
	"TypeInline": func(e *zerolog.Event) *zerolog.Event { return e.Type("tyi", vF64[variant]).Type("tys", vStr[variant]) },
	"DursInline": func(e *zerolog.Event) *zerolog.Event {
		return e.Durs("di", []time.Duration{vDur[variant], time.Second})
	},
	"StrBig":      func(e *zerolog.Event) *zerolog.Event { return e.Str("big", bigStr) },
	"StrLongEsc":  func(e *zerolog.Event) *zerolog.Event { return e.Str("lesc", longEsc) },
	"BytesBig":    func(e *zerolog.Event) *zerolog.Event { return e.Bytes("bigb", bigBytes) },
	"ArrayEmpty":  func(e *zerolog.Event) *zerolog.Event { return e.Array("arr0", zerolog.Arr()) },
	"DictEmpty":   func(e *zerolog.Event) *zerolog.Event { return e.Dict("dict0", zerolog.Dict()) },
	"StrsEmpty":   func(e *zerolog.Event) *zerolog.Event { return e.Strs("ss0", aStrs[:0]) },
	"IntsNil":     func(e *zerolog.Event) *zerolog.Event { return e.Ints("is0", nil) },
	"BytesEmpty":  func(e *zerolog.Event) *zerolog.Event { return e.Bytes("b0", aBytes[:0]) },
	"StrEmpty":    func(e *zerolog.Event) *zerolog.Event { return e.Str("", "") },
	"ErrNil":      func(e *zerolog.Event) *zerolog.Event { return e.Err(nil) },
	"TimesEmpty":  func(e *zerolog.Event) *zerolog.Event { return e.Times("ts0", aTimes[:0]) },
	"ArrayM":      func(e *zerolog.Event) *zerolog.Event { return e.Array("arrm", aArrM) },
	"EmbedObject": func(e *zerolog.Event) *zerolog.Event { return e.EmbedObject(aObj) },
	"RawJSON":     func(e *zerolog.Event) *zerolog.Event { return e.RawJSON("raw", aRaw) },
	"Type":        func(e *zerolog.Event) *zerolog.Event { return e.Type("ty", aType) },
	"Func":        func(e *zerolog.Event) *zerolog.Event { return e.Func(aFunc) },
}

type Chain struct {
	A       string   `json:"a"`
	Chain   []string `json:"chain"`
	Ctx     string   `json:"ctx"`     // none | fields | ts
	Enabled bool     `json:"enabled"` // false: level-filtered logger
	Fin     string   `json:"fin"`     // Msg | Send
	Var     int      `json:"var"`     // argument value class (see vStr ...): 0 plain, 1 and 2 the corners
	Set     string   `json:"set"`     // global settings: "" default | unix | unixms | unixmicro | unixnano | durint | dursec | prec3
	Pre     int      `json:"pre"`     // > 0: a Dict().Str("k", <pre bytes>) built before the event is opened and added first
	Wr      string   `json:"wr"`      // "" the destination accepts every write | "fail" it fails every write (ErrorHandler: a no-op function)
}

type countW struct {
	n    int
	fail bool // the destination fails every call: the event must still go back to its pool, and nothing may allocate
}

var errDest = errors.New("destination failed")

func (w *countW) Write(p []byte) (int, error) {
	w.n++
	if w.fail {
		return 0, errDest
	}
	return len(p), nil
}

func mkLogger(w *countW, c Chain) zerolog.Logger {
	l := zerolog.New(w)
	switch c.Ctx {
	case "fields":
		l = l.With().Str("svc", "x").Int("pid", 1).Logger()
	case "ts":
		l = l.With().Timestamp().Str("svc", "x").Logger()
	}
	if !c.Enabled {
		l = l.Level(zerolog.ErrorLevel)
	}
	return l
}

// applySet changes the global settings that select a different encoder path and returns the function that restores them.
func applySet(name string) func() {
	tf, du, di, fp := zerolog.TimeFieldFormat, zerolog.DurationFieldUnit, zerolog.DurationFieldInteger, zerolog.FloatingPointPrecision
	switch name {
	case "unix":
		zerolog.TimeFieldFormat = zerolog.TimeFormatUnix
	case "unixms":
		zerolog.TimeFieldFormat = zerolog.TimeFormatUnixMs
	case "unixmicro":
		zerolog.TimeFieldFormat = zerolog.TimeFormatUnixMicro
	case "unixnano":
		zerolog.TimeFieldFormat = zerolog.TimeFormatUnixNano
	case "rfc3339nano":
		zerolog.TimeFieldFormat = time.RFC3339Nano
	case "rfc850":
		zerolog.TimeFieldFormat = time.RFC850
	case "rfc1123z":
		zerolog.TimeFieldFormat = time.RFC1123Z
	case "longlayout":
		zerolog.TimeFieldFormat = "Monday, 02-January-2006 15:04:05.000000000 -07:00 MST (day 002)"
	case "durint":
		zerolog.DurationFieldInteger = true
	case "dursec":
		zerolog.DurationFieldUnit = time.Second
	case "prec3":
		zerolog.FloatingPointPrecision = 3
	}
	return func() {
		zerolog.TimeFieldFormat, zerolog.DurationFieldUnit, zerolog.DurationFieldInteger, zerolog.FloatingPointPrecision = tf, du, di, fp
	}
}

// stamp is the clock of Timestamp() and of the context timestamp hook: the time of the current value class
func stamp() time.Time { return vTime[variant] }

// preDict > 0: a zerolog.Dict() with one string of that length is built BEFORE the event is opened (so the same pooled object
// is the dictionary on every call) and added first; lengths around 493 make the dictionary's content end exactly at the
// capacity of its pooled 500-byte buffer, where appending the end marker has to grow it
var (
	preDict int
	preVal  = strings.Repeat("d", 1100)
)

func runChain(l *zerolog.Logger, ops []func(*zerolog.Event) *zerolog.Event, send bool) {
	var pre *zerolog.Event
	if preDict > 0 {
		pre = zerolog.Dict().Str("k", preVal[:preDict])
	}
	e := l.Info()
	if pre != nil {
		e = e.Dict("pd", pre)
	}
	for _, op := range ops {
		e = op(e)
	}
	if send {
		e.Send()
	} else {
		e.Msg("m")
	}
}

func main() {
	in := flag.String("scripts", "", "")
	outp := flag.String("out", "hist.ndjson", "")
	flag.Parse()
	f, err := os.Open(*in)
	if err != nil {
		fmt.Fprintln(os.Stderr, err)
		os.Exit(2)
	}
	of, _ := os.Create(*outp)
	out := bufio.NewWriterSize(of, 1<<20)
	out.WriteString(`{"a":"Reset"}` + "\n")
	sc := bufio.NewScanner(f)
	sc.Buffer(make([]byte, 1<<20), 1<<26)
	n := 0
	for sc.Scan() {
		if len(bytes.TrimSpace(sc.Bytes())) == 0 {
			continue
		}
		var c Chain
		if err := json.Unmarshal(sc.Bytes(), &c); err != nil {
			fmt.Fprintln(os.Stderr, err)
			os.Exit(2)
		}
		ops := make([]func(*zerolog.Event) *zerolog.Event, len(c.Chain))
		for i, m := range c.Chain {
			if ops[i] = methods[m]; ops[i] == nil {
				fmt.Fprintln(os.Stderr, "unknown method", m)
				os.Exit(2)
			}
		}
		variant = c.Var % 3
		preDict = c.Pre
		zerolog.TimestampFunc = stamp
		restore := applySet(c.Set)
		w := &countW{fail: c.Wr == "fail"}
		oldEH := zerolog.ErrorHandler
		if w.fail {
			zerolog.ErrorHandler = func(error) {}
		}
		l := mkLogger(w, c)
		send := c.Fin == "Send"
		rec := map[string]interface{}{"a": "Chain", "chain": c.Chain, "ctx": c.Ctx, "enabled": c.Enabled, "fin": c.Fin, "build": buildName}
		rec["var"], rec["set"] = c.Var, c.Set
		measure(&l, ops, send, w, rec)
		restore()
		zerolog.ErrorHandler = oldEH
		rec["wr"] = c.Wr
		b, _ := json.Marshal(rec)
		out.Write(b)
		out.WriteByte('\n')
		n++
	}
	out.Flush()
	fmt.Printf("played=%d\n", n)
}

func measureAllocs(l *zerolog.Logger, ops []func(*zerolog.Event) *zerolog.Event, send bool, w *countW, rec map[string]interface{}) {
	if preDict > 0 {
		// the capacity boundary is that of a FRESH pooled buffer: two collections empty sync.Pool (and its victim cache), so
		// the objects this chain warms up with are new ones
		runtime.GC()
		runtime.GC()
	}
	for i := 0; i < 20; i++ { // warm the pools
		runChain(l, ops, send)
	}
	w.n = 0
	runs := 100
	a := testing.AllocsPerRun(runs, func() { runChain(l, ops, send) })
	rec["allocs"] = int(a)
	rec["writes_per_run"] = float64(w.n) / float64(runs+1) // AllocsPerRun runs f once more to warm up
	rec["gets"], rec["puts"] = 0, 0
}
