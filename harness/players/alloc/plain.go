//go:build !poolshim

package main

import "github.com/rs/zerolog"

func measure(l *zerolog.Logger, ops []func(*zerolog.Event) *zerolog.Event, send bool, w *countW, rec map[string]interface{}) {
	measureAllocs(l, ops, send, w, rec)
	rec["kind"] = "allocs"
}
