//go:build poolshim

package main

import (
	"github.com/rs/zerolog"
	"github.com/rs/zerolog/zzverif/vsync"
)

// pool balance: with the shim pool, count Get and Put of one complete logging call from a warm state
func measure(l *zerolog.Logger, ops []func(*zerolog.Event) *zerolog.Event, send bool, w *countW, rec map[string]interface{}) {
	for i := 0; i < 3; i++ {
		runChain(l, ops, send)
	}
	gets, puts, fresh := 0, 0, 0
	vsync.PoolTrace = func(op string, p *vsync.Pool, obj interface{}, isNew bool) {
		if op == "get" {
			gets++
			if isNew {
				fresh++
			}
		} else {
			puts++
		}
	}
	w.n = 0
	runChain(l, ops, send)
	vsync.PoolTrace = nil
	rec["kind"] = "pool"
	rec["gets"], rec["puts"], rec["fresh"] = gets, puts, fresh
	rec["allocs"] = 0
	rec["writes_per_run"] = float64(w.n)
}
