// Player for the diode family (C10, C11, C12). Built with `go build -overlay`
// against the working tree of /repo: every sync/atomic, sync, context and
// channel operation of diode/ and diode/internal/diodes is a scheduler gate.
//
// Reads scripts (one JSON object per line), replays each on the real
// diode.Writer by releasing one goroutine per step, and writes two
// recordings: obs (observable events -> DiodeContract) and impl (every gate
// step with the projected ring state -> DiodeImpl conformance).
package main

import (
	"bufio"
	"bytes"
	"encoding/json"
	"errors"
	"flag"
	"fmt"
	"hash/crc32"
	"io"
	"log"
	"math/rand"
	"os"
	"os/exec"
	"strings"
	"sync"
	"time"

	"github.com/rs/zerolog"
	"github.com/rs/zerolog/diode"
	"github.com/rs/zerolog/zzverif/vatomic"
	"github.com/rs/zerolog/zzverif/vsched"
	"github.com/rs/zerolog/zzverif/vsync"
)

type Script struct {
	ID      string   `json:"id"`
	P       int      `json:"P"`
	W       int      `json:"W"`
	N       int      `json:"N"`
	Mode    string   `json:"mode"` // waiter | poller
	Steps   []string `json:"steps"`
	Quiesce bool     `json:"quiesce"`
	Block   bool     `json:"block"` // wrapped writer never returns
	Free    bool     `json:"free"`
	Foreign bool     `json:"foreign"` // generated from a model with other constants: skipped steps are expected
	Seed    int64    `json:"seed"`
	Again   bool     `json:"again"`   // after Close returned: two late Writes and a second Close
	Inner   bool     `json:"inner"`   // the wrapped writer's Close closes ANOTHER diode writer (a destination that is itself buffered): two writers alive at once
	Fatal   string   `json:"fatal"`   // "one" | "two": real goroutines in a child process that ends with Logger.Fatal (the process exit is Close's return)
	Late    bool     `json:"late"`    // producers go on writing after Close was called (free walks): outside C11's accounting, inside C10
	NoAlert bool     `json:"noalert"` // the writer is created with a nil alerter: drops are not reported to anybody (no accounting), everything else holds
	Werr    int      `json:"werr"`    // > 0: the wrapped writer's Werr-th Write returns an error (once): delivery goes on all the same
}

type ev map[string]interface{}

var (
	obsW, implW *bufio.Writer
	curObs      []ev
)

// emitMu: records normally come from one goroutine at a time (the scheduler's), but code under test may call back (the
// alerter) from a goroutine it started itself
var emitMu sync.Mutex

func emit(w *bufio.Writer, e ev) {
	b, _ := json.Marshal(e)
	emitMu.Lock()
	w.Write(b)
	w.WriteByte('\n')
	emitMu.Unlock()
}

func obs(e ev) {
	emitMu.Lock()
	curObs = append(curObs, e)
	emitMu.Unlock()
	emit(obsW, e)
}

// payload: the caller's buffer for message m. Lengths vary (below and above the pooled 500 bytes); every fourth message
// lives in a buffer whose CAPACITY is far larger than its length and than the 64 KiB recycling limit (a reused scratch
// buffer): the diode must deliver the bytes as they were at Write whatever the buffer looks like.
// emptyMsg: the one message of a script that is EMPTY (P1's second): a zero-length Write is a Write like any other
const emptyMsg = 102

func payload(m int) []byte {
	if m == emptyMsg {
		return []byte{}
	}
	n := 8 + (m%3)*300
	if m%7 == 3 {
		n = 70000 // longer than the 64 KiB above which the writer does not recycle its copy
	}
	c := n + 16
	if m%4 == 1 {
		c = 70 * 1024
	}
	b := make([]byte, 0, c)
	b = append(b, fmt.Sprintf("m%d:", m)...)
	for i := 0; len(b) < n; i++ {
		b = append(b, byte('a'+(m+i)%26))
	}
	return append(b, '\n')
}

func identify(p []byte) int {
	if len(p) == 0 {
		return emptyMsg
	}
	if len(p) < 3 || p[0] != 'm' {
		return -1
	}
	i := bytes.IndexByte(p, ':')
	if i < 0 {
		return -1
	}
	var m int
	if _, err := fmt.Sscanf(string(p[1:i]), "%d", &m); err != nil {
		return -1
	}
	if !bytes.Equal(p, payload(m)) {
		return -1
	}
	return m
}

type recWriter struct {
	inner    io.Closer
	failAt   int
	block    bool
	closed   bool
	dstarts  int
	inWrite  bool
	overlaps int
}

func (r *recWriter) Write(p []byte) (int, error) {
	m := identify(p)
	sum := crc32.ChecksumIEEE(p)
	r.dstarts++
	obs(ev{"a": "DStart", "m": m, "len": len(p)})
	vsched.Gate("w.write", func() bool { return !r.block }, nil)
	stable := crc32.ChecksumIEEE(p) == sum && identify(p) == m
	obs(ev{"a": "DEnd", "stable": stable})
	if r.failAt > 0 && r.dstarts == r.failAt {
		return 0, errors.New("sink failed once")
	}
	return len(p), nil
}

func (r *recWriter) Close() error {
	r.closed = true
	if r.inner != nil {
		// the destination is itself buffered by a diode writer of its own: closing the outer one closes it too. Writers are
		// independent objects - Close of one returns whatever state another one is in
		return r.inner.Close()
	}
	return nil
}

type nopCloser struct{}

func (nopCloser) Write(p []byte) (int, error) { return len(p), nil }
func (nopCloser) Close() error                { return nil }

type collW struct{ n int }

func (c *collW) Write(p []byte) (int, error) {
	// the only thing the diode package writes to the standard logger is its collision notice; its wording is not part of
	// the contract, so any line counts
	c.n++
	obs(ev{"a": "Collision"})
	return len(p), nil
}

func canon(name string) string {
	second := ""
	if strings.HasSuffix(name, "#2") { // goroutines of the second writer of a run (Inner scripts)
		second = "2"
	}
	switch {
	case strings.HasPrefix(name, "diode.NewWriter"):
		return "C" + second
	case strings.HasPrefix(name, "diodes.NewWaiter"):
		return "X" + second
	}
	return name
}

type run struct {
	sc        Script
	w         diode.Writer
	rw        *recWriter
	threads   map[string]*vsched.G // canonical name -> goroutine
	order     []string
	inWrite   map[string]bool // producer is inside Write
	pdone     map[string]bool
	started   int
	returned  int
	closing   bool
	closed    bool
	lastQ     int
	steps     int
	drift     int
	hung      bool
	cancelled bool
	pblocked  bool
	npanics   int
	prevLive  bool
	ptrAtLive int
}

func (r *run) producersIdle() bool {
	for _, v := range r.inWrite {
		if v {
			return false
		}
	}
	return true
}

func (r *run) allProducersDone() bool {
	for p := 1; p <= r.sc.P; p++ {
		if !r.pdone[fmt.Sprintf("P%d", p)] {
			return false
		}
	}
	return true
}

func (r *run) refresh() {
	for _, n := range vsched.Names() {
		c := canon(n)
		if _, ok := r.threads[c]; !ok {
			r.threads[c] = vsched.Lookup(n)
			r.order = append(r.order, c)
		}
	}
}

// safePeek: the state peek is the PLAYER reading the ring's counters; if that itself panics (unaligned 64-bit fields on a
// 32-bit build) the recording simply carries no ring projection - the code under test will meet the same problem by itself
func safePeek(w diode.Writer) (widx, ridx uint64, seqs []int64, ok bool) {
	defer func() {
		if recover() != nil {
			ok = false
		}
	}()
	return diode.VerifPeek(w)
}

func (r *run) state() ev {
	st := ev{}
	widx, ridx, seqs, ok := safePeek(r.w)
	if ok {
		st["widx"] = int64(widx)
		st["ridx"] = int64(ridx)
		st["seqs"] = seqs
	}
	g := ev{}
	for _, n := range r.order {
		t := r.threads[n]
		if t == nil {
			continue
		}
		l := t.Label
		if t.Done {
			l = "end"
		}
		g[n] = l
	}
	st["g"] = g
	st["peek"] = ok
	return st
}

// step releases thread name once; returns false if it could not run.
func (r *run) step(name string, scripted bool) bool {
	t := r.threads[name]
	if t == nil || !vsched.CanRun(t) {
		if scripted {
			r.drift++
			emit(implW, ev{"a": "Skip", "t": name, "expected": r.sc.Quiesce || r.sc.Foreign})
		}
		return false
	}
	from := t.Label
	l := vsched.Step(t)
	r.steps++
	if l == "HUNG" {
		r.hung = true
		emit(implW, ev{"a": "Hung", "t": name, "from": from})
		return false
	}
	r.refresh()
	st := r.state()
	emit(implW, ev{"a": "Step", "t": name, "from": from, "to": l, "st": st})
	// when the message that is live at readIndex arrived there, how many slot operations the consumer had made: at a quiesce
	// point the difference tells whether the consumer has looked at a slot SINCE that message became available
	if live := liveAtRidx(st); live != r.prevLive {
		r.prevLive = live
		if live {
			r.ptrAtLive = vatomic.PtrOpsOf("diode.NewWriter")
		}
	}
	// a goroutine of the code under test that panicked (reported once each)
	for r.npanics < len(vsched.Panics) {
		obs(ev{"a": "GPanic", "msg": vsched.Panics[r.npanics]})
		r.npanics++
	}
	// producers never wait for anybody: a producer that is inside Write must be able to take its next step whatever the
	// other goroutines are doing (no lock, no condition). Reported once per run.
	if !r.pblocked {
		for _, n := range r.order {
			if pt := r.threads[n]; strings.HasPrefix(n, "P") && pt != nil && r.inWrite[n] && !pt.Done && !vsched.CanRun(pt) {
				r.pblocked = true
				obs(ev{"a": "PBlocked", "p": n, "at": pt.Label, "while": name + "@" + l})
				break
			}
		}
	}
	return true
}

func (r *run) quiesce(final bool) {
	c, x := r.threads["C"], r.threads["X"]
	sleeps := 0
	for i := 0; i < 2000 && !r.hung; i++ {
		progressed := false
		if vsched.CanRun(c) {
			before := r.rw.dstarts
			r.step("C", false)
			if r.rw.dstarts != before {
				sleeps = 0
			} else if c.Label == "time.sleep" {
				sleeps++
			}
			progressed = true
		}
		if x != nil && vsched.CanRun(x) {
			r.step("X", false)
			progressed = true
		}
		if !progressed || (r.sc.Mode == "poller" && sleeps >= 2) {
			break
		}
	}
	st := r.state()
	e := ev{"a": "Quiesce", "mode": r.sc.Mode, "cg": c.Label, "cen": vsched.CanRun(c), "cancelled": r.cancelled, "final": final}
	// how many registered waiters the most recent Broadcast found, if a producer issued it (-1 otherwise): the recorded
	// lost wake-up is a producer's broadcast that finds NOBODY registered, with nothing happening afterwards
	pbwoke := -1
	if strings.HasPrefix(vsync.LastBroadcastBy, "P") {
		pbwoke = vsync.LastBroadcastN
	}
	e["pbwoke"] = pbwoke
	_, e["peek"] = st["seqs"].([]int64)
	e["liveAtRidx"] = liveAtRidx(st)
	// slot operations of the consumer since the live message arrived at readIndex: 0 in the recorded race (the consumer
	// looked BEFORE the message was there, and parked)
	e["cptr"] = vatomic.PtrOpsOf("diode.NewWriter") - r.ptrAtLive
	obs(e)
	r.lastQ = r.returned
}

func liveAtRidx(st ev) bool {
	seqs, ok := st["seqs"].([]int64)
	if !ok || len(seqs) == 0 {
		return false
	}
	ridx := st["ridx"].(int64)
	return seqs[int(ridx)%len(seqs)] >= ridx
}

func (r *run) maybeQuiesce() {
	if r.sc.Quiesce && !r.closing && !r.sc.Block && r.producersIdle() && r.returned > r.lastQ {
		r.quiesce(false)
	}
}

// ---- the Fatal path: Logger.Fatal closes the writer and exits. A child process (real goroutines, scheduler off) logs ten
// events and a Fatal one through a Logger over a diode writer whose destination is slow; every Write, delivery, alert and the
// first Close is appended to a file as it happens (one write(2) per record), the parent turns the file into a recording and
// the exit of the process into CloseRet: everything written before must have reached the destination by then.
// "two": while the first Fatal is draining, a second goroutine calls Fatal on a sibling logger whose level filters the event
// (it writes nothing, but Fatal exits all the same): the process must still not end before the ring is empty.

type fatalW struct {
	dw      diode.Writer
	line    func(ev)
	once    sync.Once
	entered chan struct{}
}

func fatalID(p []byte) int {
	var x struct {
		M int `json:"m"`
	}
	if json.Unmarshal(bytes.TrimSpace(p), &x) != nil {
		return -1
	}
	return x.M
}

func (w *fatalW) Write(p []byte) (int, error) {
	m := fatalID(p)
	w.line(ev{"a": "WStart", "m": m})
	n, err := w.dw.Write(p)
	w.line(ev{"a": "WRet", "m": m, "n": n, "err": err != nil})
	return n, err
}

func (w *fatalW) Close() error {
	w.once.Do(func() { w.line(ev{"a": "CloseStart"}); close(w.entered) })
	return w.dw.Close()
}

type noCloseLW struct{}

func (noCloseLW) Write(p []byte) (int, error)                       { return len(p), nil }
func (noCloseLW) WriteLevel(l zerolog.Level, p []byte) (int, error) { return len(p), nil }

type fatalSink struct {
	line func(ev)
}

func (s *fatalSink) Write(p []byte) (int, error) {
	s.line(ev{"a": "DStart", "m": fatalID(p), "len": len(p)})
	time.Sleep(4 * time.Millisecond)
	s.line(ev{"a": "DEnd", "stable": true})
	return len(p), nil
}

func (s *fatalSink) Close() error { s.line(ev{"a": "SinkClosed"}); return nil }

func fatalChild(kind, mode, path string) {
	vsched.Free = true
	f, err := os.OpenFile(path, os.O_CREATE|os.O_WRONLY|os.O_APPEND, 0o644)
	if err != nil {
		os.Exit(97)
	}
	var mu sync.Mutex
	line := func(e ev) {
		b, _ := json.Marshal(e)
		mu.Lock()
		f.Write(append(b, '\n'))
		mu.Unlock()
	}
	interval := time.Duration(0)
	if mode == "poller" {
		interval = time.Millisecond
	}
	dw := diode.NewWriter(&fatalSink{line}, 64, interval, func(n int) { line(ev{"a": "Alert", "n": n, "async": false}) })
	w := &fatalW{dw: dw, line: line, entered: make(chan struct{})}
	lg := zerolog.New(w)
	if kind == "fan" {
		// the diode writer is one destination of a fan-out, behind a level-aware destination that has no Close method: Fatal
		// closes the fan-out, which closes every destination that can be closed
		lg = zerolog.New(zerolog.MultiLevelWriter(noCloseLW{}, w))
	}
	for k := 1; k <= 10; k++ {
		lg.Info().Int("m", k).Msg("")
	}
	switch kind {
	case "one", "fan":
		lg.Fatal().Int("m", 99).Msg("")
	case "two":
		go func() { lg.Fatal().Int("m", 99).Msg("") }()
		<-w.entered
		time.Sleep(2 * time.Millisecond)
		sib := lg.Level(zerolog.Disabled)
		sib.Fatal().Msg("filtered")
	}
	time.Sleep(10 * time.Second)
	os.Exit(96) // not reached if Fatal exits
}

func playFatal(sc Script) {
	obs(ev{"a": "Reset", "id": sc.ID, "N": 64, "P": 1, "W": 11, "mode": sc.Mode, "block": false, "noalert": false})
	emit(implW, ev{"a": "Reset", "id": sc.ID, "N": 64, "P": 1, "W": 11, "mode": sc.Mode})
	tmp, _ := os.CreateTemp("", "verif-diode-fatal-*")
	tmp.Close()
	defer os.Remove(tmp.Name())
	cmd := exec.Command(os.Args[0])
	cmd.Env = append(os.Environ(), "VERIF_DIODE_FATAL="+sc.Fatal, "VERIF_DIODE_FATAL_MODE="+sc.Mode, "VERIF_DIODE_FATAL_FILE="+tmp.Name())
	err := cmd.Run()
	code := 0
	if ee, ok := err.(*exec.ExitError); ok {
		code = ee.ExitCode()
	} else if err != nil {
		code = -1
	}
	data, _ := os.ReadFile(tmp.Name())
	wclosed := false
	for _, ln := range bytes.Split(data, []byte("\n")) {
		if len(bytes.TrimSpace(ln)) == 0 {
			continue
		}
		var e ev
		if json.Unmarshal(ln, &e) != nil {
			continue // a record cut off by the exit
		}
		if e["a"] == "SinkClosed" {
			wclosed = true
			continue
		}
		for _, k := range []string{"m", "n", "len"} { // numbers as integers, as in the scheduled recordings
			if x, ok := e[k].(float64); ok {
				e[k] = int(x)
			}
		}
		obs(e)
	}
	if code == 1 {
		obs(ev{"a": "CloseRet", "wclosed": wclosed, "exit": code})
	} else {
		obs(ev{"a": "Stuck", "g": map[string]string{}, "cancelled": true, "steps": 0, "exit": code})
	}
	emit(implW, ev{"a": "End", "steps": 0, "drift": 0})
}

func play(sc Script) (hung bool) {
	if sc.Fatal != "" {
		playFatal(sc)
		return false
	}
	vsched.Reset()
	vsched.KeepPanics = true
	vatomic.ResetPtrOps()
	for k := range vsync.LastBroadcastWoke {
		delete(vsync.LastBroadcastWoke, k)
	}
	vsync.LastBroadcastBy, vsync.LastBroadcastN = "", 0
	curObs = curObs[:0]
	r := &run{sc: sc, threads: map[string]*vsched.G{}, inWrite: map[string]bool{}, pdone: map[string]bool{}}
	obs(ev{"a": "Reset", "id": sc.ID, "N": sc.N, "P": sc.P, "W": sc.W, "mode": sc.Mode, "block": sc.Block, "noalert": sc.NoAlert})
	emit(implW, ev{"a": "Reset", "id": sc.ID, "N": sc.N, "P": sc.P, "W": sc.W, "mode": sc.Mode})
	r.rw = &recWriter{block: sc.Block, failAt: sc.Werr}
	interval := time.Duration(0)
	if sc.Mode == "poller" {
		interval = time.Millisecond
	}
	var alerter diode.Alerter = func(missed int) {
		// async: the alerter was not called on a goroutine of the schedule (the consumer, inside TryNext) but on one the code
		// started for it - a report that is not ordered with Close, and dies with the process on the Fatal path
		obs(ev{"a": "Alert", "n": missed, "async": !vsched.Managed()})
	}
	if sc.NoAlert {
		alerter = nil
	}
	r.w = diode.NewWriter(r.rw, sc.N, interval, alerter)
	if sc.Inner {
		r.rw.inner = diode.NewWriter(nopCloser{}, 2, interval, nil)
	}
	for p := 1; p <= sc.P; p++ {
		p := p
		name := fmt.Sprintf("P%d", p)
		vsched.Go(name, func() {
			for k := 1; k <= sc.W; k++ {
				vsched.Gate("p.write", func() bool { return !r.closing || sc.Late }, nil)
				m := p*100 + k
				buf := payload(m)
				r.inWrite[name] = true
				r.started++
				obs(ev{"a": "WStart", "m": m})
				n, err := r.w.Write(buf)
				for i := range buf { // the caller reuses its buffer, as zerolog's pooled events do
					buf[i] = '#'
				}
				r.inWrite[name] = false
				r.returned++
				obs(ev{"a": "WRet", "m": m, "n": n, "err": err != nil})
			}
			r.pdone[name] = true
		})
	}
	vsched.Go("CL", func() {
		vsched.Gate("cl.close", func() bool { return r.producersIdle() }, nil)
		r.closing = true
		obs(ev{"a": "CloseStart"})
		r.cancelled = true // set when ctx.cancel gate is passed; close enough for signatures (only read at Quiesce, never while closing)
		r.w.Close()
		r.closed = true
		obs(ev{"a": "CloseRet", "wclosed": r.rw.closed})
		if sc.Again {
			// Close has returned: the writer is finished. Writes that arrive later have nowhere to go and a second Close has
			// nothing to do - in particular nobody may hand anything to the wrapped writer any more (a DStart now is a violation)
			r.w.Write(payload(9001))
			r.w.Write(payload(9004))
			r.w.Close()
		}
	})
	r.cancelled = false
	r.refresh()
	emit(implW, ev{"a": "Init", "st": r.state()})

	if sc.Free {
		rng := rand.New(rand.NewSource(sc.Seed))
		closeAt := rng.Intn(4)                   // 0: only when all producers are done
		lateAfter := 1 + rng.Intn(sc.P*sc.W/2+1) // Late: Close is called at the first idle moment after that many Writes returned
		for i := 0; i < 3000 && !r.hung; i++ {
			var en []string
			for _, n := range r.order {
				if n == "CL" && !r.closing && !(r.allProducersDone() || (closeAt == 1 && rng.Intn(40) == 0) || (sc.Late && r.returned >= lateAfter)) {
					continue
				}
				if sc.Block && n == "CL" {
					continue
				}
				if vsched.CanRun(r.threads[n]) {
					en = append(en, n)
				}
			}
			if len(en) == 0 {
				break
			}
			// PCT flavour: stick with the previous thread most of the time
			n := en[rng.Intn(len(en))]
			r.step(n, false)
			r.maybeQuiesce()
		}
	} else {
		for _, s := range sc.Steps {
			if r.hung {
				break
			}
			r.step(s, true)
			r.maybeQuiesce()
		}
	}
	// finish: deterministic round-robin until everything has ended or nothing can run
	for i := 0; i < 400 && !r.hung && r.steps < 6000; i++ {
		if sc.Quiesce && !r.closing && !sc.Block && r.allProducersDone() && r.lastQ < r.returned {
			r.quiesce(true)
		}
		progressed := false
		for _, n := range r.order {
			if sc.Block && n == "CL" {
				continue
			}
			if n == "CL" && !r.closing && !r.allProducersDone() {
				continue
			}
			if vsched.CanRun(r.threads[n]) {
				r.step(n, false)
				progressed = true
				r.maybeQuiesce()
			}
		}
		if !progressed {
			break
		}
	}
	if r.hung {
		return true
	}
	if sc.Block {
		obs(ev{"a": "EndBlocked", "total": sc.P * sc.W})
	} else if !r.closed {
		st := r.state()
		obs(ev{"a": "Stuck", "g": st["g"], "cancelled": r.cancelled, "steps": r.steps})
	}
	emit(implW, ev{"a": "End", "steps": r.steps, "drift": r.drift})
	return false
}

func main() {
	if k := os.Getenv("VERIF_DIODE_FATAL"); k != "" {
		fatalChild(k, os.Getenv("VERIF_DIODE_FATAL_MODE"), os.Getenv("VERIF_DIODE_FATAL_FILE"))
		return
	}
	in := flag.String("scripts", "", "scripts ndjson")
	obsPath := flag.String("obs", "obs.ndjson", "observable recording")
	implPath := flag.String("impl", "impl.ndjson", "gate-step recording")
	flag.Parse()
	cw := &collW{}
	log.SetOutput(cw)
	log.SetFlags(0)
	f, err := os.Open(*in)
	if err != nil {
		fmt.Fprintln(os.Stderr, err)
		os.Exit(2)
	}
	of, _ := os.Create(*obsPath)
	pf, _ := os.Create(*implPath)
	obsW, implW = bufio.NewWriterSize(of, 1<<20), bufio.NewWriterSize(pf, 1<<20)
	sc := bufio.NewScanner(f)
	sc.Buffer(make([]byte, 1<<20), 1<<26)
	n, hung := 0, 0
	for sc.Scan() {
		if len(bytes.TrimSpace(sc.Bytes())) == 0 {
			continue
		}
		var s Script
		if err := json.Unmarshal(sc.Bytes(), &s); err != nil {
			fmt.Fprintln(os.Stderr, "bad script:", err)
			os.Exit(2)
		}
		if play(s) {
			hung++
		}
		n++
	}
	obsW.Flush()
	implW.Flush()
	fmt.Printf("played=%d hung=%d\n", n, hung)
	if hung > 0 {
		os.Exit(3)
	}
}
