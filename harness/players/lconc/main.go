// Player for C06 (concurrent logging) and the pool discipline of C07. Built with -overlay: sync in
// event.go, array.go and writer.go is the gate shim (sync.Pool = deterministic LIFO with gates at
// Get/Put, SyncWriter's mutex gated), and the recording destination has a gate inside Write, so a
// script decides exactly how the goroutines interleave around pool and writer operations.
package main

import (
	"bufio"
	"bytes"
	"encoding/json"
	"errors"
	"flag"
	"fmt"
	"hash/crc32"
	"io"
	"math/rand"
	"os"
	"strings"

	"github.com/rs/zerolog"
	"github.com/rs/zerolog/zzverif/vsched"
	"github.com/rs/zerolog/zzverif/vsync"
)

type Script struct {
	ID     string     `json:"id"`
	Shapes [][]string `json:"shapes"` // per goroutine, per event
	Steps  []string   `json:"steps"`
	Sync   bool       `json:"sync"`
	Free   bool       `json:"free"`
	Seed   int64      `json:"seed"`
	Wrap   int        `json:"wrap"` // with Sync: 0 one shared SyncWriter; 1 odd goroutines / 2 all goroutines log through SyncWriter(shared)
}

type ev map[string]interface{}

var out *bufio.Writer

func emit(e ev) { b, _ := json.Marshal(e); out.Write(b); out.WriteByte('\n') }

var big = strings.Repeat("B", 70*1024)
var mid = strings.Repeat("m", 700)

var errProbe = errors.New("probe")

type hk struct{}

func (hk) Run(e *zerolog.Event, l zerolog.Level, m string) { e.Bool("hooked", true) }

// dropHook discards the events whose message is "drop"; yieldHook is user code in a hook that may block or be preempted.
// Registered in this order: a discarded event still runs the later hooks, and is never written.
type dropHook struct{}

func (dropHook) Run(e *zerolog.Event, l zerolog.Level, m string) {
	if m == "drop" {
		e.Discard()
	}
}

type yieldHook struct{}

func (yieldHook) Run(e *zerolog.Event, l zerolog.Level, m string) { vsched.Gate("user.hook", nil, nil) }

func logOne(l *zerolog.Logger, g, k int, shape string) {
	switch shape {
	case "ctxobj": // a child logger derived on this goroutine, with a user marshaler in its context
		c := l.With().Object("co", objM{g, k}).Logger()
		l = &c
	case "ctxarr":
		c := l.With().Array("ca", arrM{g, k}).Logger()
		l = &c
	case "drop": // a logger whose first hook discards the event and whose second hook is a scheduling point
		c := l.Hook(dropHook{}, yieldHook{})
		l = &c
	}
	if shape == "flat" && (g+k)%3 == 1 {
		// a logger with the stack flag logging an error: the flag must not outlive the event in the pooled object
		c := l.With().Stack().Logger()
		l = &c
	}
	e := l.Info().Int("g", g).Int("k", k)
	switch shape {
	case "flat":
		if (g+k)%2 == 0 {
			e = e.Str("pad", mid) // beyond the pooled 500 bytes: the buffer grows
		}
		if (g+k)%3 == 1 {
			e = e.Err(errProbe)
		}
	case "dict":
		if (g+k)%3 == 2 {
			// an error inside a Dict() of a logger WITHOUT the stack flag: never a "stack" member, whoever used the pooled event before
			e = e.Dict("d", zerolog.Dict().Int("x", g*100+k).Err(errProbe))
			break
		}
		e = e.Dict("d", zerolog.Dict().Int("x", g*100+k).Str("s", "v"))
	case "arr":
		e = e.Array("a", zerolog.Arr().Int(g).Int(k).Str("z"))
	case "carr":
		e = e.Array("a", arrM{g, k})
	case "obj":
		e = e.Object("o", objM{g, k})
	case "big":
		e = e.Str("pad", big)
	case "fobj":
		e = e.Fields(map[string]interface{}{"fo": objM{g, k}})
	}
	if shape == "drop" {
		e.Msg("drop")
		return
	}
	e.Msg("m")
}

type arrM struct{ g, k int }

func (a arrM) MarshalZerologArray(arr *zerolog.Array) {
	arr.Int(a.g)
	vsched.Gate("user.marshal", nil, nil) // user code may block or be preempted here
	arr.Int(a.k).Str("z")
}

type objM struct{ g, k int }

func (o objM) MarshalZerologObject(e *zerolog.Event) {
	e.Int("og", o.g)
	vsched.Gate("user.marshal", nil, nil)
	e.Int("ok", o.k)
}

// pool operations with the object's identity (ids in order of creation, as EventLife numbers them)
var (
	poolsSeen  = map[*vsync.Pool]bool{}
	objID      = map[interface{}]int{}
	nextObj    int
	tracePools bool
)

func gnum(name string) int {
	n := 0
	fmt.Sscanf(name, "G%d", &n)
	return n
}

func poolTrace(op string, p *vsync.Pool, obj interface{}, fresh bool) {
	poolsSeen[p] = true
	if !tracePools {
		return
	}
	kind := "?"
	switch obj.(type) {
	case *zerolog.Event:
		kind = "e"
	case *zerolog.Array:
		kind = "a"
	}
	id, ok := objID[obj]
	if !ok {
		nextObj++
		id = nextObj
		objID[obj] = id
	}
	emit(ev{"a": "Pool", "g": gnum(vsched.Current()), "op": op, "kind": kind, "obj": id, "fresh": fresh})
}

type recW struct {
	expect map[string][]byte
	nw     map[string]int // writes the same call chain makes when run alone (0: the event is discarded by a hook)
}

func (w *recW) Write(p []byte) (int, error) {
	by := vsched.Current()
	var m struct {
		G *int `json:"g"`
		K *int `json:"k"`
	}
	g, k := -1, -1
	if json.Unmarshal(bytes.TrimSpace(p), &m) == nil && m.G != nil && m.K != nil {
		g, k = *m.G, *m.K
	}
	intact := bytes.Equal(p, w.expect[fmt.Sprintf("%d/%d", g, k)])
	sum := crc32.ChecksumIEEE(p)
	emit(ev{"a": "WStart", "by": by, "g": g, "k": k, "intact": intact, "n": len(p)})
	vsched.Gate("w.write", nil, nil)
	emit(ev{"a": "WEnd", "by": by, "stable": crc32.ChecksumIEEE(p) == sum})
	return len(p), nil
}

func play(sc Script) bool {
	vsched.Reset()
	vsync.PoolGates = true
	emit(ev{"a": "Reset", "id": sc.ID, "sync": sc.Sync, "wrap": sc.Wrap, "G": len(sc.Shapes)})
	w := &recW{expect: map[string][]byte{}, nw: map[string]int{}}
	mk := func(dst io.Writer) []*zerolog.Logger {
		base := zerolog.New(dst)
		ls := make([]*zerolog.Logger, len(sc.Shapes))
		for g := range sc.Shapes {
			l := base
			switch g % 3 {
			case 1:
				l = base.With().Int("child", g).Logger()
			case 2:
				l = base.Hook(hk{})
			}
			ll := l
			ls[g] = &ll
		}
		return ls
	}
	// what each call chain produces when run alone (main goroutine: gates are passed straight through)
	for g, shapes := range sc.Shapes {
		for k, sh := range shapes {
			var b bytes.Buffer
			logOne(mk(&b)[g], g+1, k+1, sh)
			w.expect[fmt.Sprintf("%d/%d", g+1, k+1)] = append([]byte(nil), b.Bytes()...)
			w.nw[fmt.Sprintf("%d/%d", g+1, k+1)] = bytes.Count(b.Bytes(), []byte("\n"))
		}
	}
	// the run-alone renderings above used the pools: empty them, so that the pools start as EventLife's do
	for p := range poolsSeen {
		p.Drain()
	}
	objID, nextObj = map[interface{}]int{}, 0
	tracePools = true
	defer func() { tracePools = false }()
	var dst io.Writer = w
	if sc.Sync {
		dst = zerolog.SyncWriter(w)
	}
	loggers := mk(dst)
	// the same destination reached through further SyncWriter wrappers built around the shared one: goroutines that log
	// through different wrappers must still never be inside the destination's Write together
	if sc.Sync && sc.Wrap > 0 {
		for g := range sc.Shapes {
			if sc.Wrap == 2 || g%2 == 1 {
				loggers[g] = mk(zerolog.SyncWriter(dst))[g]
			}
		}
	}
	gs := map[string]*vsched.G{}
	var names []string
	for g := range sc.Shapes {
		g := g
		name := fmt.Sprintf("G%d", g+1)
		names = append(names, name)
		gs[name] = vsched.Go(name, func() {
			for k, sh := range sc.Shapes[g] {
				vsched.Gate("l.event", nil, nil)
				emit(ev{"a": "EvStart", "g": g + 1, "k": k + 1, "shape": sh, "nw": w.nw[fmt.Sprintf("%d/%d", g+1, k+1)]})
				logOne(loggers[g], g+1, k+1, sh)
				emit(ev{"a": "EvEnd", "g": g + 1, "k": k + 1})
			}
		})
	}
	skipped := 0
	step := func(n string, scripted bool) bool {
		t := gs[n]
		if t == nil || !vsched.CanRun(t) {
			if scripted {
				skipped++
			}
			return true
		}
		// implementation-level record of the gate that is passed now (pool gates are recorded with the object's identity by
		// the pool shim itself, l.event by EvStart): conformance of the real gate sequence to EventLife.tla
		switch t.Label {
		case "user.marshal", "user.hook", "mu.lock", "mu.unlock", "w.write":
			emit(ev{"a": "Gate", "g": gnum(n), "label": t.Label})
		}
		return vsched.Step(t) != "HUNG"
	}
	if sc.Free {
		rng := rand.New(rand.NewSource(sc.Seed))
		for i := 0; i < 20000; i++ {
			var en []string
			for _, n := range names {
				if vsched.CanRun(gs[n]) {
					en = append(en, n)
				}
			}
			if len(en) == 0 {
				break
			}
			if !step(en[rng.Intn(len(en))], false) {
				return true
			}
		}
	} else {
		for _, n := range sc.Steps {
			if !step(n, true) {
				return true
			}
		}
	}
	for i := 0; i < 20000; i++ {
		p := false
		for _, n := range names {
			if vsched.CanRun(gs[n]) {
				if !step(n, false) {
					return true
				}
				p = true
			}
		}
		if !p {
			break
		}
	}
	done := true
	for _, n := range names {
		if !gs[n].Done {
			done = false
		}
	}
	emit(ev{"a": "End", "done": done, "skipped": skipped})
	return false
}

func main() {
	zerolog.ErrorStackMarshaler = func(err error) interface{} { return "stk" }
	vsync.PoolTrace = poolTrace
	in := flag.String("scripts", "", "")
	outp := flag.String("out", "conc.ndjson", "")
	flag.Parse()
	f, err := os.Open(*in)
	if err != nil {
		fmt.Fprintln(os.Stderr, err)
		os.Exit(2)
	}
	of, _ := os.Create(*outp)
	out = bufio.NewWriterSize(of, 1<<20)
	s := bufio.NewScanner(f)
	s.Buffer(make([]byte, 1<<20), 1<<26)
	n, hung := 0, 0
	for s.Scan() {
		if len(bytes.TrimSpace(s.Bytes())) == 0 {
			continue
		}
		var sc Script
		if err := json.Unmarshal(s.Bytes(), &sc); err != nil {
			fmt.Fprintln(os.Stderr, err)
			os.Exit(2)
		}
		if play(sc) {
			hung++
		}
		n++
	}
	out.Flush()
	fmt.Printf("played=%d hung=%d\n", n, hung)
	if hung > 0 {
		os.Exit(3)
	}
}
