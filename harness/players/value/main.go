// Player for C02 (logged values decode back to what was logged, through every entry point). For one
// (type, value, settings) case it logs the value through every entry point that can carry the type,
// cuts the rendered value out of the line, and checks with independent standard-library decoders that
// it denotes the argument.
package main

import (
	"bufio"
	"bytes"
	"encoding/base64"
	"encoding/hex"
	"encoding/json"
	"flag"
	"fmt"
	"math"
	"net"
	"os"
	"strconv"
	"time"

	"verifharness/prog"
)

type Case struct {
	ID      string            `json:"id"`
	Type    string            `json:"type"`  // value kind: int, uint, float32, float64, string, bytes, hex, bool, time, dur, ip, mac, prefix, rawcbor, error, nilerror, stringer
	Class   string            `json:"class"` // value class (echoed)
	TType   string            `json:"ttype"` // type name of spec/logger/ValueDoc.tla (echoed)
	Setting string            `json:"setting"`
	Set     prog.Settings     `json:"set"`
	Entries map[string]string `json:"entries"` // entry point -> method name
	TV      prog.TV           `json:"tv"`      // the value (scalar)
	FT      string            `json:"ft"`      // Go type name for Fields
	Slice   *prog.TV          `json:"slice"`   // the value as a one-element slice (slice variant)
}

func b(s string) *prog.B { x := prog.B(s); return &x }

// program for one entry point, with the exact prefix and suffix around the rendered value
func build(c *Case, entry, method string) (p *prog.Program, pre, suf string) {
	tv := c.TV
	op := prog.Op{M: method, K: b("k"), V: &tv}
	p = &prog.Program{ID: c.ID, Set: c.Set, Level: 6, Fin: "Send"}
	switch entry {
	case "event":
		p.Ev = []prog.Op{op}
		return p, `{"k":`, "}\n"
	case "context":
		p.Derive = []prog.Step{{IsWith: true, With: []prog.Op{op}}}
		return p, `{"k":`, "}\n"
	case "array":
		el := prog.Op{M: method, V: &tv}
		p.Ev = []prog.Op{{M: "Array", K: b("k"), E: []prog.Op{el}}}
		return p, `{"k":[`, "]}\n"
	case "dict":
		p.Ev = []prog.Op{{M: "Dict", K: b("d"), F: []prog.Op{op}}}
		return p, `{"d":{"k":`, "}}\n"
	case "object":
		p.Ev = []prog.Op{{M: "Object", K: b("o"), F: []prog.Op{op}}}
		return p, `{"o":{"k":`, "}}\n"
	case "fieldsmap", "fieldsslice", "fieldsptr", "ctxfields":
		ft := tv
		ft.T = c.FT
		ft.Ptr = entry == "fieldsptr"
		f := prog.Op{M: "Fields", Map: entry != "fieldsslice", KV: []prog.KV{{K: prog.B("k"), V: &ft}}}
		if entry == "ctxfields" {
			p.Derive = []prog.Step{{IsWith: true, With: []prog.Op{f}}}
		} else {
			p.Ev = []prog.Op{f}
		}
		return p, `{"k":`, "}\n"
	case "slice":
		sl := triple(c.Slice)
		p.Ev = []prog.Op{{M: method, K: b("k"), V: &sl}}
		return p, `{"k":[`, "]}\n"
	case "fieldsofslice":
		ft := triple(c.Slice)
		ft.T = "[]" + c.FT
		p.Ev = []prog.Op{{M: "Fields", Map: true, KV: []prog.KV{{K: prog.B("k"), V: &ft}}}}
		return p, `{"k":[`, "]}\n"
	}
	panic("unknown entry " + entry)
}

// triple: the slice variants are exercised with THREE copies of the value, so that an element's rendering
// cannot depend on its position (first element vs. the loop over the rest)
func triple(tv *prog.TV) prog.TV {
	t := *tv
	if len(t.IS) == 1 {
		t.IS = []string{t.IS[0], t.IS[0], t.IS[0]}
	}
	if len(t.XS) == 1 {
		t.XS = []string{t.XS[0], t.XS[0], t.XS[0]}
	}
	if len(t.BS) == 1 {
		t.BS = []bool{t.BS[0], t.BS[0], t.BS[0]}
	}
	if len(t.SS) == 1 {
		t.SS = []*prog.B{t.SS[0], t.SS[0], t.SS[0]}
	}
	return t
}

// untriple: raw is the inside of the array; it must be three identical elements
func untriple(raw []byte) ([]byte, bool) {
	var parts []json.RawMessage
	if err := json.Unmarshal(append(append([]byte("["), raw...), ']'), &parts); err != nil || len(parts) != 3 {
		return nil, false
	}
	if !bytes.Equal(parts[0], parts[1]) || !bytes.Equal(parts[0], parts[2]) {
		return nil, false
	}
	if len(raw) != 3*len(parts[0])+2 { // no extra white space or separators
		return nil, false
	}
	return parts[0], true
}

func sanitize(s []byte) string { // each invalid UTF-8 byte becomes U+FFFD, as encoding/json does
	var out []rune
	for _, r := range string(s) {
		out = append(out, r)
	}
	return string(out)
}

func atoi(s string) int64  { n, _ := strconv.ParseInt(s, 10, 64); return n }
func f64(x string) float64 { u, _ := strconv.ParseUint(x, 0, 64); return math.Float64frombits(u) }
func f32(x string) float32 {
	u, _ := strconv.ParseUint(x, 0, 32)
	return math.Float32frombits(uint32(u))
}

func floatOK(raw []byte, v float64, bits int) (bool, string) {
	switch {
	case math.IsNaN(v):
		return string(raw) == `"NaN"`, "str"
	case math.IsInf(v, 1):
		return string(raw) == `"+Inf"`, "str"
	case math.IsInf(v, -1):
		return string(raw) == `"-Inf"`, "str"
	}
	var want []byte
	if bits == 32 {
		want, _ = json.Marshal(float32(v)) // "rendered the way encoding/json renders them"
	} else {
		want, _ = json.Marshal(v)
	}
	layout := "fixed"
	if bytes.ContainsAny(raw, "eE") {
		layout = "exp"
	}
	// and it parses back to the identical float
	back, err := strconv.ParseFloat(string(raw), bits)
	same := err == nil && (back == v || (back == 0 && v == 0))
	return bytes.Equal(raw, want) && same, layout
}

// decodeBack: does raw denote the argument? kind: extra classification used by the contract tables
func decodeBack(c *Case, raw []byte) (ok bool, kind string) {
	tv := &c.TV
	switch c.Type {
	case "int":
		n, err := strconv.ParseInt(string(raw), 10, 64)
		return err == nil && strconv.FormatInt(n, 10) == tv.I && string(raw) == tv.I, "int"
	case "uint":
		n, err := strconv.ParseUint(string(raw), 10, 64)
		return err == nil && strconv.FormatUint(n, 10) == tv.I && string(raw) == tv.I, "int"
	case "float32":
		return floatOK(raw, float64(f32(tv.X)), 32)
	case "float64":
		return floatOK(raw, f64(tv.X), 64)
	case "bool":
		return string(raw) == strconv.FormatBool(tv.Bo), "bool"
	case "string", "bytes", "error", "stringer":
		var s string
		if err := json.Unmarshal(raw, &s); err != nil {
			return false, "str"
		}
		want := sanitize(tv.S)
		if c.Set.ErrMarshal == "string" && c.Type == "error" {
			want = "E:" + want
		}
		return s == want, "str"
	case "hex":
		return string(raw) == `"`+hex.EncodeToString(tv.S)+`"`, "str"
	case "rawcbor":
		return string(raw) == `"data:application/cbor;base64,`+base64.StdEncoding.EncodeToString(tv.S)+`"`, "str"
	case "time":
		t := time.Unix(0, atoi(tv.I)).UTC()
		f := "2006-01-02T15:04:05Z07:00"
		if c.Set.TimeFieldFormat != nil {
			f = *c.Set.TimeFieldFormat
		}
		switch f {
		case "":
			return string(raw) == strconv.FormatInt(t.Unix(), 10), "int"
		case "UNIXMS":
			return string(raw) == strconv.FormatInt(t.UnixNano()/1e6, 10), "int"
		case "UNIXMICRO":
			return string(raw) == strconv.FormatInt(t.UnixNano()/1e3, 10), "int"
		case "UNIXNANO":
			return string(raw) == strconv.FormatInt(t.UnixNano(), 10), "int"
		}
		return string(raw) == `"`+t.Format(f)+`"`, "str"
	case "dur":
		d := time.Duration(atoi(tv.I))
		unit := time.Millisecond
		if c.Set.DurUnit != nil {
			unit = time.Duration(*c.Set.DurUnit)
		}
		if c.Set.DurInt != nil && *c.Set.DurInt {
			return string(raw) == strconv.FormatInt(int64(d/unit), 10), "int"
		}
		ok, _ := floatOK(raw, float64(d)/float64(unit), 64)
		return ok, "float"
	case "ip":
		return string(raw) == `"`+net.IP(tv.IP).String()+`"`, "str"
	case "mac":
		return string(raw) == `"`+net.HardwareAddr(tv.IP).String()+`"`, "str"
	case "prefix":
		n := net.IPNet{IP: net.IP(tv.IP), Mask: net.IPMask(tv.Mask)}
		return string(raw) == `"`+n.String()+`"`, "str"
	case "nilerror":
		return string(raw) == "null", "null"
	}
	return false, "?"
}

func main() {
	in := flag.String("scripts", "", "")
	outp := flag.String("out", "hist.ndjson", "")
	flag.Parse()
	f, err := os.Open(*in)
	if err != nil {
		fmt.Fprintln(os.Stderr, err)
		os.Exit(2)
	}
	of, _ := os.Create(*outp)
	w := bufio.NewWriterSize(of, 1<<20)
	w.WriteString(`{"a":"Reset"}` + "\n")
	sc := bufio.NewScanner(f)
	sc.Buffer(make([]byte, 1<<20), 1<<26)
	n := 0
	for sc.Scan() {
		if len(bytes.TrimSpace(sc.Bytes())) == 0 {
			continue
		}
		var c Case
		if err := json.Unmarshal(sc.Bytes(), &c); err != nil {
			fmt.Fprintln(os.Stderr, err)
			os.Exit(2)
		}
		type er struct {
			Entry string `json:"entry"`
			Raw   string `json:"raw"`
			OK    bool   `json:"ok"`
			Kind  string `json:"kind"`
			Field bool   `json:"field"` // a field / element was written at all
			Panic string `json:"panic"`
		}
		var ers []er
		for entry, method := range c.Entries {
			p, pre, suf := build(&c, entry, method)
			res := prog.Run(p)
			r := er{Entry: entry, Panic: res.Panic}
			if len(res.Writes) == 1 {
				out := res.Writes[0]
				if bytes.HasPrefix(out, []byte(pre)) && bytes.HasSuffix(out, []byte(suf)) && len(out) >= len(pre)+len(suf) {
					raw := out[len(pre) : len(out)-len(suf)]
					r.Field = true
					if entry == "slice" || entry == "fieldsofslice" {
						if one, ok := untriple(raw); ok {
							raw = one
						} else {
							raw = append([]byte("elements differ or wrong count: "), raw...)
						}
					}
					r.Raw = hex.EncodeToString(raw)
					r.OK, r.Kind = decodeBack(&c, raw)
				} else {
					r.Raw = "line:" + hex.EncodeToString(out)
				}
			}
			ers = append(ers, r)
		}
		// deterministic order
		for i := range ers {
			for j := i + 1; j < len(ers); j++ {
				if ers[j].Entry < ers[i].Entry {
					ers[i], ers[j] = ers[j], ers[i]
				}
			}
		}
		b, _ := json.Marshal(map[string]interface{}{"a": "Val", "id": c.ID, "type": c.Type, "ttype": c.TType, "setting": c.Setting, "class": c.Class, "set": c.Set, "entries": ers})
		w.Write(b)
		w.WriteByte('\n')
		n++
	}
	w.Flush()
	fmt.Printf("played=%d\n", n)
}
