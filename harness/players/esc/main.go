// Player for the string-escaping contract (spec/logger/JsonString.tla): every input byte string is logged as a
// string value, a []byte value and a member name, and what the code wrote between the quotes is recorded. In the
// binary_log build the event is passed through the bundled CBOR-to-JSON decoder first (its own copy of the algorithm).
package main

import (
	"bufio"
	"bytes"
	"encoding/hex"
	"encoding/json"
	"flag"
	"fmt"
	"os"

	"github.com/rs/zerolog"
)

func ints(b []byte) []int {
	out := make([]int, len(b))
	for i, x := range b {
		out[i] = int(x)
	}
	return out
}

// body returns what stands between prefix and suffix of line, or nil.
func body(line []byte, prefix, suffix string) []int {
	if !bytes.HasPrefix(line, []byte(prefix)) || !bytes.HasSuffix(line, []byte(suffix)) || len(line) < len(prefix)+len(suffix) {
		return []int{-1}
	}
	return ints(line[len(prefix) : len(line)-len(suffix)])
}

func main() {
	in := flag.String("scripts", "", "")
	outp := flag.String("out", "hist.ndjson", "")
	flag.Parse()
	f, err := os.Open(*in)
	if err != nil {
		fmt.Fprintln(os.Stderr, err)
		os.Exit(2)
	}
	of, _ := os.Create(*outp)
	w := bufio.NewWriterSize(of, 1<<20)
	w.WriteString(`{"a":"Reset"}` + "\n")
	sc := bufio.NewScanner(f)
	sc.Buffer(make([]byte, 1<<20), 1<<24)
	n := 0
	emit := func(via string, inb []byte, out []int) {
		b, _ := json.Marshal(map[string]interface{}{"a": "Esc", "via": prefix + via, "in": ints(inb), "out": out})
		w.Write(b)
		w.WriteByte('\n')
	}
	for sc.Scan() {
		line := bytes.TrimSpace(sc.Bytes())
		if len(line) == 0 {
			continue
		}
		var c struct {
			Hex string `json:"hex"`
		}
		if err := json.Unmarshal(line, &c); err != nil {
			fmt.Fprintln(os.Stderr, err)
			os.Exit(2)
		}
		s, _ := hex.DecodeString(c.Hex)
		var buf bytes.Buffer
		l := zerolog.New(&buf)
		l.Log().Str("k", string(s)).Send()
		emit("Str", s, body(render(buf.Bytes()), `{"k":"`, "\"}\n"))
		buf.Reset()
		l.Log().Bytes("k", s).Send()
		emit("Bytes", s, body(render(buf.Bytes()), `{"k":"`, "\"}\n"))
		buf.Reset()
		l.Log().Int(string(s), 1).Send()
		emit("Key", s, body(render(buf.Bytes()), `{"`, "\":1}\n"))
		n++
	}
	w.Flush()
	fmt.Printf("played=%d\n", n)
}
