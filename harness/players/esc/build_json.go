//go:build !binary_log

package main

const prefix = ""

func render(out []byte) []byte { return out }
