//go:build binary_log

package main

import "github.com/rs/zerolog"

const prefix = "dec-"

// render: the bundled decoder's JSON rendering of the binary event
func render(out []byte) []byte { return zerolog.VerifDecodeIfBinary(out) }
