// Auxiliary observation for C13 (DESIGN 3.7): BasicSampler and BurstSampler hammered by real
// goroutines on the UNinstrumented build under the Go race detector. Emits a recording for
// BasicConcTrace (total share at quiescence) ; a race report makes the process exit 66.
package main

import (
	"encoding/json"
	"flag"
	"fmt"
	"os"
	"sync"

	"github.com/rs/zerolog"
)

func main() {
	rounds := flag.Int("rounds", 50, "")
	outp := flag.String("out", "race.ndjson", "")
	flag.Parse()
	of, _ := os.Create(*outp)
	defer of.Close()
	enc := json.NewEncoder(of)
	for r := 0; r < *rounds; r++ {
		n := uint32([]int{2, 3, 5, 7}[r%4])
		g, k := 8, 500+r
		s := &zerolog.BasicSampler{N: n}
		adm := make([]int, g)
		var wg sync.WaitGroup
		for i := 0; i < g; i++ {
			wg.Add(1)
			go func(i int) {
				defer wg.Done()
				for j := 0; j < k; j++ {
					if s.Sample(zerolog.InfoLevel) {
						adm[i]++
					}
				}
			}(i)
		}
		wg.Wait()
		total := 0
		for _, a := range adm {
			total += a
		}
		enc.Encode(map[string]interface{}{"a": "Reset", "N": n, "id": fmt.Sprintf("race-%d", r)})
		enc.Encode(map[string]interface{}{"a": "Bulk", "calls": g * k, "admitted": total})
		// BurstSampler shares counters between goroutines too: only data races are looked for here
		b := &zerolog.BurstSampler{Burst: 3, Period: 1000, NextSampler: &zerolog.BasicSampler{N: 2}}
		for i := 0; i < g; i++ {
			wg.Add(1)
			go func() {
				defer wg.Done()
				for j := 0; j < 200; j++ {
					b.Sample(zerolog.InfoLevel)
				}
			}()
		}
		wg.Wait()
	}
}
