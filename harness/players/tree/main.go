// Player for C05 (derived loggers are independent values): replays derivation programs over value
// slots (spec/logger/LoggerTree.tla) on the real API. Slots hold real zerolog.Logger / zerolog.Context
// values; every Emit sends probe events through the slot's logger and records which fields, hooks, Go
// context, level and destination the real logger had.
package main

import (
	"bufio"
	"bytes"
	"context"
	"encoding/json"
	"errors"
	"flag"
	"fmt"
	"os"
	"runtime"
	"strings"
	"time"

	"github.com/rs/zerolog"
	"verifharness/prog"
)

type Step struct {
	Op string `json:"op"`
	I  int    `json:"i"`
	J  int    `json:"j"`
	A  int    `json:"a"`
}

type Script struct {
	ID    string `json:"id"`
	S     int    `json:"S"`
	Steps []Step `json:"steps"`
}

type slot struct {
	kind string // "", "L", "C"
	l    zerolog.Logger
	c    zerolog.Context
}

type dest struct {
	id    int
	lines [][]byte
}

func (d *dest) Write(p []byte) (int, error) {
	d.lines = append(d.lines, append([]byte(nil), p...))
	return len(p), nil
}

type hookRec struct {
	id  int
	log *[]int
	ctx *[]int
}

func ctxVal(c context.Context) int {
	if v, ok := c.Value(prog.CtxKey{}).(int); ok {
		return v
	}
	return 0
}

func (h hookRec) Run(e *zerolog.Event, l zerolog.Level, m string) {
	e.Int(fmt.Sprintf("h%d", h.id), 1) // visible in the event: the order of ALL hooks (user and library) is read off the line
	*h.log = append(*h.log, h.id)
	*h.ctx = append(*h.ctx, ctxVal(e.GetCtx()))
}

type ctxProbe struct{ seen *[]int }

func (p ctxProbe) MarshalZerologObject(e *zerolog.Event) {
	*p.seen = append(*p.seen, ctxVal(e.GetCtx()))
	e.Int("p", 1)
}

func fieldIDs(line []byte) []int {
	ids := []int{}
	lx := prog.LexJSON(bytes.TrimSuffix(line, []byte("\n")))
	for _, k := range lx.Keys {
		if k.D == 0 && strings.HasPrefix(k.K, "f") {
			var n int
			if _, err := fmt.Sscanf(k.K[1:], "%d", &n); err == nil {
				ids = append(ids, n)
			}
		}
	}
	return ids
}

// hookObs: what an event shows of its hooks, in order: h<n> (user hook n) as n, the time field as -1, the caller field as
// -(10+k) where k says which function of the call tower t0 <- t1 <- t2 <- t3 it names.
func hookObs(line []byte) []int {
	obs := []int{}
	dec := json.NewDecoder(bytes.NewReader(line))
	if t, err := dec.Token(); err != nil || t != json.Delim('{') {
		return obs
	}
	for dec.More() {
		kt, err := dec.Token()
		if err != nil {
			break
		}
		key, _ := kt.(string)
		var val json.RawMessage
		if dec.Decode(&val) != nil {
			break
		}
		var n int
		switch {
		case key == "time":
			obs = append(obs, -1)
		case key == "caller":
			var c string
			json.Unmarshal(val, &c)
			if len(c) == 2 && c[0] == 't' {
				obs = append(obs, -(10 + int(c[1]-'0')))
			} else {
				obs = append(obs, -99)
			}
		case strings.HasPrefix(key, "h"):
			if _, err := fmt.Sscanf(key[1:], "%d", &n); err == nil {
				obs = append(obs, n)
			}
		}
	}
	return obs
}

// the call tower: the probe event is sent from t0, which is called by t1, t2, t3, so that a caller hook registered with k
// more frames to skip names t<k>
//
//go:noinline
func t0(l *zerolog.Logger, nested *[]int) {
	l.Warn().Array("arr", zerolog.Arr().Object(ctxProbe{nested})).Dict("dict", zerolog.Dict().Object("o", ctxProbe{nested})).Msg("w")
}

//go:noinline
func t1(l *zerolog.Logger, nested *[]int) { t0(l, nested) }

//go:noinline
func t2(l *zerolog.Logger, nested *[]int) { t1(l, nested) }

//go:noinline
func t3(l *zerolog.Logger, nested *[]int) { t2(l, nested) }

var pad = strings.Repeat("x", 150)

func play(sc Script, out *bufio.Writer) {
	emit := func(v interface{}) { b, _ := json.Marshal(v); out.Write(b); out.WriteByte('\n') }
	emit(map[string]interface{}{"a": "Reset", "id": sc.ID, "S": sc.S})
	dests := map[int]*dest{0: {id: 0}}
	destOf := map[int]int{1: 0} // slot -> destination id (tracked by the player only to find the lines)
	slots := make([]slot, sc.S+1)
	slots[1] = slot{kind: "L", l: zerolog.New(dests[0])}
	var hookLog, hookCtx []int
	for n, st := range sc.Steps {
		rec := map[string]interface{}{"a": st.Op, "i": st.I, "j": st.J, "arg": st.A}
		src := slots[st.I]
		switch st.Op {
		case "With":
			slots[st.J] = slot{kind: "C", c: src.l.With()}
			destOf[st.J] = destOf[st.I]
		case "Field":
			slots[st.J] = slot{kind: "C", c: src.c.Str(fmt.Sprintf("f%d", st.A), pad)}
			destOf[st.J] = destOf[st.I]
		case "GoCtx":
			slots[st.J] = slot{kind: "C", c: src.c.Ctx(context.WithValue(context.Background(), prog.CtxKey{}, st.A))}
			destOf[st.J] = destOf[st.I]
		case "Stack":
			slots[st.J] = slot{kind: "C", c: src.c.Stack()}
			destOf[st.J] = destOf[st.I]
		case "CtxReset":
			slots[st.J] = slot{kind: "C", c: src.c.Reset()}
			destOf[st.J] = destOf[st.I]
		case "Logger":
			slots[st.J] = slot{kind: "L", l: src.c.Logger()}
			destOf[st.J] = destOf[st.I]
		case "Level":
			slots[st.J] = slot{kind: "L", l: src.l.Level(zerolog.Level(st.A))}
			destOf[st.J] = destOf[st.I]
		case "Hook":
			slots[st.J] = slot{kind: "L", l: src.l.Hook(hookRec{st.A, &hookLog, &hookCtx})}
			destOf[st.J] = destOf[st.I]
		case "CtxHook":
			switch {
			case st.A == -1:
				slots[st.J] = slot{kind: "C", c: src.c.Timestamp()}
			case st.A == -10 && n%2 == 0:
				slots[st.J] = slot{kind: "C", c: src.c.Caller()}
			default:
				slots[st.J] = slot{kind: "C", c: src.c.CallerWithSkipFrameCount(zerolog.CallerSkipFrameCount + (-st.A - 10))}
			}
			destOf[st.J] = destOf[st.I]
		case "Output":
			d := &dest{id: n + 1}
			dests[d.id] = d
			slots[st.J] = slot{kind: "L", l: src.l.Output(d)}
			destOf[st.J] = d.id
		case "Update":
			l := slots[st.I].l
			key := fmt.Sprintf("f%d", st.A)
			l.UpdateContext(func(c zerolog.Context) zerolog.Context { return c.Str(key, pad) })
			slots[st.I].l = l
		case "UpdateReset":
			l := slots[st.I].l
			key := fmt.Sprintf("f%d", st.A)
			l.UpdateContext(func(c zerolog.Context) zerolog.Context { return c.Reset().Str(key, pad) })
			slots[st.I].l = l
		case "Drop":
			slots[st.I] = slot{}
		case "Emit":
			l := slots[st.I].l
			for _, d := range dests {
				d.lines = nil
			}
			hookLog, hookCtx = nil, nil
			var nested []int
			l.Debug().Msg("d")
			l.Info().Msg("i")
			nDebugInfo := 0
			for _, d := range dests {
				nDebugInfo += len(d.lines)
			}
			wroteDebug, wroteInfo := false, false
			for _, d := range dests {
				for _, ln := range d.lines {
					if bytes.Contains(ln, []byte(`"message":"d"`)) {
						wroteDebug = true
					}
					if bytes.Contains(ln, []byte(`"message":"i"`)) {
						wroteInfo = true
					}
				}
				d.lines = nil
			}
			hookLog, hookCtx = nil, nil
			t3(&l, &nested)
			got := -1
			var line []byte
			total := 0
			for id, d := range dests {
				total += len(d.lines)
				if len(d.lines) > 0 {
					got, line = id, d.lines[0]
				}
			}
			rec["writes"] = total
			rec["dest"] = got
			rec["fields"] = fieldIDs(line)
			rec["hooks"] = append([]int{}, hookLog...)
			rec["hookobs"] = hookObs(line)
			// the per-event override of the Go context: Ctx(nil) means "no context" (hooks see the background context) and
			// Ctx(c) means c, whatever context the logger carries
			hookLog, hookCtx = nil, nil
			l.Warn().Ctx(nil).Msg("n") //nolint:staticcheck // a nil context is exactly the case
			rec["hookctxnil"] = append([]int{}, hookCtx...)
			hookLog, hookCtx = nil, nil
			l.Warn().Ctx(context.WithValue(context.Background(), prog.CtxKey{}, 99)).Msg("s")
			rec["hookctxset"] = append([]int{}, hookCtx...)
			hookLog, hookCtx = nil, nil
			rec["hookctx"] = append([]int{}, hookCtx...)
			rec["nested"] = append([]int{}, nested...)
			rec["debug"] = wroteDebug
			rec["info"] = wroteInfo
			// the stack flag: an error logged through this logger carries a "stack" member iff its own derivation called
			// Stack(); a Dict() built BEFORE the event is opened, or inside the call chain, is a temporary no logger
			// created: it never carries one, whatever the pooled object did in its previous life
			stackTop, stackNested := false, false
			for pass := 0; pass < 2; pass++ {
				for _, d := range dests {
					d.lines = nil
				}
				if pass == 0 {
					pre := zerolog.Dict().Err(errProbe)
					l.Error().Err(errProbe).Dict("sd", pre).Msg("s")
				} else {
					l.Error().Dict("sd", zerolog.Dict().Err(errProbe)).Err(errProbe).Msg("s")
				}
				for _, d := range dests {
					for _, ln := range d.lines {
						var m map[string]interface{}
						if json.Unmarshal(bytes.TrimSpace(ln), &m) != nil {
							continue
						}
						if _, ok := m["stack"]; ok {
							stackTop = true
						} else if pass == 0 {
							// both passes must agree with the flag; a missing stack in either shows as false below
						}
						if sd, ok := m["sd"].(map[string]interface{}); ok {
							if _, ok := sd["stack"]; ok {
								stackNested = true
							}
						}
					}
				}
			}
			rec["stacktop"] = stackTop
			rec["stacknested"] = stackNested
			rec["valid"] = json.Valid(bytes.TrimSuffix(line, []byte("\n")))
		}
		emit(rec)
	}
}

var errProbe = errors.New("probe")

func main() {
	zerolog.ErrorStackMarshaler = func(err error) interface{} { return "stk" }
	zerolog.TimestampFunc = func() time.Time { return time.Unix(981173106, 0).UTC() }
	zerolog.CallerMarshalFunc = func(pc uintptr, file string, line int) string {
		name := ""
		if f := runtime.FuncForPC(pc); f != nil {
			name = f.Name()
		}
		return name[strings.LastIndex(name, ".")+1:]
	}
	in := flag.String("scripts", "", "")
	outp := flag.String("out", "hist.ndjson", "")
	flag.Parse()
	f, err := os.Open(*in)
	if err != nil {
		fmt.Fprintln(os.Stderr, err)
		os.Exit(2)
	}
	of, _ := os.Create(*outp)
	out := bufio.NewWriterSize(of, 1<<20)
	sc := bufio.NewScanner(f)
	sc.Buffer(make([]byte, 1<<20), 1<<26)
	n := 0
	for sc.Scan() {
		if len(bytes.TrimSpace(sc.Bytes())) == 0 {
			continue
		}
		var s Script
		if err := json.Unmarshal(sc.Bytes(), &s); err != nil {
			fmt.Fprintln(os.Stderr, err)
			os.Exit(2)
		}
		func() {
			defer func() {
				if x := recover(); x != nil {
					b, _ := json.Marshal(map[string]interface{}{"a": "Panic", "msg": fmt.Sprint(x)})
					out.Write(b)
					out.WriteByte('\n')
				}
			}()
			play(s, out)
		}()
		n++
	}
	out.Flush()
	fmt.Printf("played=%d\n", n)
}
