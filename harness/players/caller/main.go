// Player for C19 (the caller field names the user's call site). The cases are GENERATED source lines (one
// per combination exported by spec/caller/Caller.tla) placed next to this file through go build -overlay;
// every case records runtime.Caller(0) of the user's statement and the caller field of the emitted event.
package main

import (
	"bufio"
	"bytes"
	"encoding/json"
	"flag"
	"fmt"
	"os"
	"strings"

	"github.com/rs/zerolog"
	zlog "github.com/rs/zerolog/log"
)

type rec struct {
	buf   bytes.Buffer
	out   *bufio.Writer
	other string
}

type otherHook struct{}

func (otherHook) Run(e *zerolog.Event, l zerolog.Level, m string) { e.Str("other", "h") }

// base returns a logger writing into the recorder, with an unrelated hook before the caller hook if asked.
func (r *rec) base() zerolog.Logger {
	r.buf.Reset()
	l := zerolog.New(&r.buf)
	if r.other == "before" {
		l = l.Hook(otherHook{})
	}
	return l
}

func (r *rec) finishLogger(l zerolog.Logger) *zerolog.Logger {
	if r.other == "after" {
		l = l.Hook(otherHook{})
	}
	zlog.Logger = l
	return &l
}

func (r *rec) plain() *zerolog.Logger { return r.finishLogger(r.base()) }
func (r *rec) ctx() *zerolog.Logger   { return r.finishLogger(r.base().With().Caller().Logger()) }
func (r *rec) ctxTwice() *zerolog.Logger {
	return r.finishLogger(r.base().With().Caller().CallerWithSkipFrameCount(zerolog.CallerSkipFrameCount).Logger())
}
func (r *rec) ctxCount(n int) *zerolog.Logger {
	return r.finishLogger(r.base().With().CallerWithSkipFrameCount(n).Logger())
}

func depthCall(n int, f func()) {
	if n == 0 {
		f()
		return
	}
	depthCall(n-1, f)
}

func (r *rec) done(id int, combo string, file string, line int) {
	lines := bytes.Split(bytes.TrimSpace(r.buf.Bytes()), []byte("\n"))
	got, ncaller, nev := "", 0, 0
	want := fmt.Sprintf("%s:%d", file, line)
	allsame, nwant := true, 1
	if strings.Contains(combo, "ctxtwice") {
		nwant = 2
	}
	for _, ln := range lines {
		if len(ln) == 0 {
			continue
		}
		nev++
		dec := json.NewDecoder(bytes.NewReader(ln))
		dec.Token()
		for dec.More() {
			k, err := dec.Token()
			var v interface{}
			if err != nil || dec.Decode(&v) != nil {
				break
			}
			if k == zerolog.CallerFieldName {
				ncaller++
				got = fmt.Sprint(v)
				if got != want {
					allsame = false
				}
			}
		}
	}
	b, _ := json.Marshal(map[string]interface{}{"a": "Site", "id": id, "combo": combo, "want": want, "got": got, "ncaller": ncaller, "nwant": nwant, "allsame": allsame, "nevents": nev})
	r.out.Write(b)
	r.out.WriteByte('\n')
}

func main() {
	outp := flag.String("out", "hist.ndjson", "")
	flag.String("scripts", "", "unused")
	flag.Parse()
	of, _ := os.Create(*outp)
	w := bufio.NewWriter(of)
	w.WriteString(`{"a":"Reset"}` + "\n")
	r := &rec{out: w}
	old := zerolog.CallerSkipFrameCount
	for _, c := range cases {
		func() {
			defer func() { recover(); zerolog.CallerSkipFrameCount = old }()
			c(r)
		}()
	}
	w.Flush()
	fmt.Printf("played=%d\n", len(cases))
}
