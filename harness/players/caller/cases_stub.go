//go:build !gencases

package main

var cases []func(r *rec)
