--------------------------- MODULE RespProxyTrace ---------------------------
EXTENDS RespProxy, TLCExt
TraceLog == ndJsonDeserialize("hist.ndjson")
VARIABLES l, bad
TInit == l = 1 /\ bad = <<>> /\ cap = "basic" /\ status = 0 /\ bytes = 0 /\ hist = <<>>
Ops(e) == [i \in 1..Len(e.ops) |-> [op |-> e.ops[i].op, x |-> e.ops[i].x]]
Guard(e) == e.a # "Seq" \/
            LET r == Run(Ops(e), 1, 0, 0) IN
            /\ e.status = r[1] /\ e.size = r[2]                                \* what AccessHandler reported
            /\ e.under = r[2]                                                  \* = what the underlying writer accepted
            /\ e.fwd = (IF r[1] = 0 THEN <<>> ELSE <<r[1]>>)                   \* header forwarded once: the first one
            /\ e.calls = 1
TNext == /\ l <= Len(TraceLog) /\ l' = l + 1 /\ UNCHANGED vars
         /\ LET e == TraceLog[l] IN IF Guard(e) THEN UNCHANGED bad ELSE bad' = Append(bad, <<l, "">>)
TSpec == TInit /\ [][TNext]_<<vars, l, bad>>
Report == l <= Len(TraceLog) \/ PrintT("@@BADLINES|" \o ToString(Len(TraceLog)) \o "|" \o ToJson(bad))
=============================================================================
