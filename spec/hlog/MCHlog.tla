------------------------------- MODULE MCHlog -------------------------------
EXTENDS Hlog
C2 == <<<<"url", "method">>, <<"useragent", "remoteaddr", "custom">>>>
C3 == <<<<"url", "method", "host">>, <<"request", "remoteip">>, <<"referer", "proto", "url">>>>
C3b == <<<<"url">>, <<"url", "method", "useragent", "custom">>, <<>>>>
C3c == <<<<"requestid", "url">>, <<"etag", "requestid", "respheader">>, <<"httpversion", "etag">>>>
=============================================================================
