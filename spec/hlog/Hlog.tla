-------------------------------- MODULE Hlog --------------------------------
(***************************************************************************)
(* C18, first half: requests served concurrently through hlog.NewHandler   *)
(* and a chain of field handlers stay isolated.                            *)
(* Implementation-shaped: NewHandler gives each request its own logger     *)
(* (With().Logger(): a fresh backing array holding the base logger's       *)
(* context) stored by pointer in the request context; every field handler  *)
(* appends one field in place through that pointer (UpdateContext) and     *)
(* calls the next handler; the innermost handler logs one event.  One      *)
(* action per handler boundary (the player puts a gate between every two   *)
(* middlewares), so a behaviour is an interleaving of the requests'        *)
(* handler steps.  Mem is the set of backing arrays; Shared = TRUE models  *)
(* the regression "all requests use the base logger's array" and is what   *)
(* TLC refutes.                                                            *)
(* Contract: the event of request r carries, after the base fields,        *)
(* exactly r's own values, one per handler of its chain, in chain order;   *)
(* the base logger still emits only its own fields.                        *)
(***************************************************************************)
EXTENDS Integers, Sequences, FiniteSets, TLC, Json
CONSTANTS R, Chains,   \* number of requests; Chains[r]: sequence of handler kinds of request r
          Shared       \* FALSE: as the code is (a copy per request)
Reqs == 1..R
VARIABLES pos,      \* pos[r]: 0 = not started, 1 = inside NewHandler (copy made), 1+k = k handlers ran, "done"
          arr,      \* arr[r]: id of the backing array request r appends to
          mem,      \* backing arrays: sequence of sequences of <<r, k>> (field k of request r)
          lens,     \* lens[r]: length of r's slice
          events, sched
vars == <<pos, arr, mem, lens, events, sched>>
Init == pos = [r \in Reqs |-> 0] /\ arr = [r \in Reqs |-> 0] /\ mem = << <<>> >> /\ lens = [r \in Reqs |-> 0]
        /\ events = [r \in Reqs |-> <<>>] /\ sched = <<>>
Tag(r) == sched' = Append(sched, "R" \o ToString(r))
\* NewHandler: l := log.With().Logger()
Start(r) == /\ pos[r] = 0 /\ Tag(r)
            /\ (IF Shared THEN arr' = [arr EXCEPT ![r] = 1] /\ UNCHANGED mem
                ELSE mem' = Append(mem, <<>>) /\ arr' = [arr EXCEPT ![r] = Len(mem) + 1])
            /\ pos' = [pos EXCEPT ![r] = 1] /\ UNCHANGED <<lens, events>>
\* a field handler: UpdateContext appends at position lens[r]+1 of r's array (in place, overwriting what is there)
Handler(r) == /\ pos[r] \in 1..Len(Chains[r]) /\ Tag(r)
              /\ LET a == arr[r]  n == lens[r]  cell == <<r, pos[r]>> IN
                 mem' = [mem EXCEPT ![a] = IF n < Len(mem[a]) THEN [mem[a] EXCEPT ![n + 1] = cell] ELSE Append(mem[a], cell)]
              /\ lens' = [lens EXCEPT ![r] = lens[r] + 1]
              /\ pos' = [pos EXCEPT ![r] = pos[r] + 1] /\ UNCHANGED <<arr, events>>
\* the innermost handler logs: the event carries the first lens[r] cells of r's array
Log(r) == /\ pos[r] = Len(Chains[r]) + 1 /\ Tag(r)
          /\ events' = [events EXCEPT ![r] = SubSeq(mem[arr[r]], 1, lens[r])]
          /\ pos' = [pos EXCEPT ![r] = Len(Chains[r]) + 2] /\ UNCHANGED <<arr, mem, lens>>
Next == \E r \in Reqs : Start(r) \/ Handler(r) \/ Log(r)
Spec == Init /\ [][Next]_vars
View == <<pos, arr, mem, lens, events>>
Done == \A r \in Reqs : pos[r] = Len(Chains[r]) + 2
\* C18: each request's event carries exactly its own values, in chain order
Isolated == \A r \in Reqs : pos[r] = Len(Chains[r]) + 2 => events[r] = [k \in 1..Len(Chains[r]) |-> <<r, k>>]
EmitDone == ~Done \/ PrintT("@@SCHED|done|" \o ToJson(sched))
=============================================================================
