------------------------------ MODULE HlogTrace ------------------------------
(* Contract of C18 (isolation) on recordings: every request's event carries exactly that request's values (want,
   computed from the request itself) in handler order and nothing of another request; the logger given to
   NewHandler still emits only its own field. *)
EXTENDS Integers, Sequences, TLC, Json, TLCExt
TraceLog == ndJsonDeserialize("hist.ndjson")
VARIABLES l, bad
TInit == l = 1 /\ bad = <<>>
Pairs(x) == [i \in 1..Len(x) |-> <<x[i][1], x[i][2]>>]
\* (got / want: the event logged by the innermost handler; gotpost / wantpost: an event logged after the chain returned,
\*  which also carries what EtagHandler / ResponseHeaderHandler add on the way out, innermost first)
Guard(e) == CASE e.a = "Req" -> /\ Pairs(e.got) = Pairs(e.want) /\ e.nevents = 1
                                /\ Pairs(e.gotpost) = Pairs(e.wantpost) /\ e.npost = 1
              [] e.a = "Base" -> Pairs(e.got) = << <<"base", "b">> >>
              [] e.a = "End" -> e.done
              [] OTHER -> TRUE
TNext == /\ l <= Len(TraceLog) /\ l' = l + 1
         /\ LET e == TraceLog[l] IN IF Guard(e) THEN UNCHANGED bad ELSE bad' = Append(bad, <<l, "">>)
TSpec == TInit /\ [][TNext]_<<l, bad>>
Report == l <= Len(TraceLog) \/ PrintT("@@BADLINES|" \o ToString(Len(TraceLog)) \o "|" \o ToJson(bad))
=============================================================================
