----------------------------- MODULE RespProxy -----------------------------
(***************************************************************************)
(* C18, second half: what AccessHandler reports for any sequence of        *)
(* ResponseWriter calls made by the wrapped handler.                       *)
(* Operations: WH(c) WriteHeader(c); W(acc) Write of 5 bytes of which the  *)
(* underlying writer accepts acc (5 ok, 4 short, 0 with an error); RF(acc) *)
(* ReadFrom of a 7-byte reader of which acc are accepted (only when the    *)
(* underlying writer offers ReaderFrom: capability "full").                *)
(* Contract: status = the first WriteHeader code, 200 if body came first,  *)
(* 0 if nothing was sent; size = the number of body bytes the underlying   *)
(* writer accepted; the header is forwarded exactly once.                  *)
(***************************************************************************)
EXTENDS Integers, Sequences, TLC, Json
CONSTANTS MaxOps, Caps
VARIABLES cap, status, bytes, hist
vars == <<cap, status, bytes, hist>>
Init == cap \in Caps /\ status = 0 /\ bytes = 0 /\ hist = <<>>
Hdr(c) == IF status = 0 THEN c ELSE status
WH(c) == Len(hist) < MaxOps /\ status' = Hdr(c) /\ UNCHANGED <<cap, bytes>> /\ hist' = Append(hist, [op |-> "WH", x |-> c])
W(acc) == Len(hist) < MaxOps /\ status' = Hdr(200) /\ bytes' = bytes + acc /\ UNCHANGED cap /\ hist' = Append(hist, [op |-> "W", x |-> acc])
RF(acc) == Len(hist) < MaxOps /\ cap = "full" /\ status' = Hdr(200) /\ bytes' = bytes + acc /\ UNCHANGED cap /\ hist' = Append(hist, [op |-> "RF", x |-> acc])
\* Flush (capabilities "flusher" and "full"): passed through; it is neither a header nor body - what is reported afterwards is
\* what it would have been (a Write after it is still "the body came first": 200)
FL == Len(hist) < MaxOps /\ cap # "basic" /\ UNCHANGED <<cap, status, bytes>> /\ hist' = Append(hist, [op |-> "FL", x |-> 0])
\* 103: an informational code first is still the FIRST header the proxy saw (what it reports); later headers do not replace it
Next == (\E c \in {201, 404, 103} : WH(c)) \/ (\E a \in {5, 4, 0} : W(a)) \/ (\E a \in {7, 3} : RF(a)) \/ FL
Spec == Init /\ [][Next]_vars
Emit == PrintT("@@SEQ|" \o cap \o "|" \o ToJson([ops |-> hist, status |-> status, size |-> bytes]))
EmitAll == Emit
\* expected outcome of a recorded sequence (used by the trace spec)
RECURSIVE Run(_, _, _, _)
Run(ops, i, st, by) == IF i > Len(ops) THEN <<st, by>>
                       ELSE LET o == ops[i] IN
                            IF o.op = "WH" THEN Run(ops, i + 1, IF st = 0 THEN o.x ELSE st, by)
                            ELSE IF o.op = "FL" THEN Run(ops, i + 1, st, by)
                            ELSE Run(ops, i + 1, IF st = 0 THEN 200 ELSE st, by + o.x)
=============================================================================
