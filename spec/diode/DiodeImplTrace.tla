--------------------------- MODULE DiodeImplTrace ---------------------------
(***************************************************************************)
(* Conformance of the real code to DiodeImpl: impl.ndjson holds one line   *)
(* per scheduler-gate step of the instrumented build (thread released,     *)
(* gate it reached, and the projected ring state read from the real        *)
(* ManyToOne: writeIndex, readIndex, seq of every slot, gate of every      *)
(* goroutine).  Each line must be explained by an action of that thread in *)
(* DiodeImpl whose successor state has exactly the logged projection.      *)
(* A mismatch is MODEL DRIFT (the code or the model changed); it is        *)
(* reported, never turned into a verdict - verdicts come from              *)
(* DiodeContract only.                                                     *)
(***************************************************************************)
EXTENDS DiodeImpl, Json, TLCExt

TraceLog == ndJsonDeserialize("impl.ndjson")
VARIABLES l, failed, bad
tvars == <<vars, l, failed, bad>>

PGate(pc, k) == CASE pc = "idle" -> (IF k = W THEN "end" ELSE "p.write")
                  [] pc = "add" -> "at.add" [] pc = "load" -> "at.load"
                  [] pc = "cas" -> "at.cas" [] pc = "bcast" -> "cond.bcast"
CGate(pc) == CASE pc = "lock" -> "mu.lock" [] pc = "chk" -> "ctx.done" [] pc = "try" -> "at.swap"
               [] pc = "unlock" -> "mu.unlock" [] pc = "deliver" -> "w.write" [] pc = "isdone" -> "ctx.done"
               [] pc = "sleep" -> "time.sleep" [] pc = "wait" -> "cond.wait" [] pc = "parked" -> "cond.wake"
               [] pc = "unlockx" -> "mu.unlock" [] pc = "closedone" -> "ch.close" [] pc = "exit" -> "end"
XGate(pc) == CASE pc = "done0" -> "ctx.done" [] pc = "recv" -> "ch.recv" [] pc = "lock" -> "mu.lock"
               [] pc = "bcast" -> "cond.bcast" [] pc = "unlock" -> "mu.unlock" [] pc = "end" -> "end"
               [] pc = "none" -> "none"
ClGate(pc) == CASE pc = "idle" -> "cl.close" [] pc = "cancel" -> "ctx.cancel"
                [] pc = "waitdone" -> "ch.recv" [] pc = "closed" -> "end"

PName(p) == "P" \o ToString(p)
Has(r, f) == f \in DOMAIN r

\* the logged projection of the real state equals the model's successor state
Post(st) ==
  /\ (st.peek => /\ widx' = st.widx /\ ridx' = st.ridx
                 /\ \A i \in 0..N-1 : buf'[i].seq = st.seqs[i + 1])
  /\ \A p \in Procs : Has(st.g, PName(p)) /\ PGate(ppc'[p], pk'[p]) = st.g[PName(p)]
  /\ Has(st.g, "C") /\ CGate(cpc') = st.g["C"]
  /\ (~Polling => Has(st.g, "X") /\ XGate(xpc') = st.g["X"])
  /\ Has(st.g, "CL") /\ ClGate(clpc') = st.g["CL"]

Cur(st) ==
  /\ (st.peek => /\ widx = st.widx /\ ridx = st.ridx
                 /\ \A i \in 0..N-1 : buf[i].seq = st.seqs[i + 1])
  /\ \A p \in Procs : Has(st.g, PName(p)) /\ PGate(ppc[p], pk[p]) = st.g[PName(p)]
  /\ Has(st.g, "C") /\ CGate(cpc) = st.g["C"]
  /\ (~Polling => Has(st.g, "X") /\ XGate(xpc) = st.g["X"])
  /\ Has(st.g, "CL") /\ ClGate(clpc) = st.g["CL"]

StepOf(e) == /\ \/ (e.t = "C" /\ Consumer) \/ (e.t = "X" /\ Canceller) \/ (e.t = "CL" /\ Closer)
                \/ \E p \in Procs : e.t = PName(p) /\ Producer(p)
             /\ Post(e.st)

ToInit == /\ widx' = -1 /\ buf' = [i \in 0..N-1 |-> NIL]
          /\ ppc' = [p \in Procs |-> "idle"] /\ pwi' = [p \in Procs |-> -1]
          /\ pold' = [p \in Procs |-> NIL] /\ pk' = [p \in Procs |-> 0]
          /\ ridx' = 0 /\ cpc' = CStart /\ cres' = NIL /\ cdone' = FALSE
          /\ mu' = "free" /\ waiting' = FALSE /\ woken' = FALSE /\ cancelled' = FALSE
          /\ xpc' = (IF Polling THEN "none" ELSE "done0") /\ clpc' = "idle" /\ donech' = FALSE
          /\ delivered' = <<>> /\ inwrite' = FALSE /\ alerts' = 0 /\ retries' = 0 /\ returned' = 0
          /\ nstarted' = 0 /\ omax' = 0

TInit == Init /\ l = 1 /\ failed = FALSE /\ bad = <<>>

TNext ==
  /\ l <= Len(TraceLog) /\ l' = l + 1
  /\ LET e == TraceLog[l] IN
     CASE e.a = "Reset" -> ToInit /\ failed' = FALSE /\ UNCHANGED bad
       [] e.a = "Init" /\ ~failed ->
            IF Cur(e.st) THEN UNCHANGED <<vars, failed, bad>>
            ELSE failed' = TRUE /\ bad' = Append(bad, l) /\ UNCHANGED vars
       [] e.a = "Step" /\ ~failed ->
            IF ENABLED StepOf(e) THEN StepOf(e) /\ UNCHANGED <<failed, bad>>
            ELSE failed' = TRUE /\ bad' = Append(bad, l) /\ UNCHANGED vars
       \* a scripted step that the real code could not take: drift, unless the player had itself
       \* inserted consumer steps (quiesce) or the script comes from a model with other constants
       [] ((e.a = "Skip" /\ ~e.expected) \/ e.a = "Hung") /\ ~failed -> failed' = TRUE /\ bad' = Append(bad, l) /\ UNCHANGED vars
       [] OTHER -> UNCHANGED <<vars, failed, bad>>

TSpec == TInit /\ [][TNext]_tvars
Report == l <= Len(TraceLog) \/ PrintT("@@BADLINES|" \o ToString(Len(TraceLog)) \o "|" \o ToJson(bad))
=============================================================================
