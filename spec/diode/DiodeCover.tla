----------------------------- MODULE DiodeCover -----------------------------
(***************************************************************************)
(* DiodeImpl with one NAMED action per goroutine, so that the edges of the *)
(* state graph TLC dumps (-dump dot,actionlabels) carry the name of the    *)
(* goroutine that takes the step.  A walk through that graph is then a     *)
(* schedule the player can replay; a set of walks that traverses every     *)
(* edge executes every transition of the model on the real code.           *)
(***************************************************************************)
EXTENDS DiodeImpl
StepP1 == 1 \in Procs /\ Producer(1)
StepP2 == 2 \in Procs /\ Producer(2)
StepP3 == 3 \in Procs /\ Producer(3)
StepP4 == 4 \in Procs /\ Producer(4)
StepC  == Consumer
StepX  == Canceller
StepCL == Closer
CNext == StepP1 \/ StepP2 \/ StepP3 \/ StepP4 \/ StepC \/ StepX \/ StepCL
CSpec == Init /\ [][CNext]_vars
=============================================================================
