------------------------- MODULE DiodeContractTrace -------------------------
(***************************************************************************)
(* Trace specification: replays obs.ndjson (recorded from the real code by *)
(* the player) through DiodeContract.  Recordings of many scripts are      *)
(* concatenated; a "Reset" line starts the next one.  When an event's      *)
(* guard does not hold the line number is recorded in `bad`, the rest of   *)
(* that script is skipped, and validation continues with the next script,  *)
(* so one pass reports every script that leaves the contract.              *)
(***************************************************************************)
EXTENDS DiodeContract, Json, TLCExt

TraceLog == ndJsonDeserialize("obs.ndjson")
VARIABLES l, failed, bad, noalert     \* noalert: the writer has no alerter - drops are silent by construction, so the accounting clauses do not apply
tvars == <<cvars, l, failed, bad, noalert>>

TInit == CInit(1) /\ l = 1 /\ failed = FALSE /\ bad = <<>> /\ noalert = FALSE

Guard(e) ==
  CASE e.a = "WStart"     -> WStartG(e.m)
    [] e.a = "WRet"       -> WRetG(e.m) /\ ~e.err
    [] e.a = "DStart"     -> DStartG(e.m)
    [] e.a = "DEnd"       -> DEndG(e.stable)
    [] e.a = "Collision"  -> CollisionG
    [] e.a = "Alert"      -> AlertG(e.n) /\ ~e.async     \* reported by the consumer itself, before it goes on: Close's accounting (and the Fatal path) rely on it
    [] e.a = "CloseStart" -> CloseStartG
    [] e.a = "CloseRet"   -> IF noalert THEN e.wclosed ELSE CloseRetG(e.wclosed)
    [] e.a = "Quiesce"    -> noalert \/ QuiesceG
    [] e.a = "Stuck"      -> StuckG
    [] e.a = "EndBlocked" -> EndBlockedG(e.total)
    [] e.a = "PBlocked"   -> PBlockedG
    [] e.a = "GPanic"     -> FALSE
    [] OTHER -> FALSE

Effect(e) ==
  CASE e.a = "WStart"     -> WStartE(e.m)
    [] e.a = "WRet"       -> WRetE(e.m)
    [] e.a = "DStart"     -> DStartE(e.m)
    [] e.a = "DEnd"       -> DEndE
    [] e.a = "Collision"  -> CollisionE
    [] e.a = "Alert"      -> AlertE(e.n)
    [] e.a = "CloseStart" -> CloseStartE
    [] e.a = "CloseRet"   -> CloseRetE
    [] e.a = "Quiesce"    -> QuiesceE
    [] e.a = "EndBlocked" -> EndBlockedE
    [] OTHER -> UNCHANGED cvars

\* Signatures of recorded known findings (KNOWN_FINDINGS.jsonl).  A signature may name internals:
\* it only has to hold on the unchanged tree, and anything it does not match is still reported.
\* D3, lost wake-up of the waiter: Set+Broadcast fell between the consumer's empty TryNext and its
\* Cond.Wait; the consumer is parked without a ticket, not cancelled, and the message it should
\* deliver next is sitting in the ring.
\* the recorded lost wake-up: waiter mode, the consumer parked without a pending signal, not cancelled, a live message at
\* readIndex - and a producer whose Broadcast found NOBODY registered (it fell between the consumer's empty TryNext and its
\* Wait). A consumer that WAS woken and parked again over an empty ring (e.g. Broadcast issued before the Set) is not it.
LostWakeupSig(e) == /\ e.a = "Quiesce" /\ e.mode = "waiter" /\ e.peek
                    /\ e.cg = "cond.wake" /\ ~e.cen /\ ~e.cancelled /\ e.liveAtRidx
                    /\ e.pbwoke = 0
                    /\ e.cptr = 0     \* the consumer has not touched a ring slot since that message arrived: it looked BEFORE, found
                                      \* nothing, and parked. A consumer that looked at the slot while the message was there and
                                      \* parked all the same (a failed CAS taken for "empty") is something else
\* a Close that returns while a returned Write has been neither delivered nor reported: that message will never reach
\* the wrapped writer - the first sentence of C12 as well as the accounting clause of C11
Undelivered(e) == e.a = "CloseRet" /\ OnTime(delivered) + alerts < Cardinality(returned \ late)
Sig(e) == IF LostWakeupSig(e) THEN "LostWakeupSig" ELSE IF Undelivered(e) THEN "Undelivered" ELSE ""

TNext ==
  /\ l <= Len(TraceLog) /\ l' = l + 1
  /\ LET e == TraceLog[l] IN
     IF e.a = "Reset"
     THEN /\ ringSize' = e.N /\ started' = {} /\ pred' = <<>> /\ returned' = {} /\ inWrite' = 0
          /\ delivered' = <<>> /\ alerts' = 0 /\ collisions' = 0 /\ outstandingMax' = 0
          /\ closing' = FALSE /\ closed' = FALSE /\ late' = {}
          /\ failed' = FALSE /\ noalert' = e.noalert /\ UNCHANGED bad
     ELSE UNCHANGED noalert /\
     IF failed THEN UNCHANGED <<cvars, failed, bad>>
     ELSE IF Guard(e) THEN Effect(e) /\ UNCHANGED <<failed, bad>>
     ELSE failed' = TRUE /\ bad' = Append(bad, <<l, Sig(e)>>) /\ UNCHANGED cvars

TSpec == TInit /\ [][TNext]_tvars
\* printed exactly once, in the final state
Report == l <= Len(TraceLog) \/ PrintT("@@BADLINES|" \o ToString(Len(TraceLog)) \o "|" \o ToJson(bad))
Accepted == TLCGet("stats").diameter - 1 = Len(TraceLog)
=============================================================================
