--------------------------- MODULE DiodeContract ---------------------------
(***************************************************************************)
(* C10 / C11 / C12 as a state machine over the events a user of            *)
(* diode.Writer can observe.  Nothing here mentions the implementation,    *)
(* so the contract survives refactoring; a recording of the real code      *)
(* that is not a behaviour of this module is a violation of the property.  *)
(*                                                                         *)
(* Every action is split into a guard (what the property demands at that   *)
(* event) and an effect, so that the trace specification can report the    *)
(* exact event at which a recording leaves the contract.                   *)
(*                                                                         *)
(* Events:  WStart(m) WRet(m)      a producer's Write(m) starts / returns  *)
(*          DStart(m) DEnd(stable) the wrapped writer's Write is entered   *)
(*                                 with bytes identical to message m       *)
(*                                 (m = -1: identical to no message) and   *)
(*                                 returns (stable: bytes unchanged        *)
(*                                 between entry and return)               *)
(*          Collision              one "Diode set collision" log line (a   *)
(*                                 producer retried a ring position)       *)
(*          Alert(n)               the alerter was called with n           *)
(*          CloseStart CloseRet    Close is called / returns               *)
(*          Quiesce                no Write in flight, no Close, and the   *)
(*                                 consumer has been run until it can do   *)
(*                                 nothing more without a further Write    *)
(*          Stuck                  nothing can run and Close has not       *)
(*                                 returned                                *)
(*          EndBlocked(total)      end of a run whose wrapped writer never *)
(*                                 returns                                 *)
(*          GPanic                 a goroutine of the diode (a producer in  *)
(*                                 Write, the consumer, the canceller)     *)
(*                                 panicked: never allowed                 *)
(*          PBlocked               a producer inside Write cannot take its *)
(*                                 next step by itself: it waits for a lock*)
(*                                 or a condition another goroutine holds  *)
(***************************************************************************)
EXTENDS Integers, Sequences, FiniteSets, TLC

VARIABLES ringSize,   \* size given to NewWriter
          started,    \* messages whose Write has started
          pred,       \* pred[m] = messages whose Write had returned when Write(m) started
          returned,   \* messages whose Write returned
          inWrite,    \* message currently inside the wrapped writer, or 0
          delivered,  \* sequence of messages handed to the wrapped writer
          alerts, collisions, outstandingMax, closing, closed,
          late        \* messages whose Write STARTED after Close was called: legal, but outside C11's accounting (the consumer
                      \* may be gone); C10 applies to them like to any other - order, no duplicate, integrity, never blocking
cvars == <<ringSize, started, pred, returned, inWrite, delivered, alerts, collisions, outstandingMax, closing, closed, late>>

CInit(n) == /\ ringSize = n /\ started = {} /\ pred = <<>> /\ returned = {} /\ inWrite = 0
            /\ delivered = <<>> /\ alerts = 0 /\ collisions = 0 /\ outstandingMax = 0
            /\ closing = FALSE /\ closed = FALSE /\ late = {}

Range(s) == {s[i] : i \in 1..Len(s)}
Outstanding == Cardinality(started) - Len(delivered) - alerts
Max(a, b) == IF a > b THEN a ELSE b
\* deliveries of messages written before Close was called
OnTime(d) == Cardinality({i \in 1..Len(d) : d[i] \notin late})

----------------------------------------------------------------------------
WStartG(m) == m \notin started
WStartE(m) == /\ started' = started \cup {m} /\ pred' = pred @@ (m :> returned)
              /\ late' = (IF closing THEN late \cup {m} ELSE late)
              /\ outstandingMax' = Max(outstandingMax, Outstanding + 1)
              /\ UNCHANGED <<ringSize, returned, inWrite, delivered, alerts, collisions, closing, closed>>

WRetG(m) == m \in started /\ m \notin returned
WRetE(m) == /\ returned' = returned \cup {m}
            /\ UNCHANGED <<ringSize, started, pred, inWrite, delivered, alerts, collisions, outstandingMax, closing, closed, late>>

\* C10: one delivery at a time; the buffer is byte-identical to the argument of exactly one
\* earlier Write; no Write is delivered twice; order: nothing whose Write had returned before
\* Write(d) started may be delivered after d
DStartG(m) == /\ inWrite = 0 /\ ~closed
              /\ m \in started /\ m \notin Range(delivered)
              /\ \A i \in 1..Len(delivered) : m \notin pred[delivered[i]]
DStartE(m) == /\ inWrite' = m /\ delivered' = Append(delivered, m)
              /\ UNCHANGED <<ringSize, started, pred, returned, alerts, collisions, outstandingMax, closing, closed, late>>

\* C10/C06: the delivered bytes are not modified while the wrapped writer uses them
DEndG(stable) == inWrite # 0 /\ stable
DEndE == /\ inWrite' = 0
         /\ UNCHANGED <<ringSize, started, pred, returned, delivered, alerts, collisions, outstandingMax, closing, closed, late>>

CollisionG == TRUE
CollisionE == /\ collisions' = collisions + 1
              /\ UNCHANGED <<ringSize, started, pred, returned, inWrite, delivered, alerts, outstandingMax, closing, closed, late>>

\* C10: reported counts never exceed the ring positions claimed (one per Write plus one per retry)
\* ... and a position is delivered or reported missed, never both
AlertG(n) == n > 0 /\ alerts + n + Len(delivered) <= Cardinality(started) + collisions
AlertE(n) == /\ alerts' = alerts + n
             /\ UNCHANGED <<ringSize, started, pred, returned, inWrite, delivered, collisions, outstandingMax, closing, closed, late>>

CloseStartG == ~closing /\ returned = started
CloseStartE == /\ closing' = TRUE
               /\ UNCHANGED <<ringSize, started, pred, returned, inWrite, delivered, alerts, collisions, outstandingMax, closed, late>>

\* C11: when Close returns every written message was delivered or is covered by the alerter;
\* equality when nobody retried; nothing dropped while fewer than ringSize were outstanding;
\* the wrapped writer was closed
CloseRetG(wclosed) ==
  /\ closing /\ ~closed /\ inWrite = 0 /\ wclosed
  /\ OnTime(delivered) + alerts >= Cardinality(returned \ late)
  /\ ((collisions = 0 /\ late = {}) => Len(delivered) + alerts = Cardinality(returned))
  /\ (outstandingMax < ringSize => (alerts = 0 /\ (returned \ late) \subseteq Range(delivered)))
CloseRetE == /\ closed' = TRUE
             /\ UNCHANGED <<ringSize, started, pred, returned, inWrite, delivered, alerts, collisions, outstandingMax, closing, late>>

\* C12: a returned Write reaches the wrapped writer (or is reported) without any later Write or Close
QuiesceG == /\ ~closing /\ returned = started /\ inWrite = 0
            /\ Len(delivered) + alerts >= Cardinality(returned)
QuiesceE == UNCHANGED cvars

\* C12: Close returns in every schedule; nobody ends up blocked forever with work pending
StuckG == FALSE

\* C10: Write returns however long the wrapped writer blocks
EndBlockedG(total) == Cardinality(returned) = total /\ returned = started
EndBlockedE == UNCHANGED cvars
\* C10: producers never wait - not for the wrapped writer, not for the consumer, not for each other (DiodeImpl: no producer
\* action has a guard; NonBlocking).  On the real code: at no point of any schedule is a producer inside Write disabled.
PBlockedG == FALSE
=============================================================================
