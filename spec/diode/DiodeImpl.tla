------------------------------ MODULE DiodeImpl ------------------------------
(***************************************************************************)
(* diode.Writer over diodes.ManyToOne + diodes.Waiter / diodes.Poller at   *)
(* the granularity of ONE ACTION PER SCHEDULER GATE of the instrumented    *)
(* build (harness/_shim): every sync/atomic call, mutex / condition        *)
(* variable operation, ctx.Done() call, channel close-signal operation,    *)
(* time.Sleep, and the wrapped writer's Write is one action.  A behaviour  *)
(* of this module is therefore literally a schedule (a sequence of         *)
(* goroutine names) that the player replays on the real code, and a        *)
(* recording of the real code (impl.ndjson) is validated step by step      *)
(* against it (DiodeImplTrace.tla).                                        *)
(*                                                                         *)
(* Threads: producers P1..Pn (diode.Writer.Write), C (the poll goroutine), *)
(* X (the canceller goroutine of NewWaiter; waiter mode only), CL (the     *)
(* caller of Close).                                                       *)
(*                                                                         *)
(* Deviations of the code from the ideal are actions guarded by Fix*       *)
(* constants so that the same module describes the tree before and after   *)
(* each repair:                                                            *)
(*   FixUnderflow  D1  first-lap uint64 underflow of writeIndex-len(buf)   *)
(*   FixHole       D2  producer abandons its ring position on CAS failure  *)
(*   FixDrain      D4  Close racing with the consumer's empty TryNext      *)
(*   (D3, the waiter's lost wake-up, is a recorded known finding; it is    *)
(*    present in the model as it is in the code.)                          *)
(***************************************************************************)
EXTENDS Integers, Sequences, FiniteSets, TLC

CONSTANTS P, W, N,                       \* producers, writes per producer, ring size
          Polling,                       \* TRUE: Poller, FALSE: Waiter
          FixUnderflow, FixHole, FixDrain,
          BlockWriter                    \* TRUE: the wrapped writer never returns

Procs == 1..P
NIL == [seq |-> -1, msg |-> 0]
Msg(p, k) == p * 100 + k

VARIABLES widx, buf,                          \* ManyToOne.writeIndex (-1 = ^0), ManyToOne.buffer
          ppc, pwi, pold, pk,                 \* producers: gate, claimed index, loaded bucket, writes done
          ridx, cpc, cres, cdone,             \* consumer: readIndex, gate, bucket in hand, sampled isDone
          mu, waiting, woken, cancelled,      \* Waiter.mu, cond registration/ticket, ctx cancelled
          xpc, clpc, donech,                  \* canceller gate, closer gate, Writer.done closed
          delivered, inwrite, alerts, retries, returned, nstarted, omax   \* observation (ghost)

ring  == <<widx, buf>>
prod  == <<ppc, pwi, pold, pk>>
cons  == <<ridx, cpc, cres, cdone>>
synch == <<mu, waiting, woken, cancelled>>
ctl   == <<xpc, clpc, donech>>
obsv  == <<delivered, inwrite, alerts, retries, returned, nstarted, omax>>
vars  == <<ring, prod, cons, synch, ctl, obsv>>

\* first gate of the consumer loop body
CLoop  == IF FixDrain THEN "chk" ELSE "try"
CStart == IF Polling THEN CLoop ELSE "lock"

Init ==
  /\ widx = -1 /\ buf = [i \in 0..N-1 |-> NIL]
  /\ ppc = [p \in Procs |-> "idle"] /\ pwi = [p \in Procs |-> -1]
  /\ pold = [p \in Procs |-> NIL] /\ pk = [p \in Procs |-> 0]
  /\ ridx = 0 /\ cpc = CStart /\ cres = NIL /\ cdone = FALSE
  /\ mu = "free" /\ waiting = FALSE /\ woken = FALSE /\ cancelled = FALSE
  /\ xpc = (IF Polling THEN "none" ELSE "done0") /\ clpc = "idle" /\ donech = FALSE
  /\ delivered = <<>> /\ inwrite = FALSE /\ alerts = 0 /\ retries = 0 /\ returned = 0
  /\ nstarted = 0 /\ omax = 0

Max(a, b) == IF a > b THEN a ELSE b
\* sync.Cond.Broadcast: every registered waiter gets its ticket
Signal == IF waiting THEN (woken' = TRUE /\ waiting' = FALSE) ELSE UNCHANGED <<woken, waiting>>

-----------------------------------------------------------------------------
\* producers: diode.Writer.Write -> (Waiter|Poller).Set -> ManyToOne.Set

\* gate p.write -> at.add : Write is called (bufPool.Get + copy are local)
PStart(p) ==
  /\ ppc[p] = "idle" /\ pk[p] < W /\ clpc = "idle"
  /\ ppc' = [ppc EXCEPT ![p] = "add"]
  /\ nstarted' = nstarted + 1
  /\ omax' = Max(omax, nstarted + 1 - Len(delivered) - alerts)
  /\ UNCHANGED <<ring, pwi, pold, pk, cons, synch, ctl, delivered, inwrite, alerts, retries, returned>>

\* atomic.AddUint64(&d.writeIndex, 1)
PAdd(p) ==
  /\ ppc[p] = "add"
  /\ widx' = widx + 1 /\ pwi' = [pwi EXCEPT ![p] = widx + 1]
  /\ ppc' = [ppc EXCEPT ![p] = "load"]
  /\ UNCHANGED <<buf, pold, pk, cons, synch, ctl, obsv>>

\* (*bucket)(old).seq > writeIndex-uint64(len(d.buffer)): during the first lap
\* the subtraction wraps around to ~2^64 and the test is false
Newer(old, wi) == IF FixUnderflow THEN old.seq + N > wi
                  ELSE IF wi < N THEN FALSE ELSE old.seq > wi - N

\* atomic.LoadPointer(&d.buffer[idx]) + the newer-bucket test (collision -> claim a new position)
PLoad(p) ==
  /\ ppc[p] = "load"
  /\ LET old == buf[pwi[p] % N] IN
     IF old # NIL /\ Newer(old, pwi[p])
     THEN /\ ppc' = [ppc EXCEPT ![p] = "add"] /\ retries' = retries + 1 /\ UNCHANGED pold
     ELSE /\ ppc' = [ppc EXCEPT ![p] = "cas"] /\ pold' = [pold EXCEPT ![p] = old] /\ UNCHANGED retries
  /\ UNCHANGED <<ring, pwi, pk, cons, synch, ctl, delivered, inwrite, alerts, returned, nstarted, omax>>

\* atomic.CompareAndSwapPointer(&d.buffer[idx], old, newBucket)
PCas(p) ==
  /\ ppc[p] = "cas"
  /\ LET i == pwi[p] % N IN
     IF buf[i] = pold[p]
     THEN /\ buf' = [buf EXCEPT ![i] = [seq |-> pwi[p], msg |-> Msg(p, pk[p] + 1)]]
          /\ UNCHANGED retries
          /\ IF Polling
             THEN /\ ppc' = [ppc EXCEPT ![p] = "idle"] /\ pk' = [pk EXCEPT ![p] = pk[p] + 1]
                  /\ returned' = returned + 1
             ELSE /\ ppc' = [ppc EXCEPT ![p] = "bcast"] /\ UNCHANGED <<pk, returned>>
     ELSE /\ UNCHANGED <<buf, pk, returned>> /\ retries' = retries + 1
          /\ ppc' = [ppc EXCEPT ![p] = IF FixHole THEN "load" ELSE "add"]
  /\ UNCHANGED <<widx, pwi, pold, cons, synch, ctl, delivered, inwrite, alerts, nstarted, omax>>

\* Waiter.Set: w.c.Broadcast() WITHOUT holding w.mu, then Write returns
PBcast(p) ==
  /\ ppc[p] = "bcast"
  /\ Signal
  /\ ppc' = [ppc EXCEPT ![p] = "idle"] /\ pk' = [pk EXCEPT ![p] = pk[p] + 1] /\ returned' = returned + 1
  /\ UNCHANGED <<ring, pwi, pold, cons, mu, cancelled, ctl, delivered, inwrite, alerts, retries, nstarted, omax>>

-----------------------------------------------------------------------------
\* consumer: Writer.poll -> (Waiter|Poller).Next -> ManyToOne.TryNext -> w.Write

\* w.mu.Lock() (waiter)
CLock ==
  /\ cpc = "lock" /\ mu = "free" /\ mu' = "c" /\ cpc' = CLoop
  /\ UNCHANGED <<ring, prod, ridx, cres, cdone, waiting, woken, cancelled, ctl, obsv>>

\* repaired code: done := isDone() sampled BEFORE TryNext  (ctx.Done() gate + non-blocking select)
CChk ==
  /\ cpc = "chk" /\ cdone' = cancelled /\ cpc' = "try"
  /\ UNCHANGED <<ring, prod, ridx, cres, synch, ctl, obsv>>

\* atomic.SwapPointer(&d.buffer[idx], nil) + stale / fast-forward logic + alerter call.
\* On success in poller mode the same step runs on into the wrapped writer (gate w.write).
CTry ==
  /\ cpc = "try"
  /\ LET i == ridx % N  r == buf[i] IN
     /\ buf' = [buf EXCEPT ![i] = NIL]
     /\ IF r = NIL \/ r.seq < ridx
        THEN /\ cpc' = (IF FixDrain THEN (IF cdone THEN (IF Polling THEN "closedone" ELSE "unlockx")
                                                   ELSE (IF Polling THEN "sleep" ELSE "wait"))
                        ELSE "isdone")
             /\ UNCHANGED <<ridx, alerts, cres, delivered, inwrite>>
        ELSE /\ alerts' = alerts + (r.seq - ridx) /\ ridx' = r.seq + 1 /\ cres' = r
             /\ IF Polling
                THEN /\ cpc' = "deliver" /\ delivered' = Append(delivered, r) /\ inwrite' = TRUE
                ELSE /\ cpc' = "unlock" /\ UNCHANGED <<delivered, inwrite>>
  /\ UNCHANGED <<widx, prod, cdone, synch, ctl, retries, returned, nstarted, omax>>

\* deferred w.mu.Unlock() on the success path of Waiter.Next; the step runs on into w.Write
CUnlock ==
  /\ cpc = "unlock" /\ mu' = "free" /\ cpc' = "deliver"
  /\ delivered' = Append(delivered, cres) /\ inwrite' = TRUE
  /\ UNCHANGED <<ring, prod, ridx, cres, cdone, waiting, woken, cancelled, ctl, alerts, retries, returned, nstarted, omax>>

\* the wrapped writer returns; bufPool.Put; back to Next
CDeliver ==
  /\ cpc = "deliver" /\ ~BlockWriter
  /\ inwrite' = FALSE /\ cpc' = CStart
  /\ UNCHANGED <<ring, prod, ridx, cres, cdone, synch, ctl, delivered, alerts, retries, returned, nstarted, omax>>

\* unrepaired code: isDone() AFTER the empty TryNext
CIsDone ==
  /\ cpc = "isdone"
  /\ cpc' = (IF cancelled THEN (IF Polling THEN "closedone" ELSE "unlockx")
                          ELSE (IF Polling THEN "sleep" ELSE "wait"))
  /\ UNCHANGED <<ring, prod, ridx, cres, cdone, synch, ctl, obsv>>

\* time.Sleep(interval)
CSleep ==
  /\ cpc = "sleep" /\ cpc' = CLoop
  /\ UNCHANGED <<ring, prod, ridx, cres, cdone, synch, ctl, obsv>>

\* sync.Cond.Wait part 1: register and release the mutex in one step
CWait ==
  /\ cpc = "wait" /\ waiting' = TRUE /\ woken' = FALSE /\ mu' = "free" /\ cpc' = "parked"
  /\ UNCHANGED <<ring, prod, ridx, cres, cdone, cancelled, ctl, obsv>>

\* sync.Cond.Wait part 2: signalled and mutex re-acquired
CWake ==
  /\ cpc = "parked" /\ woken /\ mu = "free" /\ mu' = "c" /\ woken' = FALSE /\ cpc' = CLoop
  /\ UNCHANGED <<ring, prod, ridx, cres, cdone, waiting, cancelled, ctl, obsv>>

\* deferred w.mu.Unlock() on the nil path of Waiter.Next
CUnlockX ==
  /\ cpc = "unlockx" /\ mu' = "free" /\ cpc' = "closedone"
  /\ UNCHANGED <<ring, prod, ridx, cres, cdone, waiting, woken, cancelled, ctl, obsv>>

\* poll returns: deferred close(dw.done)
CCloseDone ==
  /\ cpc = "closedone" /\ donech' = TRUE /\ cpc' = "exit"
  /\ UNCHANGED <<ring, prod, ridx, cres, cdone, synch, xpc, clpc, obsv>>

-----------------------------------------------------------------------------
\* canceller goroutine of NewWaiter: <-ctx.Done(); mu.Lock(); Broadcast(); mu.Unlock()
XDone0 ==
  /\ xpc = "done0" /\ xpc' = "recv"
  /\ UNCHANGED <<ring, prod, cons, synch, clpc, donech, obsv>>
XRecv ==
  /\ xpc = "recv" /\ cancelled /\ xpc' = "lock"
  /\ UNCHANGED <<ring, prod, cons, synch, clpc, donech, obsv>>
XLock ==
  /\ xpc = "lock" /\ mu = "free" /\ mu' = "x" /\ xpc' = "bcast"
  /\ UNCHANGED <<ring, prod, cons, waiting, woken, cancelled, clpc, donech, obsv>>
XBcast ==
  /\ xpc = "bcast" /\ Signal /\ xpc' = "unlock"
  /\ UNCHANGED <<ring, prod, cons, mu, cancelled, clpc, donech, obsv>>
XUnlock ==
  /\ xpc = "unlock" /\ mu' = "free" /\ xpc' = "end"
  /\ UNCHANGED <<ring, prod, cons, waiting, woken, cancelled, clpc, donech, obsv>>

\* Close: dw.c(); <-dw.done; w.Close().  Called only while no Write is in flight
\* (precondition of C11); no Write starts afterwards.
ClStart ==
  /\ clpc = "idle" /\ \A p \in Procs : ppc[p] = "idle"
  /\ clpc' = "cancel"
  /\ UNCHANGED <<ring, prod, cons, synch, xpc, donech, obsv>>
ClCancel ==
  /\ clpc = "cancel" /\ cancelled' = TRUE /\ clpc' = "waitdone"
  /\ UNCHANGED <<ring, prod, cons, mu, waiting, woken, xpc, donech, obsv>>
ClDone ==
  /\ clpc = "waitdone" /\ donech /\ clpc' = "closed"
  /\ UNCHANGED <<ring, prod, cons, synch, xpc, donech, obsv>>

Producer(p) == PStart(p) \/ PAdd(p) \/ PLoad(p) \/ PCas(p) \/ PBcast(p)
Consumer == CLock \/ CChk \/ CTry \/ CUnlock \/ CDeliver \/ CIsDone \/ CSleep \/ CWait \/ CWake \/ CUnlockX \/ CCloseDone
Canceller == XDone0 \/ XRecv \/ XLock \/ XBcast \/ XUnlock
Closer == ClStart \/ ClCancel \/ ClDone
Next == (\E p \in Procs : Producer(p)) \/ Consumer \/ Canceller \/ Closer

Done == clpc = "closed" /\ (Polling \/ xpc = "end")
Spec == Init /\ [][Next]_vars
FairSpec == Spec /\ WF_vars(Consumer) /\ WF_vars(Canceller) /\ WF_vars(Closer)
                 /\ \A p \in Procs : WF_vars(Producer(p))
\* as FairSpec but Close is never called: what happens to written messages on their own
NoCloseSpec == Init /\ [][(\E p \in Procs : Producer(p)) \/ Consumer \/ Canceller]_vars
                    /\ WF_vars(Consumer) /\ WF_vars(Canceller) /\ \A p \in Procs : WF_vars(Producer(p))

-----------------------------------------------------------------------------
\* properties

PGates == {"idle", "add", "load", "cas", "bcast"}
CGates == {"lock", "chk", "try", "unlock", "deliver", "isdone", "sleep", "wait", "parked", "unlockx", "closedone", "exit"}
TypeOK ==
  /\ widx \in -1..(P * W * (P * W + 2) + 4)
  /\ \A p \in Procs : ppc[p] \in PGates /\ pk[p] \in 0..W
  /\ cpc \in CGates /\ mu \in {"free", "c", "x"}
  /\ xpc \in {"none", "done0", "recv", "lock", "bcast", "unlock", "end"}
  /\ clpc \in {"idle", "cancel", "waitdone", "closed"}

Range(s) == {s[i] : i \in 1..Len(s)}
\* C10: no message delivered twice; every delivered message was written
NoDup == /\ Cardinality({delivered[i].msg : i \in 1..Len(delivered)}) = Len(delivered)
         /\ \A i \in 1..Len(delivered) : \E p \in Procs, k \in 1..W : delivered[i].msg = Msg(p, k)
\* C10: delivery order is the order in which the Writes took effect (ring positions)
OrderSeq == \A i \in 1..Len(delivered) - 1 : delivered[i].seq < delivered[i + 1].seq
ProgramOrder == \A i, j \in 1..Len(delivered) :
                  (i < j /\ delivered[i].msg \div 100 = delivered[j].msg \div 100) => delivered[i].msg < delivered[j].msg
\* C10: reported counts never exceed the ring positions claimed
AlertBound == alerts <= widx + 1
\* C10: producers never wait for the consumer: while the consumer sits in the wrapped writer
\* it holds no lock (and no producer action has a guard that mentions the consumer)
NonBlocking == cpc = "deliver" => mu # "c"

Quiescent == \A p \in Procs : ppc[p] = "idle"
LiveInRing == \E i \in 0..N-1 : buf[i] # NIL /\ buf[i].seq >= ridx
\* C11
Accounting == Done => /\ Len(delivered) + alerts >= returned
                      /\ (retries = 0 => Len(delivered) + alerts = returned)
CloseDrains == Done => ~LiveInRing
NoEarlyDrop == (Done /\ omax < N) => (alerts = 0 /\ Len(delivered) = returned)
\* C12 (safety cores)
LostWakeup == ~Polling /\ cpc = "parked" /\ ~woken /\ Quiescent /\ ~cancelled /\ LiveInRing
Stalled == Quiescent /\ cpc \notin {"deliver", "unlock"} /\ buf[ridx % N] = NIL /\ LiveInRing
NoLostWakeup == ~LostWakeup
NoStall == ~Stalled
\* C12 (liveness, under FairSpec)
CloseReturns == (clpc = "cancel") ~> (clpc = "closed")
\* C12 (liveness, under NoCloseSpec): everything written is eventually delivered or reported
Prompt == <>[](Len(delivered) + alerts >= returned /\ (\A p \in Procs : pk[p] = W))
\* C10 (liveness, BlockWriter = TRUE): every Write returns although the writer never does
AllWritesReturn == <>(\A p \in Procs : pk[p] = W)
=============================================================================
