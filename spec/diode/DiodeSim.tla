------------------------------ MODULE DiodeSim ------------------------------
(***************************************************************************)
(* DiodeImpl plus a history variable holding the schedule (the sequence of *)
(* goroutine names).  Used (a) in simulation mode to export complete       *)
(* behaviours as scripts for the player, (b) in model-checking mode with   *)
(* VIEW SView to print the schedule of a counterexample, which is then     *)
(* replayed on the real code (a model-level violation is a lead, never a   *)
(* verdict).                                                               *)
(***************************************************************************)
EXTENDS DiodeImpl, Json

VARIABLE sched
svars == <<vars, sched>>

Tag(t) == sched' = Append(sched, t)
SInit == Init /\ sched = <<>>
SNext == \/ \E p \in Procs : Producer(p) /\ Tag("P" \o ToString(p))
         \/ Consumer /\ Tag("C")
         \/ Canceller /\ Tag("X")
         \/ Closer /\ Tag("CL")
SSpec == SInit /\ [][SNext]_svars
SView == vars

\* one string per line: TLC wraps long tuples but never a string
Emit(kind, name) == PrintT("@@" \o kind \o "|" \o name \o "|" \o ToJson(sched))
\* simulation export: print the schedule of every complete behaviour
EmitDone == ~Done \/ Emit("SCHED", "done")
\* blocked-writer export: all producers finished and the consumer is stuck in the writer
EmitBlocked == ~(BlockWriter /\ (\A p \in Procs : pk[p] = W) /\ cpc = "deliver") \/ Emit("SCHED", "blocked")

CexAccounting   == Accounting   \/ (Emit("CEX", "Accounting") /\ FALSE)
CexCloseDrains  == CloseDrains  \/ (Emit("CEX", "CloseDrains") /\ FALSE)
CexNoEarlyDrop  == NoEarlyDrop  \/ (Emit("CEX", "NoEarlyDrop") /\ FALSE)
CexNoLostWakeup == NoLostWakeup \/ (Emit("CEX", "NoLostWakeup") /\ FALSE)
CexNoStall      == NoStall      \/ (Emit("CEX", "NoStall") /\ FALSE)
CexNoDup        == NoDup        \/ (Emit("CEX", "NoDup") /\ FALSE)
CexOrderSeq     == OrderSeq     \/ (Emit("CEX", "OrderSeq") /\ FALSE)
CexAlertBound   == AlertBound   \/ (Emit("CEX", "AlertBound") /\ FALSE)
=============================================================================
