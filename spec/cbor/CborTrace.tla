------------------------------ MODULE CborTrace ------------------------------
(***************************************************************************)
(* Validates recordings of logging programs run under -tags binary_log.    *)
(*   C09   the bytes are one well-formed RFC 8949 item (CborWF on the      *)
(*         heads of an independent scanner), the member names found by an  *)
(*         independent generic decoder are ExpectedKeys(program), and      *)
(*         every logged scalar is present in the representation zerolog    *)
(*         documents (valbad: names whose item differs from the argument,  *)
(*         computed by the projection from the program's arguments)        *)
(*   C08   the bundled decoder turns the bytes into one valid JSON line    *)
(*         with the same member names in the same order as the JSON build  *)
(*         emits for the same program, and equal values (jdiff: paths      *)
(*         whose decoded values differ; jkeys: the JSON build's names)     *)
(***************************************************************************)
EXTENDS EventDoc, CborWF, Json, TLCExt
TraceLog == ndJsonDeserialize("hist.ndjson")
VARIABLES l, bad
TInit == l = 1 /\ bad = <<>>
Seq1(x) == [i \in 1..Len(x) |-> x[i]]
Heads(e) == [i \in 1..Len(e.heads) |-> <<e.heads[i][1], e.heads[i][2]>>]
Keys(x) == [i \in 1..Len(x) |-> <<x[i][1], x[i][2]>>]
P(e) == [lvl |-> e.abs.p.lvl, with |-> e.abs.p.with, msg |-> e.abs.p.msg,
         ctx |-> Seq1(e.abs.p.ctx), ev |-> Seq1(e.abs.p.ev), hooks |-> Seq1(e.abs.p.hooks)]
N(e) == [lvl |-> e.abs.n.lvl, msg |-> e.abs.n.msg, ctx |-> Seq1(e.abs.n.ctx), ev |-> Seq1(e.abs.n.ev), hooks |-> Seq1(e.abs.n.hooks)]

C09ok(e, p, n) == /\ e.panic = "" /\ e.nw = (IF Discarded(p) THEN 0 ELSE 1)
                  /\ (e.nw = 1 => /\ WellFormedEvent(Heads(e)) /\ e.itemerr = "" /\ e.rest = 0
                                  /\ Keys(e.ikeys) = ExpectedKeys(p, n)
                                  /\ e.valbad = <<>>)
C08ok(e, p, n) == e.nw = 1 => /\ e.decpanic = "" /\ e.decerr = ""
                              /\ e.draw.nl /\ e.draw.noctl /\ e.draw.utf8
                              /\ WellFormedTokens(Seq1(e.tokens))                 \* the decoder's output is one valid JSON object on one line
                              /\ Keys(e.dkeys) = Keys(e.jkeys)                    \* same keys, same order as the JSON build
                              /\ e.jdiff = <<>>                                   \* equal values
Sig(e) == IF "sig" \in DOMAIN e THEN e.sig ELSE ""
TNext == /\ l <= Len(TraceLog) /\ l' = l + 1
         /\ LET e == TraceLog[l] IN
            IF e.a = "Reset" THEN UNCHANGED bad
            \* C08 for programs that log many events: the run's output decoded as ONE stream gives, line by line,
            \* exactly what each event decodes to alone
            ELSE IF e.a = "Stream" THEN (IF e.mismatch = 0 /\ e.lines = e.events /\ e.decerr = "" /\ e.decpanic = "" THEN UNCHANGED bad
                                         ELSE bad' = Append(bad, <<l, "C08 ">>))
            ELSE LET p == P(e)  n == N(e)
                     tag == (IF C09ok(e, p, n) THEN "" ELSE "C09 ") \o (IF C08ok(e, p, n) THEN "" ELSE "C08 ")
                 IN IF tag = "" THEN UNCHANGED bad ELSE bad' = Append(bad, <<l, tag \o Sig(e)>>)
TSpec == TInit /\ [][TNext]_<<l, bad>>
Report == l <= Len(TraceLog) \/ PrintT("@@BADLINES|" \o ToString(Len(TraceLog)) \o "|" \o ToJson(bad))
=============================================================================
