------------------------------ MODULE CborGen ------------------------------
(***************************************************************************)
(* The input language for C17: every sequence of up to MaxHeads abstract   *)
(* RFC 8949 heads.  A head is <<major, form, arg>>: form is the additional *)
(* information class - "imm" (0..23), "u8" "u16" "u32" "u64" (24..27),     *)
(* "res" (reserved 28..30), "ind" (31: indefinite / break); arg is the     *)
(* argument class - "zero", "small" (1..3), "fit" (exactly the bytes that  *)
(* follow), "beyond" (more than the input holds), "top" (top bit of the    *)
(* argument set: negative when read as a signed integer).  CborWF decides  *)
(* which sequences are well-formed events; all of them - well-formed,      *)
(* nearly well-formed, nonsense - are exported, concretised to bytes (with *)
(* several byte values per class and payloads up to 64 KiB) and decoded.   *)
(***************************************************************************)
EXTENDS Integers, Sequences, TLC, Json
CONSTANTS MaxHeads
Majors == 0..7
Forms == {"imm", "u8", "u16", "u32", "u64", "res", "ind"}
Args(f) == IF f \in {"res", "ind"} THEN {"zero"} ELSE IF f = "imm" THEN {"zero", "small"} ELSE {"zero", "small", "beyond", "top"}
HeadSet == {<<m, f, a>> : m \in Majors, f \in Forms, a \in {"zero", "small", "beyond", "top"}}
VARIABLES seq, done
Init == seq = <<>> /\ done = FALSE
Add == ~done /\ Len(seq) < MaxHeads /\ \E m \in Majors, f \in Forms : \E a \in Args(f) : seq' = Append(seq, <<m, f, a>>) /\ UNCHANGED done
Stop == ~done /\ Len(seq) > 0 /\ done' = TRUE /\ UNCHANGED seq
Next == Add \/ Stop
Spec == Init /\ [][Next]_<<seq, done>>
Emit == ~done \/ PrintT("@@GEN|" \o ToJson(seq))
=============================================================================
