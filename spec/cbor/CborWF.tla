------------------------------- MODULE CborWF -------------------------------
(***************************************************************************)
(* RFC 8949 well-formedness of ONE data item given as the sequence of its  *)
(* heads (harness/prog/cborref.go ScanHeads does the byte-level half:      *)
(* arguments, payload lengths, reserved additional information).  This     *)
(* module is the nesting half: definite counts, indefinite containers and  *)
(* breaks, chunks of indefinite strings, tag content - plus what C09 adds  *)
(* for zerolog's events: the item is an indefinite-length map, every map   *)
(* has an even number of items and text-string keys.                       *)
(* Heads: <<kind, n>> with kinds U N (ints) B T (definite strings, n =     *)
(* length) B* T* A* M* (indefinite) A M (definite, n = count / pairs) G    *)
(* (tag) F (float) S (simple) BRK, and X (byte-level error).               *)
(* Used as an acceptor on recordings (C09) and, with one rule negated at a *)
(* time, as a generator of nearly well-formed inputs (C17).                *)
(***************************************************************************)
EXTENDS Integers, Sequences, TLC, SequencesExt

LastC(s) == s[Len(s)]
PopC(s) == SubSeq(s, 1, Len(s) - 1)
\* frames: <<"m*", items so far>> <<"a*", 0>> <<"a", items left>> <<"m", items left>> <<"t*", 0>> <<"b*", 0>> <<"g", 1>>
RECURSIVE Done(_)
\* one complete item has just ended inside the top frame
Done(stk) == IF stk = <<>> THEN <<>>
             ELSE LET f == LastC(stk) IN
                  CASE f[1] = "m*" -> Append(PopC(stk), <<"m*", f[2] + 1>>)
                    [] f[1] \in {"a*", "t*", "b*"} -> stk
                    [] f[1] = "g" -> Done(PopC(stk))
                    [] OTHER -> IF f[2] = 1 THEN Done(PopC(stk)) ELSE Append(PopC(stk), <<f[1], f[2] - 1>>)
\* is the next item a map key?
KeyPos(stk) == stk # <<>> /\ ((LastC(stk)[1] = "m*" /\ LastC(stk)[2] % 2 = 0) \/ (LastC(stk)[1] = "m" /\ LastC(stk)[2] % 2 = 0))
\* One step of the automaton. acc = [stk: open frames, top: the single top-level item has completed, ok]
\* (a fold, not a recursion: recordings of mutated code can carry thousands of heads)
StepWF(acc, h) ==
  IF ~acc.ok THEN acc
  ELSE IF acc.top THEN [acc EXCEPT !.ok = FALSE]                                \* bytes after the event
  ELSE LET k == h[1]  n == h[2]  stk == acc.stk
           fin(st) == [stk |-> st, top |-> (st = <<>>), ok |-> TRUE]
           push(f) == [stk |-> Append(stk, f), top |-> FALSE, ok |-> TRUE]
           bad == [acc EXCEPT !.ok = FALSE]
           inStr == stk # <<>> /\ LastC(stk)[1] \in {"t*", "b*"}
       IN CASE k = "X" -> bad
            [] k = "BRK" -> IF /\ stk # <<>> /\ LastC(stk)[1] \in {"m*", "a*", "t*", "b*"}       \* no dangling break
                               /\ (LastC(stk)[1] = "m*" => LastC(stk)[2] % 2 = 0)                  \* even number of items in a map
                            THEN fin(Done(PopC(stk))) ELSE bad
            [] inStr -> IF k = (IF LastC(stk)[1] = "t*" THEN "T" ELSE "B") THEN acc ELSE bad     \* chunks: definite, same major type
            [] KeyPos(stk) /\ k \notin {"T", "T*"} -> bad                                       \* keys are text strings
            [] stk = <<>> /\ k # "M*" -> bad                                                    \* an event is an indefinite-length map
            [] k \in {"U", "N", "B", "T", "F", "S"} -> fin(Done(stk))
            [] k = "A" -> IF n = 0 THEN fin(Done(stk)) ELSE push(<<"a", n>>)
            \* a map that is the content of a tag (tag 261: {address bytes: prefix length}) is not an object of the event:
            \* its keys need not be text
            [] k = "M" -> IF n = 0 THEN fin(Done(stk))
                          ELSE push(<<(IF stk # <<>> /\ LastC(stk)[1] = "g" THEN "mg" ELSE "m"), 2 * n>>)
            [] k = "A*" -> push(<<"a*", 0>>)
            [] k = "M*" -> push(<<"m*", 0>>)
            [] k = "T*" -> push(<<"t*", 0>>)
            [] k = "B*" -> push(<<"b*", 0>>)
            [] k = "G" -> push(<<"g", 1>>)
            [] OTHER -> bad
WellFormedEvent(s) == s # <<>> /\ LET r == FoldLeft(StepWF, [stk |-> <<>>, top |-> FALSE, ok |-> TRUE], s) IN r.ok /\ r.top /\ r.stk = <<>>
=============================================================================
