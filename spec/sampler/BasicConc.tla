----------------------------- MODULE BasicConc -----------------------------
(***************************************************************************)
(* BasicSampler under concurrency (C13: "however the calls are spread      *)
(* over goroutines").  Implementation-shaped part: G goroutines each make  *)
(* K calls of Sample; a call is the gate s.call followed (for N >= 2) by   *)
(* ONE atomic step, AddUint32(&counter, 1), whose result decides.          *)
(* Contract part (observable): CStart(g) / CRet(g, adm); whenever no call  *)
(* is in flight, admitted = ceil(returned / N) (0 for N = 0, all for N =   *)
(* 1), and while calls are in flight admitted never exceeds                *)
(* ceil((returned + inflight) / N).                                        *)
(***************************************************************************)
EXTENDS Integers, Sequences, TLC, Json

CONSTANTS G, K, N
Gs == 1..G
VARIABLES counter, pc, ndone,          \* implementation
          inflight, returned, admitted, \* contract
          sched
ivars == <<counter, pc, ndone>>
cvars == <<inflight, returned, admitted>>
vars == <<ivars, cvars, sched>>

CeilDiv(a, b) == (a + b - 1) \div b
Share(k) == IF N = 0 THEN 0 ELSE IF N = 1 THEN k ELSE CeilDiv(k, N)

\* ---- contract (guard / effect)
CStartE == inflight' = inflight + 1 /\ UNCHANGED <<returned, admitted>>
CRetG(adm) == LET a == admitted + (IF adm THEN 1 ELSE 0) IN
              /\ inflight > 0
              /\ a <= Share(returned + inflight)
              /\ (inflight = 1 => a = Share(returned + 1))
CRetE(adm) == /\ inflight' = inflight - 1 /\ returned' = returned + 1
              /\ admitted' = admitted + (IF adm THEN 1 ELSE 0)

\* ---- implementation-shaped
Init == /\ counter = 0 /\ pc = [g \in Gs |-> "call"] /\ ndone = [g \in Gs |-> 0]
        /\ inflight = 0 /\ returned = 0 /\ admitted = 0 /\ sched = <<>>
Tag(g) == sched' = Append(sched, "G" \o ToString(g))
\* gate s.call: Sample is entered; N < 2 returns without touching the counter
GCall(g) == /\ pc[g] = "call" /\ ndone[g] < K /\ Tag(g)
            /\ IF N < 2
               THEN /\ ndone' = [ndone EXCEPT ![g] = ndone[g] + 1] /\ UNCHANGED <<counter, pc>>
                    /\ returned' = returned + 1 /\ admitted' = admitted + (IF N = 1 THEN 1 ELSE 0) /\ UNCHANGED inflight
               ELSE /\ pc' = [pc EXCEPT ![g] = "add"] /\ UNCHANGED <<counter, ndone>> /\ CStartE
\* gate at.add: c := atomic.AddUint32(&s.counter, 1); return c%n == 1
GAdd(g) == /\ pc[g] = "add" /\ Tag(g)
           /\ counter' = counter + 1 /\ pc' = [pc EXCEPT ![g] = "call"] /\ ndone' = [ndone EXCEPT ![g] = ndone[g] + 1]
           /\ CRetE((counter + 1) % N = 1)
Next == \E g \in Gs : GCall(g) \/ GAdd(g)
Spec == Init /\ [][Next]_vars
View == <<ivars, cvars>>

Done == \A g \in Gs : ndone[g] = K
\* the implementation-shaped model satisfies the contract
ShareInv == /\ admitted <= Share(returned + inflight)
            /\ (inflight = 0 => admitted = Share(returned))
EmitDone == ~Done \/ PrintT("@@SCHED|done|" \o ToJson(sched))
=============================================================================
