--------------------------- MODULE BasicConcTrace ---------------------------
(* Validates recordings (conc.ndjson) of the real BasicSampler driven through the gate scheduler
   against the observable contract of BasicConc. N is taken from each recording's Reset line. *)
EXTENDS Integers, Sequences, TLC, Json, TLCExt
TraceLog == ndJsonDeserialize("conc.ndjson")
VARIABLES n, inflight, returned, admitted, l, failed, bad
tvars == <<n, inflight, returned, admitted, l, failed, bad>>
CeilDiv(a, b) == (a + b - 1) \div b
Share(k) == IF n = 0 THEN 0 ELSE IF n = 1 THEN k ELSE CeilDiv(k, n)
CRetG(adm) == LET a == admitted + (IF adm THEN 1 ELSE 0) IN
              /\ inflight > 0 /\ a <= Share(returned + inflight) /\ (inflight = 1 => a = Share(returned + 1))
TInit == n = 0 /\ inflight = 0 /\ returned = 0 /\ admitted = 0 /\ l = 1 /\ failed = FALSE /\ bad = <<>>
TNext ==
  /\ l <= Len(TraceLog) /\ l' = l + 1
  /\ LET e == TraceLog[l] IN
     CASE e.a = "Reset" -> n' = e.N /\ inflight' = 0 /\ returned' = 0 /\ admitted' = 0 /\ failed' = FALSE /\ UNCHANGED bad
       [] failed -> UNCHANGED <<n, inflight, returned, admitted, failed, bad>>
       [] e.a = "CStart" -> inflight' = inflight + 1 /\ UNCHANGED <<n, returned, admitted, failed, bad>>
       [] e.a = "CRet" /\ CRetG(e.adm) -> /\ inflight' = inflight - 1 /\ returned' = returned + 1
                                          /\ admitted' = admitted + (IF e.adm THEN 1 ELSE 0) /\ UNCHANGED <<n, failed, bad>>
       \* real goroutines on the uninstrumented build (race-detector run): only the total is observable
       [] e.a = "Bulk" /\ inflight = 0 /\ e.admitted = Share(e.calls) ->
            returned' = e.calls /\ admitted' = e.admitted /\ UNCHANGED <<n, inflight, failed, bad>>
       \* "Race": the Go race detector reported a data race - an event the contract says never occurs
       [] OTHER -> failed' = TRUE /\ bad' = Append(bad, <<l, "">>) /\ UNCHANGED <<n, inflight, returned, admitted>>
TSpec == TInit /\ [][TNext]_tvars
Report == l <= Len(TraceLog) \/ PrintT("@@BADLINES|" \o ToString(Len(TraceLog)) \o "|" \o ToJson(bad))
=============================================================================
