----------------------------- MODULE MCSampler -----------------------------
(* Configuration sets for Sampler (a .cfg cannot express records). *)
EXTENDS Sampler

Name(s, a, b, c) == s \o "-" \o ToString(a) \o "-" \o ToString(b) \o "-" \o c
Direct(name, nodes, clock, levels, maxops) ==
  [name |-> name, kind |-> "direct", nodes |-> nodes, root |-> 1, ll |-> Trace, gl |-> Trace, clock |-> clock, levels |-> levels, maxops |-> maxops]
Logger(name, nodes, ll, gl, clock, levels, maxops) ==
  [name |-> name, kind |-> "logger", nodes |-> nodes, root |-> 1, ll |-> ll, gl |-> gl, clock |-> clock, levels |-> levels, maxops |-> maxops]

NextNodes(nx) == CASE nx = "none" -> <<>> [] nx = "basic2" -> <<Basic(2)>> [] nx = "burst12" -> <<Burst(1, 2, 0)>>
                   [] nx = "burst13basic2" -> <<Burst(1, 3, 3), Basic(2)>>
BurstConf(b, per, nx, clock, m) ==
  Direct(Name("burst", b, per, nx), <<Burst(b, per, IF nx = "none" THEN 0 ELSE 2)>> \o NextNodes(nx), clock, {Info}, m)
BasicConf(n, m) == Direct(Name("basic", n, 0, "x"), <<Basic(n)>>, {0}, {Info}, m)
\* LevelSampler over <<Trace, Debug, Info, Warn, Error>>; instances 2 = Basic(2), 3 = Burst(1,2), 4 = Basic(3)
LevelConf(i, slots, clock, m) == Direct(Name("level", i, 0, "x"), <<Level(slots), Basic(2), Burst(1, 2, 0), Basic(3)>>, clock,
                                        {Trace, Debug, Info, Error, Fatal, NoLevel}, m)
LevelConfs(clock, m) == {LevelConf(1, <<0, 0, 0, 0, 0>>, clock, m), LevelConf(2, <<2, 2, 0, 0, 3>>, clock, m),
                         LevelConf(3, <<0, 3, 2, 0, 4>>, clock, m), LevelConf(4, <<4, 0, 3, 2, 2>>, clock, m)}
LoggerConf(i, nodes, ll, gl, clock, m) == Logger(Name("logger", i, ll * 10 + gl, "x"), nodes, ll, gl, clock, {Debug, Info, Warn, Error, NoLevel, Disabled}, m)
LoggerConfs(clock, m) ==
       {LoggerConf(1, <<Basic(2)>>, ll, gl, clock, m) : ll \in {Debug, Warn}, gl \in {Trace, Info, Error}}
  \cup {LoggerConf(2, <<Burst(1, 2, 0)>>, ll, gl, clock, m) : ll \in {Debug, Warn}, gl \in {Trace, Info}}
  \cup {LoggerConf(3, <<Burst(1, 2, 2), Basic(2)>>, Info, Debug, clock, m)}
  \* samplers that never admit anything, installed directly on the logger: nothing is written (a nil NextSampler means "reject", a nil sampler on the logger would mean "admit all")
  \cup {LoggerConf(4, <<Burst(0, 2, 0)>>, Debug, Trace, clock, m), LoggerConf(5, <<Burst(1, 0, 0)>>, Debug, Trace, clock, m), LoggerConf(6, <<Basic(0)>>, Debug, Trace, clock, m)}

QuickConfs == {BurstConf(b, per, nx, {0, 1, 2, 3, 5}, 4) : b \in {0, 1, 2}, per \in {0, 2, 3}, nx \in {"none", "basic2", "burst12"}}
              \cup {BasicConf(n, 8) : n \in {0, 1, 2, 3, 5}} \cup LevelConfs({0, 2}, 3) \cup LoggerConfs({0, 2}, 3)
ThoroughConfs == {BurstConf(b, per, nx, {0, 1, 2, 3, 5, 8}, 5) : b \in {0, 1, 2, 3}, per \in {0, 2, 3}, nx \in {"none", "basic2", "burst12", "burst13basic2"}}
              \cup {BasicConf(n, 16) : n \in {0, 1, 2, 3, 4, 5, 7}} \cup LevelConfs({0, 1, 2}, 4) \cup LoggerConfs({0, 1, 2}, 4)
=============================================================================
