---------------------------- MODULE SamplerTrace ----------------------------
(* Validates recordings of the real samplers (hist.ndjson) against Sampler: every Sample return and
   every written/not-written outcome must be the one the contract demands. *)
EXTENDS MCSampler, TLCExt

CONSTANT AllConfs
TraceLog == ndJsonDeserialize("hist.ndjson")
VARIABLES l, failed, bad
tvars == <<vars, l, failed, bad>>

ByName(n) == CHOOSE c \in AllConfs : c.name = n
TInit == /\ conf = CHOOSE c \in AllConfs : TRUE
         /\ cnt = [i \in Ids(conf) |-> 0] /\ winEnd = [i \in Ids(conf) |-> 0]
         /\ sampOff = FALSE /\ hist = <<>>
         /\ l = 1 /\ failed = FALSE /\ bad = <<>>

Guard(e) == CASE e.a = "Call" -> e.adm = CallExpected(e.lvl, e.now)
              [] e.a = "Log" -> e.adm = LogExpected(e.lvl, e.now)
              [] e.a = "Toggle" -> TRUE
              \* a child made with Sample(nil): no sampler - written iff it passes the levels; no effect on the parent's sampler
              [] e.a = "Unsampled" -> e.written = (IF PassesGate(e.lvl) /\ e.lvl # Disabled THEN 1 ELSE 0)
              [] OTHER -> FALSE
Effect(e) == CASE e.a = "Call" -> CallEff(e.lvl, e.now)
               [] e.a = "Log" -> LogEff(e.lvl, e.now)
               [] e.a = "Toggle" -> ToggleEff(e.adm)
               [] OTHER -> UNCHANGED <<conf, cnt, winEnd, sampOff>>
TNext ==
  /\ l <= Len(TraceLog) /\ l' = l + 1 /\ UNCHANGED hist
  /\ LET e == TraceLog[l] IN
     IF e.a = "Reset"
     THEN /\ conf' = ByName(e.conf)
          /\ cnt' = [i \in Ids(ByName(e.conf)) |-> 0] /\ winEnd' = [i \in Ids(ByName(e.conf)) |-> 0]
          /\ sampOff' = FALSE /\ failed' = FALSE /\ UNCHANGED bad
     ELSE IF failed THEN UNCHANGED <<conf, cnt, winEnd, sampOff, failed, bad>>
     ELSE IF Guard(e) THEN Effect(e) /\ UNCHANGED <<failed, bad>>
     ELSE failed' = TRUE /\ bad' = Append(bad, <<l, "">>) /\ UNCHANGED <<conf, cnt, winEnd, sampOff>>
TSpec == TInit /\ [][TNext]_tvars
Report == l <= Len(TraceLog) \/ PrintT("@@BADLINES|" \o ToString(Len(TraceLog)) \o "|" \o ToJson(bad))
=============================================================================
