------------------------------ MODULE Sampler ------------------------------
(***************************************************************************)
(* Contract of C13: BasicSampler, BurstSampler, LevelSampler, their        *)
(* composition through NextSampler, and the way Logger consults a sampler  *)
(* (only after both level tests; never when DisableSampling(true)).        *)
(*                                                                         *)
(* A configuration is a small tree of sampler instances (each with its own *)
(* state), a logger level, a global level and the alphabets of clock       *)
(* readings and event levels.  A history is a sequence of operations       *)
(*   Call(lvl, now)  Sample(lvl) on the root sampler, clock reading now    *)
(*   Log(lvl, now)   an event of level lvl through a logger that has the   *)
(*                   root sampler installed                                *)
(*   Toggle(v)       DisableSampling(v)                                    *)
(* TLC enumerates every history up to MaxOps per configuration; each is    *)
(* exported with the outcome the contract demands, replayed on the real    *)
(* samplers, and the recording is validated by SamplerTrace.               *)
(***************************************************************************)
EXTENDS Integers, Sequences, TLC, Json

CONSTANTS Confs     \* set of configurations (see MCSampler); each carries its own history length maxops

\* zerolog levels
Trace == -1  Debug == 0  Info == 1  Warn == 2  Error == 3  Fatal == 4  Panic == 5  NoLevel == 6  Disabled == 7
LevelSampled == {Trace, Debug, Info, Warn, Error}
SlotOf(lvl) == lvl + 2        \* slots <<Trace, Debug, Info, Warn, Error>>

None5 == <<0, 0, 0, 0, 0>>
Basic(n) == [kind |-> "basic", n |-> n, b |-> 0, per |-> 0, next |-> 0, slots |-> None5]
Burst(b, per, next) == [kind |-> "burst", n |-> 0, b |-> b, per |-> per, next |-> next, slots |-> None5]
Level(slots) == [kind |-> "level", n |-> 0, b |-> 0, per |-> 0, next |-> 0, slots |-> slots]

VARIABLES conf,     \* the configuration of this history
          cnt,      \* per instance: basic: calls seen; burst: events seen in the current window
          winEnd,   \* per instance: burst: end of the current window (UnixNano), initially 0
          sampOff,  \* DisableSampling
          hist
vars == <<conf, cnt, winEnd, sampOff, hist>>

Ids(c) == 1..Len(c.nodes)
Init == /\ conf \in Confs
        /\ cnt = [i \in Ids(conf) |-> 0] /\ winEnd = [i \in Ids(conf) |-> 0]
        /\ sampOff = FALSE /\ hist = <<>>

\* Eval threads the sampler state through the composition; returns [adm, cnt, win]
RECURSIVE Eval(_, _, _, _, _, _)
Eval(nodes, id, lvl, now, c, w) ==
  IF id = 0 THEN [adm |-> FALSE, cnt |-> c, win |-> w]
  ELSE LET k == nodes[id] IN
    CASE k.kind = "basic" ->
           \* exactly ceil(calls/N), the first included; N = 0 none, N = 1 all
           IF k.n = 0 THEN [adm |-> FALSE, cnt |-> c, win |-> w]
           ELSE IF k.n = 1 THEN [adm |-> TRUE, cnt |-> c, win |-> w]
           ELSE [adm |-> ((c[id] + 1) % k.n = 1), cnt |-> [c EXCEPT ![id] = c[id] + 1], win |-> w]
      [] k.kind = "burst" ->
           IF k.b > 0 /\ k.per > 0
           THEN \* a window opens at the first event at or after the previous window's end
                LET opens == now >= w[id]
                    n1    == IF opens THEN 1 ELSE c[id] + 1
                    c1    == [c EXCEPT ![id] = n1]
                    w1    == IF opens THEN [w EXCEPT ![id] = now + k.per] ELSE w
                IN IF n1 <= k.b THEN [adm |-> TRUE, cnt |-> c1, win |-> w1]
                   ELSE IF k.next = 0 THEN [adm |-> FALSE, cnt |-> c1, win |-> w1]
                   ELSE Eval(nodes, k.next, lvl, now, c1, w1)
           ELSE \* Burst or Period zero: every event goes to NextSampler, no state touched
                IF k.next = 0 THEN [adm |-> FALSE, cnt |-> c, win |-> w]
                ELSE Eval(nodes, k.next, lvl, now, c, w)
      [] k.kind = "level" ->
           IF lvl \in LevelSampled /\ k.slots[SlotOf(lvl)] # 0
           THEN Eval(nodes, k.slots[SlotOf(lvl)], lvl, now, c, w)
           ELSE [adm |-> TRUE, cnt |-> c, win |-> w]

\* ---- operations: guard-free (every operation is always possible); Expected* is what the
\* contract demands of the observable outcome, *Eff the state change
CallRes(lvl, now) == Eval(conf.nodes, conf.root, lvl, now, cnt, winEnd)
CallExpected(lvl, now) == CallRes(lvl, now).adm
CallEff(lvl, now) == /\ cnt' = CallRes(lvl, now).cnt /\ winEnd' = CallRes(lvl, now).win
                     /\ UNCHANGED <<conf, sampOff>>

\* Logger.should: level tests first; a filtered event never reaches the sampler
PassesGate(lvl) == lvl >= conf.ll /\ lvl >= conf.gl
\* an event of level Disabled (WithLevel(Disabled)) is no event: never written, and the sampler never hears of it
Consults(lvl) == PassesGate(lvl) /\ lvl # Disabled /\ conf.root # 0 /\ ~sampOff
LogExpected(lvl, now) == /\ PassesGate(lvl) /\ lvl # Disabled
                         /\ (Consults(lvl) => CallRes(lvl, now).adm)
LogEff(lvl, now) == IF Consults(lvl) THEN CallEff(lvl, now) ELSE UNCHANGED <<conf, cnt, winEnd, sampOff>>

ToggleEff(v) == sampOff' = v /\ UNCHANGED <<conf, cnt, winEnd>>

Call(lvl, now) == /\ conf.kind = "direct" /\ Len(hist) < conf.maxops /\ CallEff(lvl, now)
                  /\ hist' = Append(hist, [a |-> "Call", lvl |-> lvl, now |-> now, adm |-> CallExpected(lvl, now)])
Log(lvl, now) == /\ conf.kind = "logger" /\ Len(hist) < conf.maxops /\ LogEff(lvl, now)
                 /\ hist' = Append(hist, [a |-> "Log", lvl |-> lvl, now |-> now, adm |-> LogExpected(lvl, now)])
Toggle(v) == /\ conf.kind = "logger" /\ Len(hist) < conf.maxops /\ ToggleEff(v)         \* also redundantly: the switch is a flag, not a counter
             /\ hist' = Append(hist, [a |-> "Toggle", lvl |-> 0, now |-> 0, adm |-> v])
Next == \/ \E lvl \in conf.levels, now \in conf.clock : Call(lvl, now) \/ Log(lvl, now)
        \/ \E v \in BOOLEAN : Toggle(v)
Spec == Init /\ [][Next]_vars

\* ---- export
EmitConf == hist # <<>> \/ PrintT("@@CONF|" \o conf.name \o "|" \o ToJson(conf))
EmitHist == Len(hist) < conf.maxops \/ PrintT("@@HIST|" \o conf.name \o "|" \o ToJson(hist))

\* ---- properties of the contract itself (the formalisation says what the statement says)
Admitted == Len(SelectSeq(hist, LAMBDA h : h.a = "Call" /\ h.adm))
\* Basic(N >= 2) at the root: exactly ceil(k/N) admitted, the first included
BasicShare == (conf.kind = "direct" /\ conf.nodes[conf.root].kind = "basic" /\ conf.nodes[conf.root].n >= 2) =>
                LET n == conf.nodes[conf.root].n  k == Len(hist) IN
                /\ Admitted * n >= k /\ (k = 0 \/ (Admitted - 1) * n < k)
                /\ (k > 0 => hist[1].adm)
BasicZeroOne == (conf.kind = "direct" /\ conf.nodes[conf.root].kind = "basic") =>
                  /\ (conf.nodes[conf.root].n = 0 => Admitted = 0)
                  /\ (conf.nodes[conf.root].n = 1 => Admitted = Len(hist))
\* Burst without NextSampler: within one window (same winEnd) never more than Burst admitted
BurstNoNext == (conf.kind = "direct" /\ conf.nodes[conf.root].kind = "burst" /\ conf.nodes[conf.root].next = 0
                /\ (conf.nodes[conf.root].b = 0 \/ conf.nodes[conf.root].per = 0)) => Admitted = 0
\* sampling disabled or no sampler: written iff the level gate passes
GateOnly == \A i \in 1..Len(hist) : (hist[i].a = "Log" /\ ~(hist[i].lvl >= conf.ll /\ hist[i].lvl >= conf.gl)) => ~hist[i].adm
=============================================================================
