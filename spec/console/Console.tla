------------------------------ MODULE Console ------------------------------
(***************************************************************************)
(* Contract of C16: which units ConsoleWriter writes, and in which order.  *)
(* Input: the member names of a JSON event in the order they were logged   *)
(* (duplicates allowed: the last value wins, the name counts once) and a   *)
(* configuration (PartsOrder, PartsExclude, FieldsOrder, FieldsExclude).   *)
(* Output line = the configured parts, in PartsOrder, that are not         *)
(* excluded and render non-empty, followed by every remaining non-excluded *)
(* field exactly once: without FieldsOrder the error field first and the   *)
(* rest in lexical (byte) order; with FieldsOrder the names it lists first *)
(* in that order, the rest in lexical order, and the error field either at *)
(* that position or at the very front (the statement leaves it open), so   *)
(* ExpectedFieldOrders is a SET of admissible orders.  Units are joined by *)
(* single spaces and the line ends with one newline; the text of each unit *)
(* (name=value with Go quoting where needed, exact number digits, compact  *)
(* JSON, the level / time / message formatters) is rendered by the         *)
(* player's reference functions from the decoded value.                    *)
(***************************************************************************)
EXTENDS Integers, Sequences, FiniteSets, TLC, Json, SequencesExt

CONSTANTS Names,       \* alphabet of member names for enumeration
          MaxFields
PartNames == {"level", "time", "message", "caller"}

\* byte-wise lexical order on the name alphabet (upper case before lower case, "" first)
Rank(n) == CASE n = "" -> 0 [] n = "Z" -> 1 [] n = "a" -> 2 [] n = "b" -> 3 [] n = "caller" -> 4 [] n = "error" -> 5
             [] n = "level" -> 6 [] n = "message" -> 7 [] n = "time" -> 8 [] n = "x" -> 9 [] n = "z" -> 10 [] OTHER -> 11
Lt(a, b) == Rank(a) < Rank(b)
SortNames(S) == SetToSortSeq(S, Lt)

\* distinct names of the event
NameSet(ev) == {ev[i] : i \in 1..Len(ev)}
\* parts: for every entry of PartsOrder that is not excluded, in order. A part that is absent from the event still
\* renders for time ("<nil>") and level ("???"), and renders nothing for message and caller; a custom name listed in
\* PartsOrder is only generated when the event has it.
PartShown(p, ev, cfg) == /\ p \notin {cfg.pexcl[i] : i \in 1..Len(cfg.pexcl)}
                         /\ (p \in {"message", "caller"} => p \in NameSet(ev))
                         /\ (p \notin PartNames => p \in NameSet(ev))
ExpectedParts(ev, cfg) == SelectSeq(cfg.parts, LAMBDA p : PartShown(p, ev, cfg))
\* fields: every member that is not one of the four part names and not excluded (a custom name listed in PartsOrder is
\* ALSO a field), exactly once
FieldSet(ev, cfg) == {n \in NameSet(ev) : n \notin PartNames /\ n \notin {cfg.fexcl[i] : i \in 1..Len(cfg.fexcl)}}
Listed(cfg) == {cfg.forder[i] : i \in 1..Len(cfg.forder)}
Ordered(ev, cfg) == SelectSeq(cfg.forder, LAMBDA n : n \in FieldSet(ev, cfg)) \o SortNames(FieldSet(ev, cfg) \ Listed(cfg))
Without(s, x) == SelectSeq(s, LAMBDA n : n # x)
ExpectedFieldOrders(ev, cfg) ==
  LET F == FieldSet(ev, cfg) IN
  IF cfg.forder = <<>>
  THEN {(IF "error" \in F THEN <<"error">> ELSE <<>>) \o SortNames(F \ {"error"})}
  ELSE IF "error" \in F THEN {Ordered(ev, cfg), <<"error">> \o Without(Ordered(ev, cfg), "error")}
       ELSE {Ordered(ev, cfg)}

\* ---- enumeration of cases
CONSTANTS Configs
VARIABLES ev, cfg, done
Init == ev = <<>> /\ cfg \in Configs /\ done = FALSE
Add(n) == ~done /\ Len(ev) < MaxFields /\ ev' = Append(ev, n) /\ UNCHANGED <<cfg, done>>
Stop == ~done /\ done' = TRUE /\ UNCHANGED <<ev, cfg>>
Next == (\E n \in Names : Add(n)) \/ Stop
Spec == Init /\ [][Next]_<<ev, cfg, done>>
\* custom part names must be present in the event (see PartShown)
Generated == \A i \in 1..Len(cfg.parts) : cfg.parts[i] \in PartNames \/ cfg.parts[i] \in NameSet(ev)
Emit == ~done \/ ~Generated \/ PrintT("@@CASE|" \o ToJson([ev |-> ev, cfg |-> cfg, parts |-> ExpectedParts(ev, cfg),
                                                            fields |-> SetToSeq(ExpectedFieldOrders(ev, cfg))]))
\* sanity: every admissible order contains every field exactly once
OrdersArePermutations == \A o \in ExpectedFieldOrders(ev, cfg) : Len(o) = Cardinality(FieldSet(ev, cfg)) /\ {o[i] : i \in 1..Len(o)} = FieldSet(ev, cfg)
=============================================================================
