---------------------------- MODULE ConsoleTrace ----------------------------
(* Validates recordings of the real ConsoleWriter: for each case the player reports the line it got, rendered as the
   sequence of unit names it is made of (parts then fields; "?" where the line is not a concatenation of the
   reference renderings of the event's units), the Write result, and whether a second run gave the same bytes. *)
EXTENDS MCConsole, TLCExt
TraceLog == ndJsonDeserialize("hist.ndjson")
VARIABLES l, bad
TInit == l = 1 /\ bad = <<>> /\ ev = <<>> /\ cfg = (CHOOSE c \in AllConfigs : TRUE) /\ done = FALSE
Seq1(x) == [i \in 1..Len(x) |-> x[i]]
C(e) == [parts |-> Seq1(e.cfg.parts), pexcl |-> Seq1(e.cfg.pexcl), forder |-> Seq1(e.cfg.forder), fexcl |-> Seq1(e.cfg.fexcl)]
\* any event the JSON logger can emit (the C01 generator's output): Write succeeds, full length, deterministic, and the
\* output ends with a newline (the message part and member names are written verbatim by design, so a message that
\* itself contains a line break spans lines: "one line" is not demanded of those)
RawGuard(e) == e.err = "" /\ e.n = e.inlen /\ e.same /\ e.endsnl
Guard(e) == IF e.a = "Raw" THEN RawGuard(e) ELSE
            LET v == Seq1(e.ev)  c == C(e) IN
            /\ e.err = "" /\ e.n = e.inlen                       \* Write succeeds and reports the full input length
            /\ e.same                                            \* same event and configuration, same bytes
            /\ e.oneline                                         \* exactly one line
            /\ Seq1(e.gotparts) = ExpectedParts(v, c)            \* the configured parts, in PartsOrder
            /\ Seq1(e.gotfields) \in ExpectedFieldOrders(v, c)   \* every remaining field exactly once, in an admissible order
TNext == /\ l <= Len(TraceLog) /\ l' = l + 1 /\ UNCHANGED <<ev, cfg, done>>
         /\ LET e == TraceLog[l] IN IF e.a = "Reset" \/ Guard(e) THEN UNCHANGED bad ELSE bad' = Append(bad, <<l, "">>)
TSpec == TInit /\ [][TNext]_<<l, bad, ev, cfg, done>>
Report == l <= Len(TraceLog) \/ PrintT("@@BADLINES|" \o ToString(Len(TraceLog)) \o "|" \o ToJson(bad))
=============================================================================
