----------------------------- MODULE MCConsole -----------------------------
EXTENDS Console
Cfg(parts, pexcl, forder, fexcl) == [parts |-> parts, pexcl |-> pexcl, forder |-> forder, fexcl |-> fexcl]
Default == <<"time", "level", "caller", "message">>
PartsChoices == {Default, <<"message", "level">>, <<"level", "x", "message">>, <<>>}
PExclChoices == {<<>>, <<"time">>, <<"level", "caller">>}
FOrderChoices == {<<>>, <<"b", "a">>, <<"z", "missing">>, <<"error", "Z">>, <<"a", "error">>}
FExclChoices == {<<>>, <<"a">>, <<"z", "error">>}     \* the two-name list is NOT in alphabetical order: the writer must not rely on (or establish) an order of the caller's list
AllConfigs == {Cfg(p, pe, fo, fe) : p \in PartsChoices, pe \in PExclChoices, fo \in FOrderChoices, fe \in FExclChoices}
QuickNames == {"", "a", "b", "error", "z", "Z", "level", "message", "time", "x"}
ThoroughNames == QuickNames \cup {"caller"}
=============================================================================
