------------------------------- MODULE Syslog -------------------------------
(***************************************************************************)
(* Extension (not one of the listed properties): the syslog level writers  *)
(* (syslog.go, JSON build only).  SyslogLevelWriter / SyslogCEEWriter wrap *)
(* a SyslogWriter and route every event to the syslog method of its level: *)
(* Trace -> nothing, Debug -> Debug, Info and NoLevel -> Info, Warn ->     *)
(* Warning, Error -> Err, Fatal -> Emerg, Panic -> Crit, anything else is  *)
(* a programming error (panic "invalid level").  The method receives the   *)
(* prefix ("" or "@cee:") followed by exactly the event's bytes, once; the *)
(* call reports len(p) - the prefix is not part of the message - and the   *)
(* method's error.  A plain Write sends the prefix (if any) and the bytes  *)
(* as two writes and stops after a failed prefix write.                    *)
(* Operations: WL(l, fault) direct WriteLevel; LOG(l) an event of level l  *)
(* through a Logger; W(fault) a plain Write.                               *)
(***************************************************************************)
EXTENDS Integers, Sequences, TLC, Json
CONSTANTS MaxOps
Levels == {-1, 0, 1, 2, 3, 4, 5, 6, 7, 9, -5}
LogLevels == {-1, 0, 1, 2, 3, 4, 5, 6}            \* what WithLevel can emit (Disabled emits nothing)
Method(l) == CASE l = -1 -> "none" [] l = 0 -> "Debug" [] l = 1 -> "Info" [] l = 2 -> "Warning" [] l = 3 -> "Err"
               [] l = 4 -> "Emerg" [] l = 5 -> "Crit" [] l = 6 -> "Info" [] OTHER -> "panic"
\* expected observation of one operation on a writer with prefix on/off
Expect(op, cee) ==
  CASE op.op \in {"WL", "LOG"} ->
         LET m == Method(op.l) IN
         [calls |-> IF m \in {"none", "panic"} THEN <<>> ELSE << <<m, cee>> >>,
          panics |-> m = "panic",
          err |-> op.fault /\ m \notin {"none", "panic"},
          full |-> m # "panic"]                                  \* n = len(p)
    [] op.op = "W" ->
         [calls |-> IF cee THEN (IF op.wfault = "prefix" THEN << <<"Write", TRUE>> >> ELSE << <<"Write", TRUE>>, <<"Write", FALSE>> >>)
                           ELSE << <<"Write", FALSE>> >>,
          panics |-> FALSE,
          err |-> (op.wfault = "body") \/ (cee /\ op.wfault = "prefix"),
          full |-> ~((op.wfault = "body") \/ (cee /\ op.wfault = "prefix"))]
Ops == [op : {"WL"}, l : Levels, fault : BOOLEAN, wfault : {"none"}]
       \cup [op : {"LOG"}, l : LogLevels, fault : BOOLEAN, wfault : {"none"}]
       \cup [op : {"W"}, l : {0}, fault : {FALSE}, wfault : {"none", "prefix", "body"}]
VARIABLES cee, hist
Init == cee \in BOOLEAN /\ hist = <<>>
Next == Len(hist) < MaxOps /\ \E o \in Ops : hist' = Append(hist, o) /\ UNCHANGED cee
Spec == Init /\ [][Next]_<<cee, hist>>
Emit == Len(hist) < MaxOps \/ PrintT("@@HIST|syslog|" \o ToJson([cee |-> cee, ops |-> hist]))
\* sanity: an event is handed to at most one syslog method
AtMostOne == \A o \in Ops : \A c \in BOOLEAN : o.op # "W" => Len(Expect(o, c).calls) <= 1
=============================================================================
