----------------------------- MODULE LevelNames -----------------------------
(***************************************************************************)
(* Extension (not one of the listed properties): the TEXT form of levels   *)
(* (log.go: Level.String, ParseLevel, Level.MarshalText / UnmarshalText;   *)
(* globals.go: LevelTraceValue ... LevelPanicValue, LevelFieldMarshalFunc).*)
(* Configuration files and flags carry levels as text, so what a user      *)
(* relies on is:                                                           *)
(*   - nine levels have names (Trace ... Panic, NoLevel = "", Disabled);   *)
(*     every other level of the int8 range is written as its decimal;      *)
(*   - ParseLevel accepts a name in any letter case - the name being what  *)
(*     LevelFieldMarshalFunc yields for that level NOW -, else a decimal   *)
(*     integer in -128..127 (strconv.Atoi: an optional sign, leading       *)
(*     zeros), and nothing else: anything else is an error AND the result  *)
(*     is NoLevel;                                                         *)
(*   - UnmarshalText is ParseLevel (the receiver is assigned also when it  *)
(*     fails: NoLevel); MarshalText is LevelFieldMarshalFunc;              *)
(*   - text written by MarshalText is read back by UnmarshalText as the    *)
(*     same level: for all 256 levels under the default marshal function   *)
(*     (also with renamed level values), for the named ones under a custom *)
(*     function (which wraps the decimals too, so they no longer parse).   *)
(* Texts are abstract here (TLC has no string functions): a text is a      *)
(* name of a level in a letter case, a decimal in a form, the empty text,  *)
(* a wrapped decimal, or junk; the player makes them concrete and maps     *)
(* what the code returns back to this alphabet.                            *)
(***************************************************************************)
EXTENDS Integers, Sequences, FiniteSets, TLC, Json
NoLevel == 6
Named == {-1, 0, 1, 2, 3, 4, 5, 6, 7}
AllLevels == -128..127
Confs == {"default", "values", "func"}      \* as shipped; LevelXxxValue renamed; LevelFieldMarshalFunc replaced (wraps String())
Cases == {"lower", "upper", "mixed"}
Nums == {-300, -129, -128, -127, -2, -1, 0, 1, 5, 7, 8, 42, 127, 128, 300}
Forms == {"plain", "plus", "zeros"}
NJunk == 12

T(k, l, c, n, f) == [k |-> k, l |-> l, c |-> c, n |-> n, f |-> f]
NameT(l, c) == T("name", l, c, 0, "plain")
NumT(n, f) == T("num", 0, "lower", n, f)
EmptyT == T("empty", 0, "lower", 0, "plain")
WrapT(n) == T("wrapnum", 0, "lower", n, "plain")
JunkT(j) == T("junk", 0, "lower", j, "plain")
Texts == {NameT(l, c) : l \in Named, c \in Cases}
         \cup UNION {{NumT(n, f) : f \in {g \in Forms : g = "plus" => n >= 0}} : n \in Nums}
         \cup {EmptyT} \cup {WrapT(n) : n \in {8, -2}} \cup {JunkT(j) : j \in 1..NJunk}

Ok(l) == [lvl |-> l, err |-> FALSE]
Fail == [lvl |-> NoLevel, err |-> TRUE]
\* the name of NoLevel is the empty text as long as the marshal function is the default one
Parse(t, conf) ==
  CASE t.k = "name"    -> Ok(t.l)
    [] t.k = "num"     -> IF t.n \in AllLevels THEN Ok(t.n) ELSE Fail
    [] t.k = "empty"   -> IF conf = "func" THEN Fail ELSE Ok(NoLevel)
    [] t.k = "wrapnum" -> Fail
    [] OTHER           -> Fail
\* Level.String: never goes through LevelFieldMarshalFunc
Str(l) == IF l \in Named THEN NameT(l, "lower") ELSE NumT(l, "plain")
\* Level.MarshalText: LevelFieldMarshalFunc(l); the custom function of conf "func" wraps whatever String() says
Marshal(l, conf) == IF l \in Named THEN NameT(l, "lower") ELSE IF conf = "func" THEN WrapT(l) ELSE NumT(l, "plain")

\* ---- what the contract implies (checked by TLC on the contract itself)
RoundTrip == \A conf \in Confs : \A l \in AllLevels :
               (conf # "func" \/ l \in Named) => Parse(Marshal(l, conf), conf) = Ok(l)
Injective == \A conf \in Confs : \A a, b \in AllLevels : Marshal(a, conf) = Marshal(b, conf) => a = b
StrRoundTrip == \A l \in AllLevels : Parse(Str(l), "default") = Ok(l)
FailIsNoLevel == \A conf \in Confs : \A t \in Texts : Parse(t, conf).err => Parse(t, conf).lvl = NoLevel
\* a decimal that names a named level reads as that level: "1" is Info
DecimalOfNamed == \A l \in Named : Parse(NumT(l, "plain"), "default") = Ok(l)

VARIABLES done
Init == done = FALSE
Next == ~done /\ done' = TRUE
Spec == Init /\ [][Next]_done
Emit == done \/ \A conf \in Confs : PrintT("@@HIST|levelnames|" \o ToJson([conf |-> conf, texts |-> Texts, levels |-> AllLevels]))
=============================================================================
