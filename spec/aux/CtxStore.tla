------------------------------ MODULE CtxStore ------------------------------
(***************************************************************************)
(* Extension: loggers carried in a context.Context (ctx.go).               *)
(* WithContext(ctx) returns a context holding a copy of the receiver,      *)
(* except that a logger whose level is Disabled is not stored when ctx     *)
(* holds no logger yet (ctx itself is returned).  Ctx(ctx) returns the     *)
(* innermost stored logger, else DefaultContextLogger if set, else a       *)
(* disabled logger.  Storing never affects a logger stored further out:    *)
(* the outer context still yields the outer logger.                        *)
(* State: a tree of contexts is not needed - contexts are immutable, so a  *)
(* history is a sequence of derivations from the previous context plus     *)
(* lookups on ANY context created so far.                                  *)
(***************************************************************************)
EXTENDS Integers, Sequences, TLC, Json
CONSTANTS MaxOps
Kinds == {"a", "b", "dis"}             \* two enabled loggers and one whose level is Disabled
VARIABLES ctxs,      \* ctxs[i]: the stack of logger kinds stored in context i (context 1 = background)
          def,       \* DefaultContextLogger set?
          hist
Init == ctxs = << <<>> >> /\ def \in BOOLEAN /\ hist = <<>>
Top(s) == s[Len(s)]
Lookup(s) == IF s # <<>> THEN Top(s) ELSE IF def THEN "def" ELSE "disabled"
Stored(s, k) == IF k = "dis" /\ s = <<>> THEN s ELSE Append(s, k)
With(i, k) == /\ Len(hist) < MaxOps /\ Len(ctxs) < 4
              /\ ctxs' = Append(ctxs, Stored(ctxs[i], k))
              /\ hist' = Append(hist, [op |-> "With", from |-> i, kind |-> k, same |-> (Stored(ctxs[i], k) = ctxs[i]), want |-> ""])
              /\ UNCHANGED def
Get(i) == /\ Len(hist) < MaxOps
          /\ hist' = Append(hist, [op |-> "Get", from |-> i, kind |-> "", same |-> FALSE, want |-> Lookup(ctxs[i])])
          /\ UNCHANGED <<ctxs, def>>
Next == \E i \in 1..Len(ctxs) : Get(i) \/ \E k \in Kinds : With(i, k)
Spec == Init /\ [][Next]_<<ctxs, def, hist>>
Emit == Len(hist) < MaxOps \/ PrintT("@@HIST|ctxstore|" \o ToJson([def |-> def, ops |-> hist]))
\* sanity of the formalisation: a Disabled logger is never the outermost stored logger
DisabledNeverFirst == \A i \in 1..Len(ctxs) : ctxs[i] # <<>> => ctxs[i][1] # "dis"
=============================================================================
