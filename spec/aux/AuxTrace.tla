------------------------------ MODULE AuxTrace ------------------------------
(* Trace validation of the extension families: every record of the recording carries the operations and what the
   real code did; the contract operators of Syslog / LevelHook / CtxStore say what it must have done. *)
EXTENDS Integers, Sequences, FiniteSets, TLC, Json, TLCExt
S == INSTANCE Syslog WITH MaxOps <- 0, cee <- FALSE, hist <- <<>>
H == INSTANCE LevelHook WITH done <- FALSE
N == INSTANCE LevelNames WITH done <- FALSE
TraceLog == ndJsonDeserialize("hist.ndjson")
VARIABLES l, bad
Seq1(x) == [i \in 1..Len(x) |-> x[i]]
Calls(x) == [i \in 1..Len(x) |-> <<x[i][1], x[i][2]>>]
SyslogOK(e) == \A i \in 1..Len(e.ops) :
                 LET o == e.ops[i]  g == e.got[i]
                     x == S!Expect([op |-> o.op, l |-> o.l, fault |-> o.fault, wfault |-> o.wfault], e.cee) IN
                 /\ Calls(g.calls) = x.calls          \* which syslog methods, with or without the CEE prefix
                 /\ g.msgok                            \* each received prefix + exactly the event's bytes
                 /\ g.panicked = x.panics
                 /\ (~x.panics => (g.err = x.err /\ g.full = x.full))
HookOK(e) == \A i \in 1..Len(e.got) :
               LET g == e.got[i] IN
               /\ Seq1(g.runs) = H!Runs({e.cfg[j] : j \in 1..Len(e.cfg)}, g.level)
               /\ g.argsok /\ g.written
CtxOK(e) == \A i \in 1..Len(e.ops) :
              LET o == e.ops[i]  g == e.got[i] IN
              IF o.op = "With" THEN g.same = o.same ELSE g.found = o.want
\* the text form of levels: every text of the alphabet parsed by ParseLevel and by UnmarshalText, every level of the int8 range
\* written by String and by MarshalText and read back
NamesOK(e) == /\ \A i \in 1..Len(e.parsed) :
                   LET g == e.parsed[i]  x == N!Parse(g.t, e.conf) IN
                   /\ g.lvl = x.lvl /\ g.err = x.err             \* ParseLevel
                   /\ g.ulvl = x.lvl /\ g.uerr = x.err           \* UnmarshalText is ParseLevel; the receiver is NoLevel after a failure
              /\ \A i \in 1..Len(e.strs) :
                   LET g == e.strs[i] IN
                   /\ g.s = N!Str(g.l) /\ g.m = N!Marshal(g.l, e.conf) /\ ~g.merr
                   /\ g.back = (e.conf # "func" \/ g.l \in N!Named)   \* what MarshalText wrote, UnmarshalText reads as the same level
              /\ e.nilerr                                         \* a nil *Level is refused, not dereferenced
Guard(e) == CASE e.a = "LevelNames" -> NamesOK(e) [] e.a = "Syslog" -> SyslogOK(e) [] e.a = "LevelHook" -> HookOK(e) [] e.a = "CtxStore" -> CtxOK(e) [] e.a = "Reset" -> TRUE [] OTHER -> FALSE
TInit == l = 1 /\ bad = <<>>
TNext == /\ l <= Len(TraceLog) /\ l' = l + 1
         /\ LET e == TraceLog[l] IN IF Guard(e) THEN UNCHANGED bad ELSE bad' = Append(bad, <<l, "">>)
TSpec == TInit /\ [][TNext]_<<l, bad>>
Report == l <= Len(TraceLog) \/ PrintT("@@BADLINES|" \o ToString(Len(TraceLog)) \o "|" \o ToJson(bad))
=============================================================================
