----------------------------- MODULE LevelHook -----------------------------
(***************************************************************************)
(* Extension: LevelHook (hook.go) dispatches an event to the hook          *)
(* configured for exactly its level - Trace, Debug, Info, Warn, Error,     *)
(* Fatal, Panic, NoLevel - and to nothing when that slot is empty or the   *)
(* level is none of these.  The hook runs once and receives the event's    *)
(* level and message.                                                      *)
(***************************************************************************)
EXTENDS Integers, Sequences, FiniteSets, TLC, Json
Slots == {-1, 0, 1, 2, 3, 4, 5, 6}
EventLevels == Slots \cup {-7, 42}
\* configurations: which slots carry a hook
Configs == {{}, Slots, {1}, {-1, 6}, {0, 2, 4}, {3, 5}, Slots \ {1}}
Runs(cfg, l) == IF l \in cfg THEN << l >> ELSE <<>>
VARIABLES done
Init == done = FALSE
Next == ~done /\ done' = TRUE
Spec == Init /\ [][Next]_done
Emit == done \/ \A cfg \in Configs : PrintT("@@HIST|levelhook|" \o ToJson([cfg |-> cfg, levels |-> EventLevels]))
=============================================================================
