------------------------------ MODULE MCMulti ------------------------------
EXTENDS Multi
MC(name, kinds, fl, multi, lv, m) == [name |-> name, kinds |-> kinds, flevel |-> fl, multi |-> multi, evlevels |-> lv, maxev |-> m]
Debug == 0  Warn == 2  Error == 3  Fatal == 4
ViaPanic == 105      \* the entry point Panic(): PanicLevel with a completion callback (see Multi.tla Real)
Lv == {Debug, Warn, Error, ViaPanic}
QuickConfs == { MC("single-level", <<"level">>, <<0>>, FALSE, Lv, 3),
                MC("single-plain", <<"plain">>, <<0>>, FALSE, Lv, 3),
                MC("multi1", <<"level">>, <<0>>, TRUE, Lv, 3),
                MC("multi-lp", <<"level", "plain">>, <<0, 0>>, TRUE, Lv, 2),
                MC("multi-fl", <<"filtered", "level">>, <<Warn, 0>>, TRUE, Lv, 2),
                MC("multi-lf", <<"level", "filtered">>, <<0, Error>>, TRUE, Lv, 2),
                MC("multi-pfl", <<"plain", "filtered", "level">>, <<0, Warn, 0>>, TRUE, {Debug, Error, ViaPanic}, 2),
                MC("multi-ffl", <<"filtered", "filtered", "level">>, <<Fatal, Debug, 0>>, TRUE, {Debug, Warn}, 2) }
ThoroughConfs == { MC("single-level", <<"level">>, <<0>>, FALSE, Lv, 4),
                MC("single-plain", <<"plain">>, <<0>>, FALSE, Lv, 4),
                MC("multi1", <<"level">>, <<0>>, TRUE, Lv, 4),
                MC("multi-lp", <<"level", "plain">>, <<0, 0>>, TRUE, Lv, 3),
                MC("multi-fl", <<"filtered", "level">>, <<Warn, 0>>, TRUE, Lv, 3),
                MC("multi-lf", <<"level", "filtered">>, <<0, Error>>, TRUE, Lv, 3),
                MC("multi-pfl", <<"plain", "filtered", "level">>, <<0, Warn, 0>>, TRUE, {Debug, Error}, 3),
                MC("multi-lll", <<"level", "level", "level">>, <<0, 0, 0>>, TRUE, {Warn}, 3),
                MC("multi-ffl", <<"filtered", "filtered", "level">>, <<Fatal, Debug, 0>>, TRUE, {Debug, Warn}, 3),
                MC("multi-4", <<"level", "plain", "filtered", "level">>, <<0, 0, Warn, 0>>, TRUE, {Debug, Error}, 2) }
=============================================================================
