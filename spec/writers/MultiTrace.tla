----------------------------- MODULE MultiTrace -----------------------------
(* Validates recordings of the real MultiLevelWriter / logger: per event, which destination was called
   with what (event number parsed from the bytes, level seen, bytes identical to the reference
   rendering), what ErrorHandler received, and that the logging call returned. *)
EXTENDS MCMulti, TLCExt
CONSTANT AllConfs
TraceLog == ndJsonDeserialize("hist.ndjson")
VARIABLES l, failed, bad
tvars == <<vars, l, failed, bad>>
ByName(n) == CHOOSE c \in AllConfs : c.name = n
TInit == conf = (CHOOSE c \in AllConfs : TRUE) /\ k = 0 /\ hist = <<>> /\ l = 1 /\ failed = FALSE /\ bad = <<>>
OutOf(e) == [d \in 1..Len(e.out) |-> e.out[d]]
Got(e) == [i \in 1..Len(e.got) |-> <<e.got[i][1], e.got[i][2], e.got[i][3]>>]
Guard(e) == /\ e.a = "Ev" /\ e.returned
            /\ Got(e) = ExpectGot(e.lvl, OutOf(e))
            /\ \A i \in 1..Len(e.got) : e.got[i][4] = 1                 \* identical bytes
            /\ [i \in 1..Len(e.handled) |-> e.handled[i]] = ExpectHandled(e.lvl, OutOf(e))
TNext ==
  /\ l <= Len(TraceLog) /\ l' = l + 1 /\ UNCHANGED hist
  /\ LET e == TraceLog[l] IN
     IF e.a = "Reset" THEN conf' = ByName(e.conf) /\ k' = 0 /\ failed' = FALSE /\ UNCHANGED bad
     ELSE IF failed THEN UNCHANGED <<conf, k, failed, bad>>
     ELSE IF Guard(e) THEN k' = k + 1 /\ UNCHANGED <<conf, failed, bad>>
     ELSE failed' = TRUE /\ bad' = Append(bad, <<l, "">>) /\ UNCHANGED <<conf, k>>
TSpec == TInit /\ [][TNext]_tvars
Report == l <= Len(TraceLog) \/ PrintT("@@BADLINES|" \o ToString(Len(TraceLog)) \o "|" \o ToJson(bad))
=============================================================================
