---------------------------- MODULE TriggerTrace ----------------------------
(* Validates recordings of the real TriggerLevelWriter: after every operation the player logs what the
   destination LevelWriter received during it (levels and line ids, in order) and the call's result. *)
EXTENDS MCTrigger, TLCExt
CONSTANT AllConfs
TraceLog == ndJsonDeserialize("hist.ndjson")
VARIABLES l, failed, bad, plain      \* plain: the destination is an io.Writer only - the lines must arrive, their levels cannot be seen
tvars == <<vars, l, failed, bad, plain>>
ByName(n) == CHOOSE c \in AllConfs : c.name = n
TInit == conf = (CHOOSE c \in AllConfs : TRUE) /\ held = <<>> /\ triggered = FALSE /\ out = <<>> /\ hist = <<>>
         /\ l = 1 /\ failed = FALSE /\ bad = <<>> /\ plain = FALSE
\* the logged destination output as a sequence of <<level, line>>
Got(e) == [i \in 1..Len(e.out) |-> <<e.out[i][1], e.out[i][2]>>]
LinesOf(s) == [i \in 1..Len(s) |-> s[i][2]]
Same(got, want) == IF plain THEN LinesOf(got) = LinesOf(want) ELSE got = want
Guard(e) == CASE e.a = "W" -> Same(Got(e), WLOut(e.l, e.s)) /\ e.ok
              [] e.a = "T" -> Same(Got(e), TrigOut) /\ e.ok
              [] e.a = "C" -> Got(e) = <<>> /\ e.ok
              \* a writer of its own that holds one line at EVERY level of the int8 range but 10 and is then triggered: nothing
              \* before the trigger, then every line with the level it was written with, in order
              [] e.a = "LSweep" -> /\ e.early = 0 /\ Len(e.out) = Len(e.levels)
                                   /\ \A i \in 1..Len(e.levels) : e.out[i][1] = e.levels[i] /\ e.out[i][2] = e.s
              [] OTHER -> FALSE
Effect(e) == CASE e.a = "W" -> WLEff(e.l, e.s) [] e.a = "T" -> TrigEff [] e.a = "C" -> CloseEff
               [] OTHER -> UNCHANGED <<conf, held, triggered, out>>
TNext ==
  /\ l <= Len(TraceLog) /\ l' = l + 1 /\ UNCHANGED hist
  /\ LET e == TraceLog[l] IN
     IF e.a \in {"Reset", "Reset2"}      \* Reset2: the history of the companion writer that lived at the same time (same contract, own state)
     THEN /\ conf' = ByName(e.conf) /\ held' = <<>> /\ triggered' = FALSE /\ out' = <<>> /\ failed' = FALSE /\ UNCHANGED bad
          /\ plain' = (IF e.a = "Reset" THEN e.plain ELSE FALSE)     \* the companion always has a LevelWriter destination
     ELSE UNCHANGED plain /\
     IF failed THEN UNCHANGED <<conf, held, triggered, out, failed, bad>>
     ELSE IF Guard(e) THEN Effect(e) /\ UNCHANGED <<failed, bad>>
     ELSE failed' = TRUE /\ bad' = Append(bad, <<l, "">>) /\ UNCHANGED <<conf, held, triggered, out>>
TSpec == TInit /\ [][TNext]_tvars
Report == l <= Len(TraceLog) \/ PrintT("@@BADLINES|" \o ToString(Len(TraceLog)) \o "|" \o ToJson(bad))
=============================================================================
