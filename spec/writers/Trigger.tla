------------------------------ MODULE Trigger ------------------------------
(***************************************************************************)
(* Contract of C15: TriggerLevelWriter over newline-terminated lines.      *)
(* State: the lines held back (with their levels), the trigger latch, and  *)
(* the log of what the destination received.  Operations:                  *)
(*   WriteLevel(l, s)   Trigger   Close                                    *)
(* A history is exported with the destination log the contract demands     *)
(* after every operation; the player executes it on the real writer and    *)
(* TriggerTrace validates what the real destination received.              *)
(* Lines are identified by small integers (the player maps them to byte    *)
(* strings: empty line, ASCII, invalid UTF-8 and '{', a 3000-byte line     *)
(* that outgrows the pooled buffer, bytes equal to level bytes).           *)
(***************************************************************************)
EXTENDS Integers, Sequences, TLC, Json

CONSTANTS Confs      \* set of [name, cond, trig, levels, lines, maxops]

VARIABLES conf, held, triggered, out, hist
vars == <<conf, held, triggered, out, hist>>
\* out: what the destination received during the LAST operation (sequence of <<level, line>>)

Init == conf \in Confs /\ held = <<>> /\ triggered = FALSE /\ out = <<>> /\ hist = <<>>

\* ---- what each operation hands to the destination, and its effect
WLFires(l) == ~triggered /\ l >= conf.trig
WLOut(l, s) == IF ~(triggered \/ WLFires(l)) /\ l <= conf.cond THEN <<>>                  \* held back
               ELSE (IF WLFires(l) THEN held ELSE <<>>) \o << <<l, s>> >>                  \* released lines first, original order and levels
WLEff(l, s) == /\ triggered' = (triggered \/ WLFires(l))
               /\ held' = IF ~(triggered \/ WLFires(l)) /\ l <= conf.cond THEN Append(held, <<l, s>>)
                          ELSE IF WLFires(l) THEN <<>> ELSE held
               /\ out' = WLOut(l, s) /\ UNCHANGED conf
TrigOut == IF triggered THEN <<>> ELSE held
TrigEff == triggered' = TRUE /\ held' = (IF triggered THEN held ELSE <<>>) /\ out' = TrigOut /\ UNCHANGED conf
\* Close gives the buffer back: lines still held are never written; the latch stays
CloseEff == held' = <<>> /\ out' = <<>> /\ UNCHANGED <<conf, triggered>>

WriteLevel(l, s) == /\ Len(hist) < conf.maxops /\ WLEff(l, s)
                    /\ hist' = Append(hist, [a |-> "W", l |-> l, s |-> s, out |-> WLOut(l, s)])
Trigger == /\ Len(hist) < conf.maxops /\ TrigEff
           /\ hist' = Append(hist, [a |-> "T", l |-> 0, s |-> 0, out |-> TrigOut])
Close == /\ Len(hist) < conf.maxops /\ CloseEff
         /\ hist' = Append(hist, [a |-> "C", l |-> 0, s |-> 0, out |-> <<>>])
Next == (\E l \in conf.levels, s \in conf.lines : WriteLevel(l, s)) \/ Trigger \/ Close
Spec == Init /\ [][Next]_vars

EmitConf == hist # <<>> \/ PrintT("@@CONF|" \o conf.name \o "|" \o ToJson(conf))
EmitHist == Len(hist) < conf.maxops \/ PrintT("@@HIST|" \o conf.name \o "|" \o ToJson(hist))

\* ---- sanity of the formalisation against the statement
\* everything the destination ever received, in order
AllOut == LET F[i \in 0..Len(hist)] == IF i = 0 THEN <<>> ELSE F[i-1] \o hist[i].out IN F[Len(hist)]
Written == SelectSeq(hist, LAMBDA h : h.a = "W")
\* held lines are all at or below ConditionalLevel, and nothing is held once triggered
HeldOK == (\A i \in 1..Len(held) : held[i][1] <= conf.cond) /\ (triggered => held = <<>>)
\* if the trigger never happened, the destination only ever saw lines above ConditionalLevel
NoTriggerNoRelease == ~triggered => \A i \in 1..Len(AllOut) : AllOut[i][1] > conf.cond
\* no line is duplicated or invented: the destination log is never longer than what was written
NoDup == Len(AllOut) <= Len(Written)
\* without Close, nothing is lost once triggered
NoLoss == (triggered /\ \A i \in 1..Len(hist) : hist[i].a # "C") => Len(AllOut) = Len(Written)
=============================================================================
