-------------------------- MODULE TriggerConcTrace --------------------------
(***************************************************************************)
(* Linearizability of concurrent TriggerLevelWriter calls against the      *)
(* Trigger contract.  A recording has, per call, Start(g, op) and Ret(g),  *)
(* and Dest(l, s) for every line the destination received, in real order.  *)
(* The point at which a call takes effect is not logged: TLC chooses it    *)
(* (silent action Lin(g)) between the call's Start and its Ret.  When a    *)
(* call takes effect the lines the contract releases are queued; Dest      *)
(* events must consume that queue in order; a call may only return when    *)
(* all its lines have been seen.  Recordings are concatenated: at a Reset  *)
(* line TLC also explores skipping to the next recording, so every         *)
(* recording is examined whatever happened to the previous one; a          *)
(* recording that can be consumed to its end prints @@OK.                  *)
(***************************************************************************)
EXTENDS Integers, Sequences, FiniteSets, TLC, Json, TLCExt
TraceLog == ndJsonDeserialize("conc.ndjson")
NoOp == [a |-> "none", l |-> 0, s |-> 0]
MaxG == 4
VARIABLES cond, trig, held, triggered,   \* contract state
          pend, lin,                     \* per goroutine: operation in flight, already taken effect?
          expect,                        \* lines released by calls that took effect, not yet seen: <<g, l, s>>
          l, rid
tvars == <<cond, trig, held, triggered, pend, lin, expect, l, rid>>

Clean == /\ held = <<>> /\ triggered = FALSE /\ expect = <<>>
         /\ pend = [g \in 1..MaxG |-> NoOp] /\ lin = [g \in 1..MaxG |-> FALSE]
TInit == cond = 0 /\ trig = 0 /\ Clean /\ l = 1 /\ rid = ""

\* contract (same as Trigger.tla, with cond/trig as variables)
Fires(lv) == ~triggered /\ lv >= trig
Holds(lv) == ~(triggered \/ Fires(lv)) /\ lv <= cond
OutOf(g, op) == IF op.a = "W" THEN (IF Holds(op.l) THEN <<>> ELSE [i \in 1..Len(IF Fires(op.l) THEN held ELSE <<>>) |-> <<g, held[i][1], held[i][2]>>] \o << <<g, op.l, op.s>> >>)
                ELSE IF op.a = "T" THEN (IF triggered THEN <<>> ELSE [i \in 1..Len(held) |-> <<g, held[i][1], held[i][2]>>])
                ELSE <<>>
Apply(op) == IF op.a = "W" THEN /\ triggered' = (triggered \/ Fires(op.l))
                                /\ held' = (IF Holds(op.l) THEN Append(held, <<op.l, op.s>>) ELSE IF Fires(op.l) THEN <<>> ELSE held)
             ELSE IF op.a = "T" THEN triggered' = TRUE /\ held' = (IF triggered THEN held ELSE <<>>)
             ELSE held' = <<>> /\ UNCHANGED triggered

NextReset(i) == LET S == {j \in (i + 1)..Len(TraceLog) : TraceLog[j].a = "Reset"} IN
                IF S = {} THEN Len(TraceLog) + 1 ELSE CHOOSE j \in S : \A k \in S : j <= k

Lin(g) == /\ pend[g] # NoOp /\ ~lin[g]
          /\ expect' = expect \o OutOf(g, pend[g]) /\ Apply(pend[g])
          /\ lin' = [lin EXCEPT ![g] = TRUE] /\ UNCHANGED <<cond, trig, pend, l, rid>>
Consume ==
  /\ l <= Len(TraceLog)
  /\ LET e == TraceLog[l] IN
     \/ /\ e.a = "Reset"
        /\ \/ /\ cond' = e.cond /\ trig' = e.trig /\ rid' = e.id /\ l' = l + 1
              /\ held' = <<>> /\ triggered' = FALSE /\ expect' = <<>>
              /\ pend' = [g \in 1..MaxG |-> NoOp] /\ lin' = [g \in 1..MaxG |-> FALSE]
           \/ /\ l' = NextReset(l) /\ rid' = "" /\ UNCHANGED <<cond, trig, held, triggered, pend, lin, expect>>
     \/ /\ e.a = "Start" /\ rid # "" /\ pend[e.g] = NoOp
        /\ pend' = [pend EXCEPT ![e.g] = [a |-> e.op, l |-> e.l, s |-> e.s]] /\ lin' = [lin EXCEPT ![e.g] = FALSE]
        /\ l' = l + 1 /\ UNCHANGED <<cond, trig, held, triggered, expect, rid>>
     \/ /\ e.a = "Dest" /\ rid # "" /\ expect # <<>> /\ Head(expect)[2] = e.l /\ Head(expect)[3] = e.s
        /\ expect' = Tail(expect) /\ l' = l + 1 /\ UNCHANGED <<cond, trig, held, triggered, pend, lin, rid>>
     \/ /\ e.a = "Ret" /\ rid # "" /\ pend[e.g] # NoOp /\ lin[e.g] /\ e.ok
        /\ \A i \in 1..Len(expect) : expect[i][1] # e.g
        /\ pend' = [pend EXCEPT ![e.g] = NoOp] /\ l' = l + 1 /\ UNCHANGED <<cond, trig, held, triggered, lin, expect, rid>>
TNext == Consume \/ (rid # "" /\ \E g \in 1..MaxG : Lin(g))
TSpec == TInit /\ [][TNext]_tvars
AtEnd == rid # "" /\ (l > Len(TraceLog) \/ TraceLog[l].a = "Reset") /\ expect = <<>> /\ \A g \in 1..MaxG : pend[g] = NoOp
Report == ~AtEnd \/ PrintT("@@OK|" \o rid)
=============================================================================
