---------------------------- MODULE TriggerConc ----------------------------
(***************************************************************************)
(* TriggerLevelWriter used by several goroutines (C15, "also when several  *)
(* goroutines write concurrently").  Implementation-shaped: every call     *)
(* (WriteLevel / Trigger) is  t.call -> mu.lock -> [critical section] ->   *)
(* mu.unlock, one action per scheduler gate.  Goroutine g performs the     *)
(* operations Ops[g] in order.  The model is the source of schedules (all  *)
(* orders in which the goroutines can take the mutex); the recordings of   *)
(* the real writer are judged by TriggerConcTrace (linearizability against *)
(* the Trigger contract).                                                  *)
(***************************************************************************)
EXTENDS Integers, Sequences, TLC, Json
CONSTANTS G, K
Gs == 1..G
VARIABLES pc, kdone, mu, sched
vars == <<pc, kdone, mu, sched>>
Init == pc = [g \in Gs |-> "call"] /\ kdone = [g \in Gs |-> 0] /\ mu = 0 /\ sched = <<>>
Tag(g) == sched' = Append(sched, "G" \o ToString(g))
Call(g) == pc[g] = "call" /\ kdone[g] < K /\ pc' = [pc EXCEPT ![g] = "lock"] /\ UNCHANGED <<kdone, mu>> /\ Tag(g)
Lock(g) == pc[g] = "lock" /\ mu = 0 /\ mu' = g /\ pc' = [pc EXCEPT ![g] = "unlock"] /\ UNCHANGED kdone /\ Tag(g)
Unlock(g) == pc[g] = "unlock" /\ mu' = 0 /\ pc' = [pc EXCEPT ![g] = "call"] /\ kdone' = [kdone EXCEPT ![g] = kdone[g] + 1] /\ Tag(g)
Next == \E g \in Gs : Call(g) \/ Lock(g) \/ Unlock(g)
Spec == Init /\ [][Next]_vars
View == <<pc, kdone, mu>>
Done == \A g \in Gs : kdone[g] = K
MutexOK == \A g \in Gs : pc[g] = "unlock" => mu = g
EmitDone == ~Done \/ PrintT("@@SCHED|done|" \o ToJson(sched))
=============================================================================
