------------------------------- MODULE Multi -------------------------------
(***************************************************************************)
(* Contract of C14: fan-out through MultiLevelWriter with per-destination, *)
(* per-event outcomes (fault sequences).                                   *)
(* A configuration is a list of destinations, each "plain" (io.Writer),    *)
(* "level" (LevelWriter) or "filtered" (FilteredLevelWriter with a minimum *)
(* level), and whether they are combined with MultiLevelWriter or (one     *)
(* destination) given to the logger directly.  An operation is one event:  *)
(* its level and, per destination, the outcome of that destination's       *)
(* write: ok / err (returns an error) / short (accepts fewer bytes, no     *)
(* error).  The contract says who is called, with what, what ErrorHandler  *)
(* receives, and that the next event is unaffected (no state is carried    *)
(* from one event to the next except the logs).                            *)
(***************************************************************************)
EXTENDS Integers, Sequences, FiniteSets, TLC, Json

CONSTANTS Confs     \* set of [name, kinds, flevel, multi, evlevels, maxev]
Outcomes == {"ok", "err", "short"}

VARIABLES conf, k, hist
vars == <<conf, k, hist>>
Init == conf \in Confs /\ k = 0 /\ hist = <<>>

D(c) == Len(c.kinds)
\* event levels >= 100 stand for the entry point Panic() (real level = lvl - 100 = PanicLevel): such an event carries a
\* completion callback that panics after the write; fan-out and error routing must be exactly as for any other event
Real(lvl) == IF lvl >= 100 THEN lvl - 100 ELSE lvl
\* a filtered destination below its level is not called and reports success
Called(d, lvl) == conf.kinds[d] # "filtered" \/ Real(lvl) >= conf.flevel[d]
\* the level a destination sees: plain writers do not see it
SeenLevel(d, lvl) == IF conf.kinds[d] = "plain" THEN -999 ELSE Real(lvl)
\* a short write is an error only under MultiLevelWriter (it is what detects it)
Fails(d, lvl, out) == Called(d, lvl) /\ (out[d] = "err" \/ (out[d] = "short" /\ conf.multi))
FirstFail(lvl, out) == LET F == {d \in 1..D(conf) : Fails(d, lvl, out)} IN
                       IF F = {} THEN 0 ELSE CHOOSE d \in F : \A e \in F : d <= e
\* every destination receives every event exactly once, in order, whatever the others did
ExpectGot(lvl, out) == LET ds == SelectSeq([d \in 1..D(conf) |-> d], LAMBDA d : Called(d, lvl)) IN
                       [i \in 1..Len(ds) |-> <<ds[i], k + 1, SeenLevel(ds[i], lvl)>>]
\* ErrorHandler: exactly once with the first failing destination's error, not at all otherwise
ExpectHandled(lvl, out) == LET f == FirstFail(lvl, out) IN
                           IF f = 0 THEN <<>> ELSE IF out[f] = "err" THEN << "err" \o ToString(f) >> ELSE << "short" >>

Event(lvl, out) ==
  /\ k < conf.maxev /\ k' = k + 1 /\ UNCHANGED conf
  /\ hist' = Append(hist, [lvl |-> lvl, out |-> out, got |-> ExpectGot(lvl, out), handled |-> ExpectHandled(lvl, out)])
Next == \E lvl \in conf.evlevels, out \in [1..D(conf) -> Outcomes] : Event(lvl, out)
Spec == Init /\ [][Next]_vars

EmitConf == hist # <<>> \/ PrintT("@@CONF|" \o conf.name \o "|" \o ToJson(conf))
EmitHist == k < conf.maxev \/ PrintT("@@HIST|" \o conf.name \o "|" \o ToJson(hist))

\* sanity of the formalisation
AtMostOneHandlerCall == \A i \in 1..Len(hist) : Len(hist[i].handled) <= 1
UnfilteredAlwaysCalled == \A i \in 1..Len(hist) : \A d \in 1..D(conf) :
                            conf.kinds[d] # "filtered" => \E j \in 1..Len(hist[i].got) : hist[i].got[j][1] = d
=============================================================================
