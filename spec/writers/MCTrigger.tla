----------------------------- MODULE MCTrigger -----------------------------
EXTENDS Trigger
TC(name, cond, trig, levels, lines, m) == [name |-> name, cond |-> cond, trig |-> trig, levels |-> levels, lines |-> lines, maxops |-> m]
Nm(p, c, t) == p \o "_" \o ToString(c + 200) \o "_" \o ToString(t + 200)
Pairs == {<<0, 3>>, <<3, 0>>, <<1, 1>>, <<-1, 0>>, <<0, -1>>, <<-128, 127>>, <<127, -128>>}
AllLevels == {-128, -1, 0, 1, 3, 9, 11, 127}
\* full level alphabet (negative levels, level bytes >= 128, neighbours of the separator byte 10), short histories
Wide(m) == {TC(Nm("wide", p[1], p[2]), p[1], p[2], AllLevels, {1, 3}, m) : p \in Pairs}
\* three levels per threshold pair (at/below Cond, between, at/above Trig where they exist), longer histories
Deep(m) == {TC(Nm("deep", p[1], p[2]), p[1], p[2], {p[1], p[2], p[1] + 1} \cap (-128..127), {2}, m) : p \in {<<0, 3>>, <<3, 0>>, <<1, 1>>, <<-1, 0>>}}
\* every line shape, including the one that outgrows the pooled buffer
Lines(m) == {TC(Nm("lines", 0, 3), 0, 3, {0, 3}, {1, 2, 3, 4, 5}, m)}
QuickConfs == Wide(3) \cup Deep(5) \cup Lines(3)
ThoroughConfs == Wide(4) \cup Deep(7) \cup Lines(4)
=============================================================================
