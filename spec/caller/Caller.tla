------------------------------- MODULE Caller -------------------------------
(***************************************************************************)
(* C19: the caller field names the user's call site.                       *)
(* The call stack at the moment runtime.Caller runs, innermost frame       *)
(* first, is  <zerolog's internal frames> . <user frames u0, u1, ...>,     *)
(* where u0 is the user's statement that produced the event (the line of   *)
(* Caller() for Event.Caller; the line of the finalizer, of Print*, of     *)
(* package log's functions or of a direct Logger.Write for Context.Caller) *)
(* and u1, u2, ... are the callers of the user's own helper wrappers.      *)
(* The internal frame count of every path is transcribed from the code;    *)
(* the skip passed to runtime.Caller is CallerSkipFrameCount (2) plus what *)
(* each mechanism adds.  Invariant: the selected frame is u_k, where k is  *)
(* the wrapper depth the mechanism was asked to skip.                      *)
(* TLC checks the arithmetic for every combination; the combinations are   *)
(* the scripts: each becomes one generated source line that also records   *)
(* runtime.Caller(0) of the very same line.                                *)
(***************************************************************************)
EXTENDS Integers, Sequences, TLC, Json
CallerSkipFrameCount == 2
ContextSkip == 2          \* contextCallerSkipFrameCount (go >= 1.12)

Mechs == {"ev", "evk", "evkglobal", "ctx", "ctxcount", "ctxpinned", "evskipframe", "evskipchain", "global", "ctxtwice"}
Entries == {"Trace", "Debug", "Info", "Warn", "Error", "WithLevel", "Err", "Log", "Panic",
            "Print", "Printf", "Println", "Write", "log.Info", "log.Error", "log.Log", "log.WithLevel", "log.Err", "log.Print", "log.Printf",
            \* argument shapes of the printf-style entry points: no arguments at all / a constant format (a fast path is a frame)
            "Print0", "Printf0", "log.Printf0"}
\* finalizers, with the argument shapes a shortcut could key on: Msg(""), Msgf without arguments, Msgf with an escaped verb only
Fins == {"Msg", "MsgEmpty", "Msgf", "Msgf0", "MsgfPct", "MsgFunc", "Send"}
Others == {"none", "before", "after"}
Depths == 0..3
\* Print*/Write finish the event themselves
SelfFinishing(e) == e \in {"Print", "Printf", "Println", "Write", "log.Print", "log.Printf", "Print0", "Printf0", "log.Printf0"}

\* internal frames between runtime.Caller and the user's statement u0 (innermost first)
Internal(mech, entry) ==
  IF mech \in {"ev", "evk", "evkglobal"} THEN <<"Event.caller", "Event.Caller">>
  ELSE <<"Event.caller", "callerHook.Run", "Event.msg", "finalizer">> \o (IF SelfFinishing(entry) THEN <<"Print|Write">> ELSE <<>>)
\* what the code passes to runtime.Caller: skip + e.skipFrame
Skip(mech, entry, k) ==
  LET selfskip == IF SelfFinishing(entry) THEN 1 ELSE 0 IN      \* Print*/Write add CallerSkipFrame(1)
  CASE mech = "ev" -> CallerSkipFrameCount
    [] mech = "evk" -> k + CallerSkipFrameCount                                       \* Event.Caller(k)
    \* Event.Caller(k-1) while the global CallerSkipFrameCount is 3: the explicit argument is ADDED to the global
    [] mech = "evkglobal" -> (k - 1) + (CallerSkipFrameCount + 1)
    [] mech = "ctx" -> CallerSkipFrameCount + ContextSkip + selfskip                 \* Context.Caller()
    \* TWO caller hooks on the logger (Caller() and CallerWithSkipFrameCount(global)): the site is computed twice for one event,
    \* each time with everything the event carries (the frame Print*/Write add included)
    [] mech = "ctxtwice" -> CallerSkipFrameCount + ContextSkip + selfskip
    [] mech = "ctxcount" -> (2 + k) + ContextSkip + selfskip                         \* CallerWithSkipFrameCount(2+k)
    \* CallerWithSkipFrameCount(2+k) PINS its argument: built while the global CallerSkipFrameCount happens to equal 2+k,
    \* used after the global went back to 2 - the argument still counts, not the global at logging time
    [] mech = "ctxpinned" -> (2 + k) + ContextSkip + selfskip
    [] mech = "evskipframe" -> CallerSkipFrameCount + ContextSkip + selfskip + k     \* Context.Caller() + Event.CallerSkipFrame(k)
    \* k layered helpers, each adding CallerSkipFrame(1) to the event it passes on: the contributions add up
    [] mech = "evskipchain" -> CallerSkipFrameCount + ContextSkip + selfskip + k
    [] mech = "global" -> (2 + k) + ContextSkip + selfskip                           \* global CallerSkipFrameCount = 2+k
Wanted(mech, k) == IF mech \in {"ev", "ctx", "ctxtwice"} THEN 0 ELSE k
Stack(mech, entry, depth) == Internal(mech, entry) \o [i \in 1..(depth + 1) |-> "u" \o ToString(i - 1)]
Selected(mech, entry, k, depth) == Stack(mech, entry, depth)[Skip(mech, entry, k) + 1]
\* event-level mechanisms need an *Event: not for the self-finishing entries
Valid(mech, entry) == ~(mech \in {"ev", "evk", "evkglobal", "evskipframe", "evskipchain"} /\ SelfFinishing(entry))

VARIABLES done
Init == done = FALSE
Next == ~done /\ done' = TRUE
Spec == Init /\ [][Next]_done
Combos == {<<m, e, f, o, k>> \in Mechs \X Entries \X Fins \X Others \X Depths : Valid(m, e) /\ (SelfFinishing(e) => f = "Msg")
                                                                                 /\ (m \in {"ev", "ctx", "ctxtwice"} => k = 0) /\ (m = "evkglobal" => k >= 1)}
\* the arithmetic selects the user's site for every combination
SkipArithmetic == \A c \in Combos : Selected(c[1], c[2], c[5], c[5]) = "u" \o ToString(Wanted(c[1], c[5]))
Emit == done \/ \A c \in Combos : PrintT("@@COMBO|" \o ToJson([mech |-> c[1], entry |-> c[2], fin |-> c[3], other |-> c[4], k |-> c[5]]))
=============================================================================
