----------------------------- MODULE CallerTrace -----------------------------
(* Each record: one generated source line. got = the caller field of the emitted event; want = runtime.Caller(0)
   captured on the line of the user's statement that is k wrapper frames up. *)
EXTENDS Integers, Sequences, TLC, Json, TLCExt
TraceLog == ndJsonDeserialize("hist.ndjson")
VARIABLES l, bad
TInit == l = 1 /\ bad = <<>>
Guard(e) == e.a # "Site" \/ (e.nevents = 1 /\ e.got = e.want /\ e.ncaller = e.nwant /\ e.allsame)    \* nwant: caller hooks on the logger (2 for "ctxtwice"); allsame: every caller field names the site
TNext == /\ l <= Len(TraceLog) /\ l' = l + 1
         /\ LET e == TraceLog[l] IN IF Guard(e) THEN UNCHANGED bad ELSE bad' = Append(bad, <<l, "">>)
TSpec == TInit /\ [][TNext]_<<l, bad>>
Report == l <= Len(TraceLog) \/ PrintT("@@BADLINES|" \o ToString(Len(TraceLog)) \o "|" \o ToJson(bad))
=============================================================================
