--------------------------- MODULE LevelGateTrace ---------------------------
EXTENDS LevelGate, TLCExt
TraceLog == ndJsonDeserialize("hist.ndjson")
VARIABLES l, bad
tvars == <<l, bad>>
TInit == l = 1 /\ bad = <<>> /\ done = FALSE
Ivals(x) == [i \in 1..Len(x) |-> <<x[i][1], x[i][2]>>]
Guard(e) ==
  CASE e.a = "Cube" -> Ivals(e.written) = CubeExpected(e.e, e.g) /\ e.wlok /\ e.panics = 0   \* WithLevel never panics or exits
    [] e.a = "Entry" -> LET lv == EntryLevel(e.entry) w == Written(lv, e.ll, e.gl) IN
                        /\ e.written = w /\ (w => e.wlevel = lv) /\ e.nwrites = (IF w THEN 1 ELSE 0)
                        /\ e.panicked = EntryPanics(e.entry)
                        /\ e.hookruns = (IF w THEN 1 ELSE 0)              \* hooks run only for enabled events
                        /\ (e.panicked /\ w => e.pmsg = "m") /\ (e.panicked /\ ~w => e.pmsg = "")
                        \* with a sampler attached: consulted only when both level tests pass; the event is written iff it admits
                        /\ (~w => e.scallsadmit = 0 /\ e.scallsreject = 0)          \* a level-filtered event is inert: no sampler call
                        /\ (w => e.scallsadmit >= 1 /\ e.scallsreject >= 1)
                        /\ e.writtenadmit = (IF w THEN 1 ELSE 0) /\ e.writtenreject = 0
    [] e.a = "Text" -> /\ e.str = LevelText(e.lvl) /\ e.mt = LevelText(e.lvl)
                       /\ ~e.perr /\ e.parsed = e.lvl /\ e.um = e.lvl
    [] e.a = "Nil" -> e.calls = 0 /\ e.panic = "" /\ e.neutral /\ e.after    \* after: the next event built from fresh Arr() / Dict() is what it always was
    \* an event discarded after it was created (by its owner or by an earlier hook): not written, not Enabled(), Func does not run
    [] e.a = "Disc" -> e.calls = 0 /\ e.written = 0 /\ ~e.enabled
    [] e.a = "Fatal" -> e.exit = 1 /\ e.nwrites = (IF e.filtered THEN 0 ELSE 1) /\ e.closed
    [] e.a = "Reset" -> TRUE
    [] OTHER -> FALSE
TNext == /\ l <= Len(TraceLog) /\ l' = l + 1 /\ UNCHANGED done
         /\ LET e == TraceLog[l] IN IF Guard(e) THEN UNCHANGED bad ELSE bad' = Append(bad, <<l, "">>)
TSpec == TInit /\ [][TNext]_<<tvars, done>>
Report == l <= Len(TraceLog) \/ PrintT("@@BADLINES|" \o ToString(Len(TraceLog)) \o "|" \o ToJson(bad))
=============================================================================
