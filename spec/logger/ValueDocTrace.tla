--------------------------- MODULE ValueDocTrace ---------------------------
EXTENDS ValueDoc, TLCExt
TraceLog == ndJsonDeserialize("hist.ndjson")
VARIABLES l, bad
TInit == l = 1 /\ bad = <<>> /\ done = FALSE
Ent(e) == {e.entries[i] : i \in 1..Len(e.entries)}
Guard(e) ==
  e.a # "Val" \/
  LET E == Ent(e) IN
  /\ {x.entry : x \in E} = Carries(e.ttype)                           \* every entry point of the table was exercised
  /\ \A x \in E : x.panic = ""
  /\ IF e.ttype = "NilErr"
     THEN \A x \in E : IF NilErrForm(x.entry) = "nofield" THEN ~x.field ELSE (x.field /\ x.ok)
     ELSE /\ \A x \in E : x.field /\ x.ok                              \* decodes back to the argument
          /\ \A x, y \in E : x.raw = y.raw                             \* identical through every entry point
          /\ (e.ttype = "Time" => \A x \in E : x.kind = TimeForm(e.setting))
          /\ (e.ttype = "Dur" => \A x \in E : x.kind = DurForm(e.setting))
          /\ (e.ttype \in {"Float32", "Float64"} => \A x \in E : x.kind = FloatForm(e.class))
TNext == /\ l <= Len(TraceLog) /\ l' = l + 1 /\ UNCHANGED done
         /\ LET e == TraceLog[l] IN IF Guard(e) THEN UNCHANGED bad ELSE bad' = Append(bad, <<l, "">>)
TSpec == TInit /\ [][TNext]_<<l, bad, done>>
Report == l <= Len(TraceLog) \/ PrintT("@@BADLINES|" \o ToString(Len(TraceLog)) \o "|" \o ToJson(bad))
=============================================================================
