-------------------------- MODULE LoggerTreeTrace --------------------------
(***************************************************************************)
(* C05 contract on recordings: the value layer only.  Every recorded step  *)
(* of a derivation program updates the ghost of the slot it writes (fields *)
(* added along the path, hooks, Go context, level, destination); every     *)
(* Emit record must show exactly the ghost of the emitting slot: its       *)
(* fields in order, its hooks once each in order, its Go context seen by   *)
(* every hook, the Go context or the background context (never another     *)
(* one) seen by marshalers nested in Arr()/Dict(), its level, its          *)
(* destination, one write.                                                 *)
(* Known finding (KNOWN_FINDINGS.jsonl): CtxValueBranchedSig - the program *)
(* used one Context VALUE for two derivations, at least one appending;     *)
(* zerolog's value-type + append API lets the two share a backing array.   *)
(***************************************************************************)
EXTENDS Integers, Sequences, FiniteSets, TLC, Json, TLCExt
TraceLog == ndJsonDeserialize("hist.ndjson")
MaxS == 6
NoneG == [kind |-> "none", fields |-> <<>>, hooks |-> <<>>, goctx |-> 0, level |-> -1, dest |-> 0, used |-> FALSE, stack |-> FALSE]
VARIABLES g, branched, base, l, failed, bad
tvars == <<g, branched, base, l, failed, bad>>
RootG == [NoneG EXCEPT !.kind = "L"]
TInit == g = [i \in 1..MaxS |-> IF i = 1 THEN RootG ELSE NoneG] /\ branched = FALSE /\ base = 0 /\ l = 1 /\ failed = FALSE /\ bad = <<>>
Seq1(x) == [i \in 1..Len(x) |-> x[i]]
UserHooks(hs) == SelectSeq(hs, LAMBDA x : x > 0)

\* the source slot is marked used when it is a Context value (a second use is the known-finding shape)
Put(i, j, v) == g' = [[g EXCEPT ![i] = (IF g[i].kind = "C" THEN [g[i] EXCEPT !.used = TRUE] ELSE g[i])] EXCEPT ![j] = v]
Branch(i) == branched' = (branched \/ (g[i].kind = "C" /\ g[i].used))
Derive(e) ==
  LET s == g[e.i] IN
  CASE e.a = "With"   -> Put(e.i, e.j, [s EXCEPT !.kind = "C", !.used = FALSE]) /\ UNCHANGED branched
    [] e.a = "Field"  -> Put(e.i, e.j, [s EXCEPT !.fields = Append(@, e.arg), !.used = FALSE]) /\ Branch(e.i)
    [] e.a = "GoCtx"  -> Put(e.i, e.j, [s EXCEPT !.goctx = e.arg, !.used = FALSE]) /\ Branch(e.i)
    [] e.a = "Stack" -> Put(e.i, e.j, [s EXCEPT !.stack = TRUE, !.used = FALSE]) /\ UNCHANGED branched
    [] e.a = "CtxReset" -> Put(e.i, e.j, [s EXCEPT !.fields = <<>>, !.used = FALSE]) /\ UNCHANGED branched   \* fresh array: cannot alias
    [] e.a = "Logger" -> Put(e.i, e.j, [s EXCEPT !.kind = "L", !.used = FALSE]) /\ Branch(e.i)
    [] e.a = "Level"  -> Put(e.i, e.j, [s EXCEPT !.level = e.arg]) /\ UNCHANGED branched
    [] e.a = "Hook"   -> Put(e.i, e.j, [s EXCEPT !.hooks = Append(@, e.arg)]) /\ UNCHANGED branched
    [] e.a = "CtxHook" -> Put(e.i, e.j, [s EXCEPT !.hooks = Append(@, e.arg), !.used = FALSE]) /\ Branch(e.i)   \* Timestamp / Caller: arg < 0
    [] e.a = "Output" -> Put(e.i, e.j, [s EXCEPT !.dest = l - base]) /\ UNCHANGED branched   \* destination id = step number
    [] e.a = "Update" -> g' = [g EXCEPT ![e.i].fields = Append(@, e.arg)] /\ UNCHANGED branched
    [] e.a = "UpdateReset" -> g' = [g EXCEPT ![e.i].fields = <<e.arg>>] /\ UNCHANGED branched
    [] e.a = "Drop"   -> g' = [g EXCEPT ![e.i] = NoneG] /\ UNCHANGED branched
    [] OTHER -> UNCHANGED <<g, branched>>

EmitOK(e) ==
  LET s == g[e.i] IN
  /\ e.writes = 1 /\ e.valid
  /\ Seq1(e.fields) = s.fields                                   \* exactly the context fields of its own path, in order
  /\ Seq1(e.hooks) = UserHooks(s.hooks)                          \* its own hooks, once each, in registration order
  /\ Seq1(e.hookobs) = s.hooks                                   \* what the event shows of them: user and library hooks (time, caller) interleaved as registered
  /\ \A k \in 1..Len(e.hookctx) : e.hookctx[k] = s.goctx         \* hooks see the logger's Go context (0 = background)
  /\ \A k \in 1..Len(e.hookctxnil) : e.hookctxnil[k] = 0          \* ... unless the event overrides it: Ctx(nil) is "no context"
  /\ \A k \in 1..Len(e.hookctxset) : e.hookctxset[k] = 99         \* ... and Ctx(c) is c
  /\ \A k \in 1..Len(e.nested) : e.nested[k] \in {0, s.goctx}    \* nested marshalers: own context or background, never a stale one
  /\ e.dest = s.dest                                             \* Output changes the destination and nothing else
  /\ e.debug = (s.level <= 0) /\ e.info = (s.level <= 1)         \* its own level
  /\ e.stacktop = s.stack                                        \* an error logged through it carries a stack iff ITS path called Stack()
  /\ ~e.stacknested                                              \* temporaries (zerolog.Dict() built before or after the event) never do
\* the recorded finding: a Context VALUE was derived from twice and an emission's CONTEXT FIELDS are not its own - nothing else
\* about the emission is off (hooks, Go context, destination, level, stack flag are value fields, not bytes of the shared array)
OnlyFieldsOff(e) == LET s == g[e.i] IN
                    /\ e.writes = 1 /\ Seq1(e.fields) # s.fields /\ Seq1(e.hooks) = UserHooks(s.hooks) /\ Seq1(e.hookobs) = s.hooks /\ e.dest = s.dest
                    /\ \A k \in 1..Len(e.hookctx) : e.hookctx[k] = s.goctx
                    /\ e.debug = (s.level <= 0) /\ e.info = (s.level <= 1) /\ e.stacktop = s.stack /\ ~e.stacknested
Sig(e) == IF branched /\ OnlyFieldsOff(e) THEN "CtxValueBranchedSig" ELSE ""

TNext ==
  /\ l <= Len(TraceLog) /\ l' = l + 1
  /\ LET e == TraceLog[l] IN
     IF e.a = "Reset" THEN g' = [i \in 1..MaxS |-> IF i = 1 THEN RootG ELSE NoneG] /\ branched' = FALSE /\ failed' = FALSE /\ base' = l /\ UNCHANGED bad
     ELSE UNCHANGED base /\
     IF failed THEN UNCHANGED <<g, branched, failed, bad>>
     ELSE IF e.a = "Emit" THEN (IF EmitOK(e) THEN UNCHANGED <<g, branched, failed, bad>>
                                ELSE failed' = TRUE /\ bad' = Append(bad, <<l, Sig(e)>>) /\ UNCHANGED <<g, branched>>)
     ELSE IF e.a = "Panic" THEN failed' = TRUE /\ bad' = Append(bad, <<l, "">>) /\ UNCHANGED <<g, branched>>
     ELSE Derive(e) /\ UNCHANGED <<failed, bad>>
TSpec == TInit /\ [][TNext]_tvars
Report == l <= Len(TraceLog) \/ PrintT("@@BADLINES|" \o ToString(Len(TraceLog)) \o "|" \o ToJson(bad))
=============================================================================
