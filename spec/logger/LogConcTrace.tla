---------------------------- MODULE LogConcTrace ----------------------------
(***************************************************************************)
(* Contract of C06 on recordings of goroutines logging through one logger  *)
(* and its children: per emitted event exactly one Write, issued by the    *)
(* goroutine that logged it, carrying bytes identical to what the same     *)
(* call chain produces when run alone (intact), not modified until that    *)
(* Write returns (stable); nothing lost, duplicated or mixed; under        *)
(* SyncWriter never two goroutines inside the destination at once.         *)
(***************************************************************************)
EXTENDS Integers, Sequences, FiniteSets, TLC, Json, TLCExt
TraceLog == ndJsonDeserialize("conc.ndjson")
MaxG == 8
VARIABLES sync, open, writes, want, inw, l, failed, bad
tvars == <<sync, open, writes, want, inw, l, failed, bad>>
TInit == sync = FALSE /\ open = [g \in 1..MaxG |-> 0] /\ writes = [g \in 1..MaxG |-> 0] /\ want = [g \in 1..MaxG |-> 1] /\ inw = {} /\ l = 1 /\ failed = FALSE /\ bad = <<>>
GName(g) == "G" \o ToString(g)
Guard(e) ==
  CASE e.a = "EvStart" -> open[e.g] = 0 /\ e.nw \in {0, 1}         \* nw = 0: a hook discards this event when the chain runs alone
    [] e.a = "WStart" -> /\ e.g \in 1..MaxG /\ e.by = GName(e.g)       \* written by the goroutine that logged it
                         /\ open[e.g] = e.k /\ writes[e.g] = 0 /\ want[e.g] = 1   \* the event it is currently emitting, first write, not a discarded one
                         /\ e.intact                                    \* byte-identical to the solo run
                         /\ (sync => inw = {})                          \* SyncWriter: no overlapping calls
    [] e.a = "WEnd" -> e.stable /\ e.by \in inw
    [] e.a = "EvEnd" -> open[e.g] = e.k /\ writes[e.g] = want[e.g] /\ GName(e.g) \notin inw   \* exactly one Write per emitted event, none for a discarded one
    [] e.a = "End" -> e.done /\ inw = {} /\ \A g \in 1..MaxG : open[g] = 0
    [] OTHER -> FALSE
Effect(e) ==
  CASE e.a = "EvStart" -> open' = [open EXCEPT ![e.g] = e.k] /\ writes' = [writes EXCEPT ![e.g] = 0] /\ want' = [want EXCEPT ![e.g] = e.nw] /\ UNCHANGED <<sync, inw>>
    [] e.a = "WStart" -> writes' = [writes EXCEPT ![e.g] = 1] /\ inw' = inw \cup {e.by} /\ UNCHANGED <<sync, open, want>>
    [] e.a = "WEnd" -> inw' = inw \ {e.by} /\ UNCHANGED <<sync, open, writes, want>>
    [] e.a = "EvEnd" -> open' = [open EXCEPT ![e.g] = 0] /\ UNCHANGED <<sync, writes, want, inw>>
    [] OTHER -> UNCHANGED <<sync, open, writes, want, inw>>
TNext ==
  /\ l <= Len(TraceLog) /\ l' = l + 1
  /\ LET e == TraceLog[l] IN
     IF e.a = "Reset" THEN sync' = e.sync /\ open' = [g \in 1..MaxG |-> 0] /\ writes' = [g \in 1..MaxG |-> 0] /\ want' = [g \in 1..MaxG |-> 1] /\ inw' = {} /\ failed' = FALSE /\ UNCHANGED bad
     ELSE IF failed \/ e.a \in {"Gate", "Pool"}          \* implementation-level records: judged by EventLifeTrace (conformance), not here
          THEN UNCHANGED <<sync, open, writes, want, inw, failed, bad>>
     ELSE IF Guard(e) THEN Effect(e) /\ UNCHANGED <<failed, bad>>
     ELSE failed' = TRUE /\ bad' = Append(bad, <<l, "">>) /\ UNCHANGED <<sync, open, writes, want, inw>>
TSpec == TInit /\ [][TNext]_tvars
Report == l <= Len(TraceLog) \/ PrintT("@@BADLINES|" \o ToString(Len(TraceLog)) \o "|" \o ToJson(bad))
=============================================================================
