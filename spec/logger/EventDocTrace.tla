--------------------------- MODULE EventDocTrace ---------------------------
(***************************************************************************)
(* Validates recordings of logging programs run on the real API.  Each     *)
(* line carries the abstract program it was concretised from (abs.p, the   *)
(* operation classes; abs.n, the member names the concretiser chose), the  *)
(* number of Write calls, the tokens and member names an independent lexer *)
(* found in the bytes the writer received, byte-level checks, and the hook *)
(* invocation log.  Per line, three judgements:                            *)
(*   C01    one write; ends with exactly one newline, no other control     *)
(*          byte, valid UTF-8; tokens accepted by the RFC 8259 automaton   *)
(*   C03    member names in document order with depth = ExpectedKeys;      *)
(*          every hook ran exactly once, in registration order, with the   *)
(*          event's level (Disabled after a discard) - discarded: no write *)
(*   drift  tokens = Render(p): the code follows the buffer rules of the   *)
(*          implementation-shaped model (conformance, never a verdict)     *)
(***************************************************************************)
EXTENDS EventDoc, Json, TLCExt
TraceLog == ndJsonDeserialize("hist.ndjson")
VARIABLES l, bad
tvars == <<l, bad>>
TInit == l = 1 /\ bad = <<>>

Seq1(x) == [i \in 1..Len(x) |-> x[i]]
KeysGot(e) == [i \in 1..Len(e.ckeys) |-> <<e.ckeys[i][1], e.ckeys[i][2]>>]
P(e) == [lvl |-> e.abs.p.lvl, with |-> e.abs.p.with, msg |-> e.abs.p.msg,
         ctx |-> Seq1(e.abs.p.ctx), ev |-> Seq1(e.abs.p.ev), hooks |-> Seq1(e.abs.p.hooks)]
N(e) == [lvl |-> e.abs.n.lvl, msg |-> e.abs.n.msg, ctx |-> Seq1(e.abs.n.ctx), ev |-> Seq1(e.abs.n.ev), hooks |-> Seq1(e.abs.n.hooks)]

C01ok(e, p) == /\ e.panic = ""
               /\ e.nw = (IF Discarded(p) THEN 0 ELSE 1)
               /\ (e.nw = 1 => /\ e.raw.nl /\ e.raw.noctl /\ e.raw.utf8
                               /\ WellFormedTokens(Seq1(e.tokens)))
HookLevelOK(e, p) == LET lv == e.abs.level IN
                     LET R == RecIdx(p.hooks) IN
                     \A i \in 1..Len(e.hooks) :
                       /\ i <= Len(R) /\ e.hooks[i].id = R[i]
                       /\ e.hooks[i].level = (IF \E j \in 1..(R[i]-1) : p.hooks[j] = "discard" THEN 7 ELSE lv)
C03ok(e, p, n) == /\ Len(e.hooks) = ExpectedHookRuns(p) /\ HookLevelOK(e, p)
                  /\ e.hookmsgok                                  \* every hook received the event's final message
                  /\ (e.nw = 1 => KeysGot(e) = ExpectedKeys(p, n))
                  /\ (Discarded(p) => e.nw = 0)
Conforms(e, p) == e.nw = 1 => Seq1(e.ctokens) = Render(p)

TNext ==
  /\ l <= Len(TraceLog) /\ l' = l + 1
  /\ LET e == TraceLog[l] IN
     IF e.a = "Reset" THEN UNCHANGED bad
     ELSE LET p == P(e)
              n == N(e)
              tag == (IF C01ok(e, p) THEN "" ELSE "C01 ") \o (IF C03ok(e, p, n) THEN "" ELSE "C03 ") \o (IF Conforms(e, p) THEN "" ELSE "drift ")
          IN IF tag = "" THEN UNCHANGED bad ELSE bad' = Append(bad, <<l, tag>>)
TSpec == TInit /\ [][TNext]_tvars
Report == l <= Len(TraceLog) \/ PrintT("@@BADLINES|" \o ToString(Len(TraceLog)) \o "|" \o ToJson(bad))
=============================================================================
