------------------------------ MODULE EventDoc ------------------------------
(***************************************************************************)
(* The JSON buffer discipline of Event / Context / Array / Fields at token *)
(* granularity (C01), and the layout of an emitted event (C03).            *)
(*                                                                         *)
(* Token alphabet:  { } [ ] , :  K (member name)  V (any scalar value)     *)
(* plus NL for the line break.                                             *)
(*                                                                         *)
(* Implementation-shaped part: the code's byte-level rules transcribed     *)
(* literally - AppendKey looks at the last byte, AppendArrayDelim at the   *)
(* length, AppendObjectData has three cases, Context.Object/EmbedObject go *)
(* through a temporary event, appendFieldList re-implements the encoders   *)
(* ([]error, error + stack), newEvent writes the level field and splices   *)
(* the context, hooks run before the message, write() appends the end      *)
(* marker and the line break.  Deviations found in the code are guarded by *)
(* Fix* constants (ledger items 1-3).                                      *)
(*                                                                         *)
(* Contract part: Scan, an RFC 8259 stack automaton over the tokens, and   *)
(* ExpectedKeys, the member names of the event in document order with      *)
(* their nesting depth: level, context fields in the order they were       *)
(* added, the event's fields in call order, hook fields, message.          *)
(*                                                                         *)
(* A program is [lvl, ctx, ev, hooks, msg]: ctx and ev are sequences of    *)
(* structural operation classes (Ops), hooks a sequence of hook kinds.     *)
(***************************************************************************)
EXTENDS Integers, Sequences, TLC, SequencesExt

CONSTANTS FixErrsDelim, FixStackNil, FixEmbedEmpty


\* ---- the encoder's rules (internal/json)
\* base.go AppendKey: comma unless the last byte is '{'
AppendKey(b) == (IF Last(b) # "{" THEN b \o <<",">> ELSE b) \o <<"K", ":">>
\* types.go AppendArrayDelim: comma unless the buffer is empty
Delim(b) == IF Len(b) > 0 THEN b \o <<",">> ELSE b
\* types.go AppendObjectData(dst, o)
ObjData(dst, o) ==
  IF FixEmbedEmpty
  THEN LET o1 == IF o[1] = "{" THEN Tail(o) ELSE o IN
       IF o1 = <<>> THEN dst ELSE (IF Len(dst) > 1 THEN dst \o <<",">> ELSE dst) \o o1
  ELSE IF o[1] = "{" THEN (IF Len(dst) > 1 THEN dst \o <<",">> ELSE dst) \o Tail(o)
  ELSE (IF Len(dst) > 1 THEN dst \o <<",">> ELSE dst) \o o

\* ---- builders
Scalar(b) == AppendKey(b) \o <<"V">>
Scalars(b, k) == LET F[i \in 0..k] == IF i = 0 THEN b ELSE Scalar(F[i-1]) IN F[k]
\* a Dict() / temporary event with k scalar fields, closed
SubObj(k) == Scalars(<<"{">>, k) \o <<"}">>
DictF(b, k) == AppendKey(b) \o SubObj(k)
\* Arr() with n scalars then m objects of one field each
ArrBuf(n, m) == LET A[i \in 0..n] == IF i = 0 THEN <<>> ELSE Delim(A[i-1]) \o <<"V">>
                    B[j \in 0..m] == IF j = 0 THEN A[n] ELSE Delim(B[j-1]) \o SubObj(1)
                IN B[m]
ArrF(b, n, m) == AppendKey(b) \o <<"[">> \o ArrBuf(n, m) \o <<"]">>
\* typed slice (Strs, Ints, ...): AppendInts etc. join with commas themselves
SliceF(b, n) == AppendKey(b) \o <<"[">> \o ArrBuf(n, 0) \o <<"]">>
\* Event.Object(key, obj): in place
ObjEv(b, k) == Scalars(AppendKey(b) \o <<"{">>, k) \o <<"}">>
ObjNilEv(b) == AppendKey(b) \o <<"V">>
\* Event.EmbedObject(obj): in place
EmbedEv(b, k) == Scalars(b, k)
\* Context.Object / Context.EmbedObject: temporary event + AppendObjectData
ObjCtx(c, k) == ObjData(c, ObjEv(<<"{">>, k))
ObjNilCtx(c) == ObjData(c, ObjNilEv(<<"{">>))
EmbedCtx(c, k) == ObjData(c, EmbedEv(<<"{">>, k))
\* fields.go: []error value with n elements
FErrs(b, n) == LET E[i \in 0..n] == IF i = 0 THEN AppendKey(b) \o <<"[">>
                                    ELSE E[i-1] \o <<"V">> \o (IF FixErrsDelim /\ i < n THEN <<",">> ELSE <<>>)
               IN E[n] \o <<"]">>
\* fields.go: error value while Stack() is on; the stack marshaler yields nil / a string
FErrStack(b, nilStack) == LET b1 == AppendKey(b) \o <<"V">> IN
                          IF nilStack THEN (IF FixStackNil THEN b1 ELSE AppendKey(b1)) ELSE AppendKey(b1) \o <<"V">>
\* fields.go: a LogObjectMarshaler value
FObj(b, k) == AppendKey(b) \o Scalars(<<"{">>, k) \o <<"}">>
\* Event.Err / Context.Err with Stack(): stack field first (string / object), then the error field
ErrStackStr(b) == Scalar(Scalar(b))
ErrStackObjEv(b) == Scalar(ObjEv(b, 1))
ErrStackObjCtx(c) == Scalar(ObjCtx(c, 1))

Ops == {"scalar", "nofield", "dict0", "dict1", "dict2", "obj0", "obj2", "objnil", "embed0", "embed1", "embed2", "embednil",
        "arr0", "arr2", "arrobj", "slice0", "slice2", "slice24", "slice256", "everrs0", "everrs2", "ferrs0", "ferrs1", "ferrs2",
        "ferrstackNil", "ferrstackStr", "fields2", "fieldsobj", "func1", "errstackNil", "errstackStr", "errstackObj"}

\* without the two large typed slices (they make every rendering long; they are exercised in their own enumeration)
CoreOps == Ops \ {"slice24", "slice256"}
BigOps == {"scalar", "dict1", "slice24", "slice256"}

Apply(op, b, isCtx) ==
  CASE op = "scalar" -> Scalar(b) [] op = "nofield" -> b
    [] op = "dict0" -> DictF(b, 0) [] op = "dict1" -> DictF(b, 1) [] op = "dict2" -> DictF(b, 2)
    [] op = "obj0" -> (IF isCtx THEN ObjCtx(b, 0) ELSE ObjEv(b, 0)) [] op = "obj2" -> (IF isCtx THEN ObjCtx(b, 2) ELSE ObjEv(b, 2))
    [] op = "objnil" -> (IF isCtx THEN ObjNilCtx(b) ELSE ObjNilEv(b))
    [] op = "embed0" -> (IF isCtx THEN EmbedCtx(b, 0) ELSE EmbedEv(b, 0))
    [] op = "embed1" -> (IF isCtx THEN EmbedCtx(b, 1) ELSE EmbedEv(b, 1))
    [] op = "embed2" -> (IF isCtx THEN EmbedCtx(b, 2) ELSE EmbedEv(b, 2))
    [] op = "embednil" -> (IF isCtx THEN EmbedCtx(b, 0) ELSE b)
    [] op = "arr0" -> ArrF(b, 0, 0) [] op = "arr2" -> ArrF(b, 2, 0) [] op = "arrobj" -> ArrF(b, 1, 2)
    [] op = "slice0" -> SliceF(b, 0) [] op = "slice2" -> SliceF(b, 2)
    \* element counts on both sides of the 23/24 and 255/256 boundaries of CBOR array heads
    [] op = "slice24" -> SliceF(b, 24) [] op = "slice256" -> SliceF(b, 256)
    [] op = "everrs0" -> ArrF(b, 0, 0) [] op = "everrs2" -> ArrF(b, 2, 0)
    [] op = "ferrs0" -> FErrs(b, 0) [] op = "ferrs1" -> FErrs(b, 1) [] op = "ferrs2" -> FErrs(b, 2)
    [] op = "ferrstackNil" -> FErrStack(b, TRUE) [] op = "ferrstackStr" -> FErrStack(b, FALSE)
    [] op = "fields2" -> Scalars(b, 2) [] op = "fieldsobj" -> FObj(b, 1)
    [] op = "func1" -> Scalar(b)
    [] op = "errstackNil" -> Scalar(b) [] op = "errstackStr" -> ErrStackStr(b)
    [] op = "errstackObj" -> (IF isCtx THEN ErrStackObjCtx(b) ELSE ErrStackObjEv(b))

\* With(): a nil context becomes "{"; every Context method appends to it
CtxOf(ops) == LET F[i \in 0..Len(ops)] == IF i = 0 THEN <<"{">> ELSE Apply(ops[i], F[i-1], TRUE) IN F[Len(ops)]
\* newEvent: '{', the level field unless NoLevel / empty LevelFieldName, context spliced if len(context) > 1
NewEv(lvl, ctx) == LET b0 == IF lvl THEN Scalar(<<"{">>) ELSE <<"{">> IN
                   IF Len(ctx) > 1 THEN ObjData(b0, ctx) ELSE b0
EvOf(b, ops) == LET F[i \in 0..Len(ops)] == IF i = 0 THEN b ELSE Apply(ops[i], F[i-1], FALSE) IN F[Len(ops)]
\* msg(): hooks that add a field, then the message, end marker, line break
\* hook kinds: "field" (a user hook adding one field), "noop", "discard", and the two hooks the library itself installs:
\* "ts" = Context.Timestamp() and "caller" = Context.Caller(), which add their field at HOOK position, not at context position
FieldHooks == {"field", "ts", "caller"}
LibraryHooks == {"ts", "caller"}
HookFields(b, hooks) == LET F[i \in 0..Len(hooks)] == IF i = 0 THEN b ELSE (IF hooks[i] \in FieldHooks THEN Scalar(F[i-1]) ELSE F[i-1]) IN F[Len(hooks)]
Discarded(p) == \E i \in 1..Len(p.hooks) : p.hooks[i] = "discard"
\* what the model says the writer receives
Render(p) == LET c == IF p.with THEN CtxOf(p.ctx) ELSE <<>>
                 e == HookFields(EvOf(NewEv(p.lvl, c), p.ev), p.hooks)
             IN (IF p.msg THEN Scalar(e) ELSE e) \o <<"}", "NL">>

-----------------------------------------------------------------------------
\* Contract, part 1 (C01): RFC 8259 object grammar over tokens, as a stack automaton.
Pop(stk) == SubSeq(stk, 1, Len(stk) - 1)
\* One step of the automaton; acc = [st: expectation, stk: open containers ("o" / "a"), ok]. A fold, not a
\* recursion: recordings of mutated code can carry thousands of tokens.
StepScan(acc, t) ==
  IF ~acc.ok THEN acc
  ELSE LET st == acc.st  stk == acc.stk
           to(s2, k2) == [st |-> s2, stk |-> k2, ok |-> TRUE]
           bad == [acc EXCEPT !.ok = FALSE]
           open == IF t = "{" THEN to("key_or_close", Append(stk, "o")) ELSE to("value_or_close", Append(stk, "a"))
       IN CASE st = "start" -> IF t = "{" THEN to("key_or_close", <<"o">>) ELSE bad
            [] st = "key_or_close" -> IF t = "K" THEN to("colon", stk) ELSE IF t = "}" THEN to("after", Pop(stk)) ELSE bad
            [] st = "key" -> IF t = "K" THEN to("colon", stk) ELSE bad
            [] st = "colon" -> IF t = ":" THEN to("value", stk) ELSE bad
            [] st = "value" -> IF t = "V" THEN to("after", stk) ELSE IF t \in {"{", "["} THEN open ELSE bad
            [] st = "value_or_close" -> IF t = "]" THEN to("after", Pop(stk)) ELSE IF t = "V" THEN to("after", stk)
                                        ELSE IF t \in {"{", "["} THEN open ELSE bad
            [] st = "after" -> IF stk = <<>> THEN (IF t = "NL" THEN to("end", stk) ELSE bad)
                               ELSE IF Last(stk) = "o"
                                    THEN (IF t = "," THEN to("key", stk) ELSE IF t = "}" THEN to("after", Pop(stk)) ELSE bad)
                                    ELSE (IF t = "," THEN to("value", stk) ELSE IF t = "]" THEN to("after", Pop(stk)) ELSE bad)
            [] OTHER -> bad
WellFormedTokens(s) == LET r == FoldLeft(StepScan, [st |-> "start", stk |-> <<>>, ok |-> TRUE], s) IN r.ok /\ r.st = "end"

\* Contract, part 2 (C03): member names in document order with nesting depth.
\* key names: the n-th op of a phase is named by names[n]; its sub-fields append "a", "b".
Sub(id, k, d) == [i \in 1..k |-> <<d, id \o (IF i = 1 THEN "a" ELSE "b")>>]
KeysOf(op, id, d) ==
  CASE op \in {"scalar", "objnil", "arr0", "arr2", "slice0", "slice2", "slice24", "slice256", "everrs0", "everrs2", "ferrs0", "ferrs1", "ferrs2",
               "ferrstackNil", "errstackNil"} -> << <<d, id>> >>
    [] op \in {"nofield", "embed0", "embednil"} -> <<>>
    [] op = "dict0" -> << <<d, id>> >> [] op = "dict1" -> << <<d, id>> >> \o Sub(id, 1, d + 1) [] op = "dict2" -> << <<d, id>> >> \o Sub(id, 2, d + 1)
    [] op = "obj0" -> << <<d, id>> >> [] op = "obj2" -> << <<d, id>> >> \o Sub(id, 2, d + 1)
    [] op = "embed1" -> Sub(id, 1, d) [] op = "embed2" -> Sub(id, 2, d)
    [] op = "arrobj" -> << <<d, id>>, <<d + 2, id \o "a">>, <<d + 2, id \o "b">> >>
    [] op = "ferrstackStr" -> << <<d, id>>, <<d, "stack">> >>
    [] op = "fields2" -> Sub(id, 2, d)
    [] op = "fieldsobj" -> << <<d, id>> >> \o Sub(id, 1, d + 1)
    [] op = "func1" -> Sub(id, 1, d)
    [] op = "errstackStr" -> << <<d, "stack">>, <<d, id>> >>
    [] op = "errstackObj" -> << <<d, "stack">>, <<d + 1, "frame">>, <<d, id>> >>
PhaseKeys(ops, names) == LET F[i \in 0..Len(ops)] == IF i = 0 THEN <<>> ELSE F[i-1] \o KeysOf(ops[i], names[i], 0) IN F[Len(ops)]
HookKeys(hooks, names) == LET F[i \in 0..Len(hooks)] == IF i = 0 THEN <<>> ELSE F[i-1] \o (IF hooks[i] \in FieldHooks THEN << <<0, names[i]>> >> ELSE <<>>) IN F[Len(hooks)]
ExpectedKeys(p, n) == (IF p.lvl THEN << <<0, n.lvl>> >> ELSE <<>>)
                      \o (IF p.with THEN PhaseKeys(p.ctx, n.ctx) ELSE <<>>) \o PhaseKeys(p.ev, n.ev) \o HookKeys(p.hooks, n.hooks)
                      \o (IF p.msg THEN << <<0, n.msg>> >> ELSE <<>>)
\* every hook runs exactly once, in order, whatever the others did
\* (the library's own hooks cannot record their run: the user hooks are the recording ones; RecIdx = their positions)
RecIdx(hooks) == LET F[i \in 0..Len(hooks)] == IF i = 0 THEN <<>> ELSE (IF hooks[i] \in LibraryHooks THEN F[i-1] ELSE Append(F[i-1], i)) IN F[Len(hooks)]
ExpectedHookRuns(p) == Len(RecIdx(p.hooks))
=============================================================================
