--------------------------- MODULE JsonStringTrace ---------------------------
(* What the real code wrote between the quotes for a byte string (as a string value, a []byte value and a member name; in
   the binary build after the bundled decoder) judged by the contract of JsonString: clean, valid UTF-8, un-escapes to the
   sanitized input - that is the verdict; equality with Esc(input) is conformance to the transcription (drift). *)
EXTENDS JsonString, Json, TLCExt
TraceLog == ndJsonDeserialize("hist.ndjson")
VARIABLES l, bad
Seq1(x) == [i \in 1..Len(x) |-> x[i]]
TInit == l = 1 /\ bad = <<>>
Tag(e) == LET i == Seq1(e.in)  o == Seq1(e.out) IN
          IF ~Good(i, o) THEN "V" ELSE IF o # Esc(i) THEN "drift" ELSE ""
TNext == /\ l <= Len(TraceLog) /\ l' = l + 1
         /\ LET e == TraceLog[l] IN
            IF e.a # "Esc" \/ Tag(e) = "" THEN UNCHANGED bad ELSE bad' = Append(bad, <<l, Tag(e)>>)
TSpec == TInit /\ [][TNext]_<<l, bad>>
Report == l <= Len(TraceLog) \/ PrintT("@@BADLINES|" \o ToString(Len(TraceLog)) \o "|" \o ToJson(bad))
=============================================================================
