----------------------------- MODULE LevelGate -----------------------------
(***************************************************************************)
(* Contract of C04: the level gate, the creation side effects of every     *)
(* entry point, the text forms of levels, and the inertness of a filtered  *)
(* (nil) event.                                                            *)
(*   Cube(e, g)    for event level e and global level g, the set of        *)
(*                 logger levels at which the event is written, as a list  *)
(*                 of intervals - the full 136 x 256 x 256 cube in         *)
(*                 compressed form, not a sample                           *)
(*   Entry(x, ll, gl)  every entry point (level methods, WithLevel, Log,   *)
(*                 Err, Print family, package log) on a logger of level ll *)
(*                 under global level gl: written?, WriteLevel argument,   *)
(*                 panicked?, hooks run?                                   *)
(*   Text(l)       String / ParseLevel / MarshalText / UnmarshalText       *)
(*   Nil(m)        method m of a filtered event: no callback of any kind,  *)
(*                 no panic, a neutral result, and no trace in what is     *)
(*                 logged next (pooled Arr()/Dict() arguments go back as   *)
(*                 if unused)                                              *)
(*   Fatal(f)      Fatal() exits with status 1, filtered or not            *)
(* TLC enumerates the Entry scripts; the other records are produced by     *)
(* exhaustive loops of the player and validated here.                      *)
(***************************************************************************)
EXTENDS Integers, Sequences, TLC, Json

Trace == -1  Debug == 0  Info == 1  Warn == 2  Error == 3  FatalL == 4  PanicL == 5  NoLevel == 6  Disabled == 7

Written(e, ll, gl) == e >= ll /\ e >= gl /\ e # Disabled
\* {ll \in -128..127 : Written(e, ll, g)} as intervals
CubeExpected(e, g) == IF e >= g /\ e # Disabled THEN << <<-128, e>> >> ELSE <<>>

Entries == {"Trace", "Debug", "Info", "Warn", "Error", "Panic", "Log", "ErrNil", "Err", "Print", "Printf", "Println", "Write",
            "WithLevel-1", "WithLevel0", "WithLevel1", "WithLevel2", "WithLevel3", "WithLevel4", "WithLevel5", "WithLevel6", "WithLevel7",
            "WithLevel-100", "WithLevel100",
            "log.Trace", "log.Debug", "log.Info", "log.Warn", "log.Error", "log.Panic", "log.Log", "log.Err", "log.Print", "log.Printf", "log.WithLevel4"}
EntryLevel(x) ==
  CASE x \in {"Trace", "log.Trace", "WithLevel-1"} -> Trace
    [] x \in {"Debug", "log.Debug", "Print", "Printf", "Println", "log.Print", "log.Printf", "WithLevel0"} -> Debug
    [] x \in {"Info", "log.Info", "ErrNil", "WithLevel1"} -> Info
    [] x \in {"Warn", "log.Warn", "WithLevel2"} -> Warn
    [] x \in {"Error", "log.Error", "Err", "log.Err", "WithLevel3"} -> Error
    [] x \in {"WithLevel4", "log.WithLevel4"} -> FatalL
    [] x \in {"Panic", "log.Panic", "WithLevel5"} -> PanicL
    [] x \in {"Log", "log.Log", "Write", "WithLevel6"} -> NoLevel
    [] x = "WithLevel7" -> Disabled
    [] x = "WithLevel-100" -> -100 [] x = "WithLevel100" -> 100
\* Panic() panics whether or not the event is filtered; WithLevel(PanicLevel) never does
EntryPanics(x) == x \in {"Panic", "log.Panic"}

LevelNames == [l \in {Trace, Debug, Info, Warn, Error, FatalL, PanicL, NoLevel, Disabled} |->
                 CASE l = Trace -> "trace" [] l = Debug -> "debug" [] l = Info -> "info" [] l = Warn -> "warn" [] l = Error -> "error"
                   [] l = FatalL -> "fatal" [] l = PanicL -> "panic" [] l = NoLevel -> "" [] l = Disabled -> "disabled"]
LevelText(l) == IF l \in DOMAIN LevelNames THEN LevelNames[l] ELSE ToString(l)

\* ---- script enumeration (Entry x logger level x global level)
CONSTANTS GateLevels
QuickLevels == {-128, -1, 0, 1, 3, 5, 6, 7, 127}
ThoroughLevels == {-128, -101, -100, -2, -1, 0, 1, 2, 3, 4, 5, 6, 7, 8, 99, 100, 101, 127}
VARIABLES done
Init == done = FALSE
Next == ~done /\ done' = TRUE
Spec == Init /\ [][Next]_done
Emit == done \/ \A x \in Entries, ll \in GateLevels, gl \in GateLevels :
                  PrintT("@@HIST|entry|" \o ToJson([a |-> "Entry", entry |-> x, ll |-> ll, gl |-> gl,
                         written |-> Written(EntryLevel(x), ll, gl), panics |-> EntryPanics(x)]))
=============================================================================
