--------------------------- MODULE EventLifeTrace ---------------------------
(***************************************************************************)
(* Conformance of the real code to EventLife.tla (never a verdict).  The   *)
(* lconc player records, besides the observations LogConcTrace judges, the *)
(* implementation-level steps of every goroutine: EvStart (gate l.event,   *)
(* with the event's shape), Gate (user.marshal, user.hook, mu.lock,        *)
(* mu.unlock, w.write as they are passed) and Pool (every Get / Put of the *)
(* shim pools with the OBJECT's identity, numbered in order of creation as *)
(* the model numbers them).  Each record must be the next micro-operation  *)
(* Ops(shape) prescribes for that goroutine; it is then executed on the    *)
(* model (Do), and for pool operations the model must hand out / take back *)
(* the very object the real pool did.  The model's invariants (SingleOwner,*)
(* StableDuringWrite, NoOverlapUnderSync, PoolBalanced) are evaluated in   *)
(* every state the REAL schedule drives the model through.                 *)
(***************************************************************************)
EXTENDS EventLife, TLCExt
TraceLog == ndJsonDeserialize("conc.ndjson")
VARIABLES l, failed, bad
tvars == <<vars, l, failed, bad>>
TInit == Init /\ l = 1 /\ failed = FALSE /\ bad = <<>>

Reinit == /\ pool' = <<>> /\ apool' = <<>> /\ nextId' = 1
          /\ ops' = [g \in Gs |-> <<>>] /\ held' = [g \in Gs |-> <<>>] /\ kdone' = [g \in Gs |-> 0]
          /\ mu' = 0 /\ inwrite' = [g \in Gs |-> 0] /\ sched' = <<>> /\ shapes' = [g \in Gs |-> <<>>]
Inv == SingleOwner /\ StableDuringWrite /\ NoOverlapUnderSync /\ PoolBalanced

\* the micro-operations a recorded step may be
OpsOf(e) == CASE e.a = "Gate" /\ e.label = "user.marshal" -> {"user"}
              [] e.a = "Gate" /\ e.label = "user.hook" -> {"hook"}
              [] e.a = "Gate" /\ e.label = "mu.lock" -> {"lock"}
              [] e.a = "Gate" /\ e.label = "mu.unlock" -> {"unlock", "unlockdrop"}
              [] e.a = "Gate" /\ e.label = "w.write" -> {"write", "writedrop"}
              [] e.a = "Pool" /\ e.op = "get" /\ e.kind = "e" -> {"get"}
              [] e.a = "Pool" /\ e.op = "put" /\ e.kind = "e" -> {"put"}
              [] e.a = "Pool" /\ e.op = "get" /\ e.kind = "a" -> {"aget"}
              [] e.a = "Pool" /\ e.op = "put" /\ e.kind = "a" -> {"aput"}
              [] OTHER -> {}
Impl(e) == e.a \in {"EvStart", "Gate", "Pool"}
\* the model can take the step, and for pool operations it involves the same object (and is fresh exactly when the real one was)
Conforms(e) ==
  IF e.a = "EvStart" THEN e.g \in Gs /\ ops[e.g] = <<>> /\ e.shape \in Shapes
  ELSE /\ e.g \in Gs /\ ops[e.g] # <<>> /\ Head(ops[e.g]) \in OpsOf(e)
       /\ (e.a = "Gate" /\ e.label = "mu.lock" => mu = 0)
       /\ (e.a = "Pool" /\ e.op = "put" => held[e.g] # <<>> /\ Head(held[e.g]) = e.obj)
       /\ (e.a = "Pool" /\ e.op = "get" /\ e.kind = "e" => IF pool = <<>> THEN e.fresh /\ e.obj = nextId ELSE ~e.fresh /\ e.obj = Head(pool))
       /\ (e.a = "Pool" /\ e.op = "get" /\ e.kind = "a" => IF apool = <<>> THEN e.fresh /\ e.obj = nextId ELSE ~e.fresh /\ e.obj = Head(apool))
Take(e) == IF e.a = "EvStart" THEN Start(e.g, e.shape) ELSE Do(e.g)

TNext ==
  /\ l <= Len(TraceLog) /\ l' = l + 1
  /\ LET e == TraceLog[l] IN
     IF e.a = "Reset" THEN Reinit /\ failed' = FALSE /\ UNCHANGED bad
     ELSE IF failed \/ ~Impl(e) THEN UNCHANGED <<vars, failed, bad>>
     ELSE IF ~Inv THEN failed' = TRUE /\ bad' = Append(bad, <<l, "invariant">>) /\ UNCHANGED vars
     ELSE IF Conforms(e) THEN Take(e) /\ UNCHANGED <<failed, bad>>
     ELSE failed' = TRUE /\ bad' = Append(bad, <<l, "step">>) /\ UNCHANGED vars
TSpec == TInit /\ [][TNext]_tvars
Report == l <= Len(TraceLog) \/ PrintT("@@BADLINES|" \o ToString(Len(TraceLog)) \o "|" \o ToJson(bad))
=============================================================================
