------------------------------ MODULE ValueDoc ------------------------------
(***************************************************************************)
(* C02: logged values decode back to what was logged, through every entry  *)
(* point.  This module holds the contract TABLES - which entry points can  *)
(* carry which type (Carries), what a nil error becomes per entry point,   *)
(* which textual form a time / duration / float takes under which setting  *)
(* or value class - and enumerates the case matrix type x value class x    *)
(* setting.  For every case the player logs the same value through every   *)
(* entry point of Carries[type] and cuts the rendered value out; the trace *)
(* part demands: the SAME bytes from every entry point, a rendering that   *)
(* an independent decoder maps back to the argument, and the form the      *)
(* tables say.  (Digit generation itself is strconv's, in zerolog and in   *)
(* the oracle alike; the tables own zerolog's case analysis.)              *)
(***************************************************************************)
EXTENDS Integers, Sequences, FiniteSets, TLC, Json

Scalar == {"event", "context", "array", "dict", "object", "fieldsmap", "fieldsslice", "ctxfields"}
Carries(t) ==
  CASE t \in {"Int", "Int8", "Int16", "Int32", "Int64", "Uint", "Uint16", "Uint32", "Uint64", "Float32", "Float64", "Time", "Dur"}
         -> Scalar \cup {"slice", "fieldsptr", "fieldsofslice"}
    [] t = "Uint8" -> Scalar \cup {"slice", "fieldsptr"}                  \* []uint8 in Fields is []byte: a string, not numbers
    [] t \in {"Bool", "Str"} -> Scalar \cup {"slice", "fieldsptr", "fieldsofslice"}
    [] t = "Bytes" -> Scalar
    [] t = "Hex" -> {"event", "context", "array", "dict", "object"}
    [] t \in {"IPAddr", "MACAddr", "IPPrefix"} -> Scalar
    [] t = "RawCBOR" -> {"event", "dict", "object"}
    [] t = "Stringer" -> {"event", "context", "dict", "object", "slice"}
    [] t = "AnErr" -> Scalar \cup {"slice"}
    [] t = "NilErr" -> Scalar \cup {"slice"}
Types == {"Int", "Int8", "Int16", "Int32", "Int64", "Uint", "Uint8", "Uint16", "Uint32", "Uint64", "Float32", "Float64", "Time", "Dur", "Bool", "Str",
          "Bytes", "Hex", "IPAddr", "MACAddr", "IPPrefix", "RawCBOR", "Stringer", "AnErr", "NilErr"}

IntClasses == {"min", "minp1", "m1", "zero", "one", "maxm1", "max", "w8", "w16", "w32", "w63"}
FloatClasses == {"zero", "negzero", "one", "frac", "third", "explo", "below1e-6", "at1e-6", "below1e21", "at1e21", "exphi", "denormal", "max", "nan", "pinf", "ninf"}
StrClasses == {"plain", "quote", "backslash", "newline", "ctl", "del", "html", "utf2", "utf3", "utf4", "cont", "overlong", "surrogate", "beyond", "ff", "ls", "trunc", "long", "empty"}
Classes(t) == CASE t \in {"Int", "Int8", "Int16", "Int32", "Int64", "Uint", "Uint8", "Uint16", "Uint32", "Uint64"} -> IntClasses
                [] t \in {"Float32", "Float64"} -> FloatClasses
                [] t \in {"Str", "Bytes", "Stringer", "AnErr"} -> StrClasses
                [] t = "Time" -> {"epoch", "neg", "negsub", "subsec", "subms", "far"}
                [] t = "Dur" -> {"zero", "ns", "neg", "ms", "hour", "big"}
                [] t = "Bool" -> {"true", "false"}
                [] t \in {"Hex", "RawCBOR"} -> {"empty", "bytes"}
                [] t = "IPAddr" -> {"v4", "v6", "v4in6"} [] t = "MACAddr" -> {"mac"} [] t = "IPPrefix" -> {"p24", "p64"}
                [] t = "NilErr" -> {"nil"}
\* global settings that matter for the type (ids; the concretiser knows their values)
Settings(t) == CASE t = "Time" -> {"rfc3339", "unix", "unixms", "unixmicro", "unixnano", "rfc3339nano"}
                 [] t = "Dur" -> {"ms-float", "ms-int", "s-float", "s-int", "ns-int", "us-float"}
                 [] t = "AnErr" -> {"default", "errstring"}
                 [] OTHER -> {"default"}

\* ---- the tables
\* a nil error adds no field through Err / AnErr and is null inside slices and Fields
NilErrForm(entry) == IF entry \in {"event", "context", "dict", "object"} THEN "nofield" ELSE "null"
TimeForm(s) == IF s \in {"unix", "unixms", "unixmicro", "unixnano"} THEN "int" ELSE "str"
DurForm(s) == IF s \in {"ms-int", "s-int", "ns-int"} THEN "int" ELSE "float"
\* ES6 layout: exponent form below 1e-6 and from 1e21 on; NaN / Inf as strings
FloatForm(c) == CASE c \in {"nan", "pinf", "ninf"} -> "str"
                  [] c \in {"explo", "below1e-6", "at1e21", "exphi", "denormal", "max"} -> "exp"
                  [] OTHER -> "fixed"

VARIABLES done
Init == done = FALSE
Next == ~done /\ done' = TRUE
Spec == Init /\ [][Next]_done
Cases == {<<t, c, s>> : t \in Types, c \in UNION {Classes(x) : x \in Types}, s \in UNION {Settings(x) : x \in Types}}
Emit == done \/ \A t \in Types : \A c \in Classes(t) : \A s \in Settings(t) :
                  PrintT("@@CASE|" \o ToJson([type |-> t, class |-> c, setting |-> s, entries |-> Carries(t)]))
=============================================================================
