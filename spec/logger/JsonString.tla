----------------------------- MODULE JsonString -----------------------------
(***************************************************************************)
(* String escaping of the JSON build (internal/json/string.go AppendString *)
(* / appendStringComplex, bytes.go AppendBytes) and of the bundled CBOR to  *)
(* JSON decoder (internal/cbor/decode_stream.go decodeStringComplex): three *)
(* copies of one algorithm.  Strings are sequences of byte values 0..255.   *)
(*                                                                         *)
(* Esc(s)  - the CONTRACT as a function: what each rune of the input turns  *)
(*           into (invalid UTF-8 bytes become the six characters \ufffd).  *)
(* Impl(s) - the code's loop, transcribed: scan, remember `start` of the    *)
(*           pending plain run, flush it before every escape and at the end.*)
(* TLC checks, for every string up to a length over an alphabet with one    *)
(* representative per case of the code (JsonStringMC), that Impl = Esc and  *)
(* that Esc has the properties C01 / C02 need:                              *)
(*   Clean      no byte < 0x20, no 0x7f, no raw quote or backslash          *)
(*   ValidUtf8  the output is valid UTF-8                                   *)
(*   RoundTrip  un-escaping the output gives the input with every invalid   *)
(*              byte replaced by U+FFFD                                     *)
(* The same three properties are evaluated on what the REAL code produced   *)
(* (JsonStringTrace): that is the verdict; equality with Esc is conformance.*)
(***************************************************************************)
EXTENDS Integers, Sequences, TLC

Hex(n) == IF n < 10 THEN 48 + n ELSE 87 + n          \* lower-case hex digit
Mod(a, b) == a - b * (a \div b)
Cont(b) == b >= 128 /\ b <= 191
In(b, lo, hi) == b >= lo /\ b <= hi
\* utf8.DecodeRune's acceptance (RFC 3629): size of the well-formed sequence starting at s[i], 0 if there is none
Size(s, i) ==
  LET n == Len(s)  b == s[i]
      C(k) == i + k <= n /\ Cont(s[i + k])
      R(k, lo, hi) == i + k <= n /\ In(s[i + k], lo, hi) IN
  IF b < 128 THEN 1
  ELSE IF In(b, 194, 223) THEN (IF C(1) THEN 2 ELSE 0)
  ELSE IF b = 224 THEN (IF R(1, 160, 191) /\ C(2) THEN 3 ELSE 0)
  ELSE IF In(b, 225, 236) \/ In(b, 238, 239) THEN (IF C(1) /\ C(2) THEN 3 ELSE 0)
  ELSE IF b = 237 THEN (IF R(1, 128, 159) /\ C(2) THEN 3 ELSE 0)            \* no surrogates
  ELSE IF b = 240 THEN (IF R(1, 144, 191) /\ C(2) /\ C(3) THEN 4 ELSE 0)
  ELSE IF In(b, 241, 243) THEN (IF C(1) /\ C(2) /\ C(3) THEN 4 ELSE 0)
  ELSE IF b = 244 THEN (IF R(1, 128, 143) /\ C(2) /\ C(3) THEN 4 ELSE 0)     \* up to U+10FFFF
  ELSE 0

Replacement == <<92, 117, 102, 102, 102, 100>>       \* the six characters \ufffd
\* one ASCII byte
EscByte(b) == CASE b = 34 \/ b = 92 -> <<92, b>>
                [] b = 8 -> <<92, 98>> [] b = 12 -> <<92, 102>> [] b = 10 -> <<92, 110>> [] b = 13 -> <<92, 114>> [] b = 9 -> <<92, 116>>
                [] b < 32 \/ b = 127 -> <<92, 117, 48, 48, Hex(b \div 16), Hex(Mod(b, 16))>>
                [] OTHER -> <<b>>
NoEscape(b) == b >= 32 /\ b <= 126 /\ b # 34 /\ b # 92

\* ---- the contract as a function
RECURSIVE EscFrom(_, _)
EscFrom(s, i) ==
  IF i > Len(s) THEN <<>>
  ELSE IF s[i] >= 128
       THEN LET k == Size(s, i) IN
            IF k = 0 THEN Replacement \o EscFrom(s, i + 1) ELSE SubSeq(s, i, i + k - 1) \o EscFrom(s, i + k)
       ELSE EscByte(s[i]) \o EscFrom(s, i + 1)
Esc(s) == EscFrom(s, 1)

\* ---- the code's loop: st = [i, start, dst]
RECURSIVE Loop(_, _)
Loop(s, st) ==
  LET i == st.i  start == st.start  dst == st.dst
      Flush == IF start < i THEN dst \o SubSeq(s, start, i - 1) ELSE dst IN
  IF i > Len(s) THEN (IF start <= Len(s) THEN dst \o SubSeq(s, start, Len(s)) ELSE dst)
  ELSE LET b == s[i] IN
       IF b >= 128
       THEN LET k == Size(s, i) IN
            IF k = 0 THEN Loop(s, [i |-> i + 1, start |-> i + 1, dst |-> Flush \o Replacement])
            ELSE Loop(s, [st EXCEPT !.i = i + k])
       ELSE IF NoEscape(b) THEN Loop(s, [st EXCEPT !.i = i + 1])
       ELSE Loop(s, [i |-> i + 1, start |-> i + 1, dst |-> Flush \o EscByte(b)])
\* AppendString: the fast path copies a string that needs nothing; otherwise the complex loop takes over
Impl(s) == IF \A i \in 1..Len(s) : NoEscape(s[i]) THEN s ELSE Loop(s, [i |-> 1, start |-> 1, dst |-> <<>>])

\* ---- properties of an output (also evaluated on what the real code wrote)
\* no control byte, no DEL, and a quote or backslash only as part of an escape pair (scanned pair by pair: a quote
\* after an ESCAPED backslash is raw)
RECURSIVE CleanFrom(_, _)
CleanFrom(o, i) == IF i > Len(o) THEN TRUE
                   ELSE IF o[i] = 92 THEN i + 1 <= Len(o) /\ o[i + 1] >= 32 /\ o[i + 1] # 127 /\ CleanFrom(o, i + 2)
                   ELSE o[i] >= 32 /\ o[i] # 127 /\ o[i] # 34 /\ CleanFrom(o, i + 1)
Clean(o) == CleanFrom(o, 1)
RECURSIVE ValidFrom(_, _)
ValidFrom(o, i) == i > Len(o) \/ (LET k == Size(o, i) IN k > 0 /\ ValidFrom(o, i + k))
ValidUtf8(o) == ValidFrom(o, 1)
\* UTF-8 encoding of a code point of the basic multilingual plane
Utf8(cp) == IF cp < 128 THEN <<cp>>
            ELSE IF cp < 2048 THEN <<192 + cp \div 64, 128 + Mod(cp, 64)>>
            ELSE <<224 + cp \div 4096, 128 + Mod(cp \div 64, 64), 128 + Mod(cp, 64)>>
HexVal(c) == IF In(c, 48, 57) THEN c - 48 ELSE IF In(c, 97, 102) THEN c - 87 ELSE IF In(c, 65, 70) THEN c - 55 ELSE -1
Bad == <<-1>>                                         \* marks an output that is not a JSON string body
RECURSIVE UnescFrom(_, _)
UnescFrom(o, i) ==
  IF i > Len(o) THEN <<>>
  ELSE IF o[i] # 92 THEN <<o[i]>> \o UnescFrom(o, i + 1)
  ELSE IF i + 1 > Len(o) THEN Bad
  ELSE LET c == o[i + 1] IN
       CASE c = 34 \/ c = 92 \/ c = 47 -> <<c>> \o UnescFrom(o, i + 2)
         [] c = 98 -> <<8>> \o UnescFrom(o, i + 2) [] c = 102 -> <<12>> \o UnescFrom(o, i + 2) [] c = 110 -> <<10>> \o UnescFrom(o, i + 2)
         [] c = 114 -> <<13>> \o UnescFrom(o, i + 2) [] c = 116 -> <<9>> \o UnescFrom(o, i + 2)
         [] c = 117 -> IF i + 5 > Len(o) \/ \E k \in 2..5 : HexVal(o[i + k]) < 0 THEN Bad
                       ELSE Utf8(4096 * HexVal(o[i + 2]) + 256 * HexVal(o[i + 3]) + 16 * HexVal(o[i + 4]) + HexVal(o[i + 5])) \o UnescFrom(o, i + 6)
         [] OTHER -> Bad
Unesc(o) == UnescFrom(o, 1)
\* the input with every byte that starts no well-formed sequence replaced by U+FFFD (EF BF BD)
RECURSIVE SanFrom(_, _)
SanFrom(s, i) == IF i > Len(s) THEN <<>>
                 ELSE LET k == Size(s, i) IN
                      IF k = 0 THEN <<239, 191, 189>> \o SanFrom(s, i + 1) ELSE SubSeq(s, i, i + k - 1) \o SanFrom(s, i + k)
Sanitize(s) == SanFrom(s, 1)
RoundTrip(s, o) == Unesc(o) = Sanitize(s)
Good(s, o) == Clean(o) /\ ValidUtf8(o) /\ RoundTrip(s, o)
=============================================================================
