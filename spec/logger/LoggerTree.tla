----------------------------- MODULE LoggerTree -----------------------------
(***************************************************************************)
(* C05: derived loggers are independent values.                            *)
(*                                                                         *)
(* Value layer (contract): a logger value is determined by its derivation  *)
(* path - ghost = [fields, hooks, goctx, level].  Whatever else has been   *)
(* derived, logged or dropped meanwhile, Emit(i) must produce exactly the  *)
(* ghost of slot i.                                                        *)
(*                                                                         *)
(* Memory layer (implementation-shaped): Logger.context is a Go slice      *)
(* (array id, len) over mutable backing arrays with a capacity; With()     *)
(* allocates a fresh array (cap 500 bytes in the code = Cap cells here)    *)
(* and copies; Context methods and UpdateContext append in place when the  *)
(* capacity allows, else reallocate; Level / Sample / Hook copy the struct *)
(* and share the context slice; Hook() and Output() allocate.  The hooks   *)
(* are a second Go slice (hmem): With() copies the struct and so SHARES    *)
(* the parent's hook array; Logger.Hook and the context hooks (Timestamp,  *)
(* Caller, CallerWithSkipFrameCount: CtxHook) allocate an array of exactly *)
(* len+1 and copy, Output copies.  HookInPlace = TRUE is the deviation     *)
(* "context hooks append in place" (Go append: in place when the capacity  *)
(* allows, else double): TLC then finds two siblings writing the same cell *)
(* of their parent's array.  The                                           *)
(* invariant Independent says that what the memory layer would emit is the *)
(* ghost - it holds for the program shapes the statement allows (Affine:   *)
(* a Context value is used at most once; UpdateContext only on a logger    *)
(* fresh from With()...Logger()) and TLC shows the two aliasing shapes     *)
(* immediately without the restriction (the recorded known finding).       *)
(*                                                                         *)
(* Programs (sequences of operations over S value slots) are exported and  *)
(* replayed on the real API; LoggerTreeTrace validates every emission.     *)
(***************************************************************************)
EXTENDS Integers, Sequences, FiniteSets, TLC, Json

CONSTANTS S,        \* value slots (variables of the user's program)
          Cap,      \* capacity of a With() allocation, in fields
          MaxOps,
          Affine,   \* restrict to the program shapes the statement allows
          HookInPlace  \* FALSE: the code as it is. TRUE: deviation - context hooks appended in place

None == [kind |-> "none"]
LibHooks == {-1, -10}   \* in the exhaustive model: Timestamp and Caller (two different ones are what aliasing needs; the programs replayed on the real code use five)
VARIABLES slot,   \* slot[i]: None | [kind: "L"|"C", arr, len, fresh, used, g: ghost]
          mem,    \* backing arrays: sequence of sequences of field ids (Len = capacity, 0 = unused cell)
          hmem,   \* backing arrays of the hook slices: sequences of hook ids (Len = capacity, 0 = unused cell)
          nf, nh, nc,   \* counters: fields, hooks, go contexts created
          prog          \* the program so far (history; exported)
vars == <<slot, mem, hmem, nf, nh, nc, prog>>

Ghost0 == [fields |-> <<>>, hooks |-> <<>>, goctx |-> 0, level |-> 0, stack |-> FALSE]
Root == [kind |-> "L", arr |-> 0, len |-> 0, harr |-> 0, hlen |-> 0, fresh |-> FALSE, used |-> FALSE, g |-> Ghost0]
Init == /\ slot = [i \in 1..S |-> IF i = 1 THEN Root ELSE None]
        /\ mem = <<>> /\ hmem = <<>> /\ nf = 0 /\ nh = 0 /\ nc = 0 /\ prog = <<>>

Content(v) == IF v.arr = 0 THEN <<>> ELSE SubSeq(mem[v.arr], 1, v.len)
HContent(v) == IF v.harr = 0 THEN <<>> ELSE SubSeq(hmem[v.harr], 1, v.hlen)
Pad(s, n) == s \o [i \in 1..(n - Len(s)) |-> 0]
Max(a, b) == IF a > b THEN a ELSE b
\* Go append of one element: in place when the capacity allows, else reallocate (doubling)
AppendTo(v, f) ==
  IF v.arr # 0 /\ v.len < Len(mem[v.arr])
  THEN [m |-> [mem EXCEPT ![v.arr][v.len + 1] = f], arr |-> v.arr]
  ELSE LET old == Content(v) IN
       [m |-> Append(mem, Pad(Append(old, f), Max(Cap, 2 * Len(old)))), arr |-> Len(mem) + 1]

\* Logger.Hook: make([]Hook, len, len+1), copy, append - always a fresh array of exactly the size needed
HookAlloc(v, h) == [m |-> Append(hmem, Append(HContent(v), h)), arr |-> Len(hmem) + 1]
\* the deviation: append(l.hooks, h) - in place when there is room (first allocation 1, then doubling)
HookAppend(v, h) ==
  IF v.harr # 0 /\ v.hlen < Len(hmem[v.harr])
  THEN [m |-> [hmem EXCEPT ![v.harr][v.hlen + 1] = h], arr |-> v.harr]
  ELSE LET old == HContent(v) IN [m |-> Append(hmem, Pad(Append(old, h), Max(1, 2 * Len(old)))), arr |-> Len(hmem) + 1]

Step(op, i, j, a) == prog' = Append(prog, [op |-> op, i |-> i, j |-> j, a |-> a])
Can(n) == Len(prog) < MaxOps
IsL(i) == slot[i].kind = "L"
IsC(i) == slot[i].kind = "C" /\ (Affine => ~slot[i].used)
Free(i, j) == j = i \/ slot[j] = None       \* the result goes to an empty slot or replaces the operand (l = l.X())
Use(i, j, v) == [slot EXCEPT ![i] = (IF slot[i].kind = "C" THEN [slot[i] EXCEPT !.used = TRUE] ELSE slot[i]), ![j] = v]

\* c := l.With()
With(i, j) == /\ Can(1) /\ IsL(i) /\ Free(i, j)
              /\ mem' = Append(mem, Pad(Content(slot[i]), Max(Cap, slot[i].len)))
              /\ slot' = Use(i, j, [kind |-> "C", arr |-> Len(mem) + 1, len |-> slot[i].len, harr |-> slot[i].harr, hlen |-> slot[i].hlen,
                                    fresh |-> FALSE, used |-> FALSE, g |-> slot[i].g])
              /\ UNCHANGED <<hmem, nf, nh, nc>> /\ Step("With", i, j, 0)
\* c2 := c.Str(...)   (value receiver: returns a new Context value)
Field(i, j) == /\ Can(1) /\ IsC(i) /\ Free(i, j)
               /\ LET r == AppendTo(slot[i], nf + 1) IN
                  /\ mem' = r.m
                  /\ slot' = Use(i, j, [kind |-> "C", arr |-> r.arr, len |-> slot[i].len + 1, harr |-> slot[i].harr, hlen |-> slot[i].hlen,
                                        fresh |-> FALSE, used |-> FALSE, g |-> [slot[i].g EXCEPT !.fields = Append(@, nf + 1)]])
               /\ nf' = nf + 1 /\ UNCHANGED <<hmem, nh, nc>> /\ Step("Field", i, j, nf + 1)
\* c2 := c.Ctx(ctx)
GoCtx(i, j) == /\ Can(1) /\ IsC(i) /\ Free(i, j)
               /\ slot' = Use(i, j, [slot[i] EXCEPT !.used = FALSE, !.g.goctx = nc + 1])
               /\ nc' = nc + 1 /\ UNCHANGED <<mem, hmem, nf, nh>> /\ Step("GoCtx", i, j, nc + 1)
\* c2 := c.Stack(): the stack flag is part of the logger value: descendants inherit it, siblings and parents do not get it,
\* and temporaries that are not created by a logger (zerolog.Dict(), Arr().Object ...) never have it
StackOn(i, j) == /\ Can(1) /\ IsC(i) /\ Free(i, j)
                 /\ slot' = Use(i, j, [slot[i] EXCEPT !.used = FALSE, !.g.stack = TRUE])
                 /\ UNCHANGED <<mem, hmem, nf, nh, nc>> /\ Step("Stack", i, j, 0)
\* c2 := c.Reset(): a fresh, empty context array; hooks, level, Go context carried over
CtxReset(i, j) == /\ Can(1) /\ IsC(i) /\ Free(i, j)
                  /\ mem' = Append(mem, Pad(<<>>, Cap))
                  /\ slot' = Use(i, j, [slot[i] EXCEPT !.arr = Len(mem) + 1, !.len = 0, !.used = FALSE, !.g.fields = <<>>])
                  /\ UNCHANGED <<hmem, nf, nh, nc>> /\ Step("CtxReset", i, j, 0)
\* l2 := c.Logger()
ToLogger(i, j) == /\ Can(1) /\ IsC(i) /\ Free(i, j)
                  /\ slot' = Use(i, j, [slot[i] EXCEPT !.kind = "L", !.fresh = TRUE, !.used = FALSE])
                  /\ UNCHANGED <<mem, hmem, nf, nh, nc>> /\ Step("Logger", i, j, 0)
\* l2 := l.Level(x) / l.Sample(s): struct copy sharing the context slice
Level(i, j, x) == /\ Can(1) /\ IsL(i) /\ Free(i, j)
                  /\ slot' = Use(i, j, [slot[i] EXCEPT !.fresh = FALSE, !.g.level = x])
                  /\ UNCHANGED <<mem, hmem, nf, nh, nc>> /\ Step("Level", i, j, x)
\* l2 := l.Hook(h): struct copy sharing the context slice; the hooks slice is freshly allocated
Hook(i, j) == /\ Can(1) /\ IsL(i) /\ Free(i, j)
              /\ LET r == HookAlloc(slot[i], nh + 1) IN
                 /\ hmem' = r.m
                 /\ slot' = Use(i, j, [slot[i] EXCEPT !.fresh = FALSE, !.harr = r.arr, !.hlen = @ + 1, !.g.hooks = Append(@, nh + 1)])
              /\ nh' = nh + 1 /\ UNCHANGED <<mem, nf, nc>> /\ Step("Hook", i, j, nh + 1)
\* c2 := c.Timestamp() / c.Caller() / c.CallerWithSkipFrameCount(n): a library hook registered through the Context; c.l = c.l.Hook(h),
\* so a fresh array like Hook.  h < 0 names the library hook by what it is seen to add (-1 the time, -(10+k) the caller k frames up)
CtxHook(i, j, h) == /\ Can(1) /\ IsC(i) /\ Free(i, j)
                    /\ LET r == IF HookInPlace THEN HookAppend(slot[i], h) ELSE HookAlloc(slot[i], h) IN
                       /\ hmem' = r.m
                       /\ slot' = Use(i, j, [slot[i] EXCEPT !.used = FALSE, !.harr = r.arr, !.hlen = @ + 1, !.g.hooks = Append(@, h)])
                    /\ UNCHANGED <<mem, nf, nh, nc>> /\ Step("CtxHook", i, j, h)
\* l2 := l.Output(w2): deep copy of context and hooks; everything else carried over
Output(i, j) == /\ Can(1) /\ IsL(i) /\ Free(i, j)
                /\ mem' = (IF slot[i].arr = 0 THEN mem ELSE Append(mem, mem[slot[i].arr]))
                /\ hmem' = (IF slot[i].hlen = 0 THEN hmem ELSE Append(hmem, HContent(slot[i])))
                /\ slot' = Use(i, j, [slot[i] EXCEPT !.arr = (IF slot[i].arr = 0 THEN 0 ELSE Len(mem) + 1), !.fresh = FALSE,
                                                      !.harr = (IF slot[i].hlen = 0 THEN 0 ELSE Len(hmem) + 1)])
                /\ UNCHANGED <<nf, nh, nc>> /\ Step("Output", i, j, 0)
\* l.UpdateContext(func(c) { return c.Str(...) }): in place through the pointer
Update(i) == /\ Can(1) /\ IsL(i) /\ (Affine => slot[i].fresh)
             /\ LET r == AppendTo(slot[i], nf + 1) IN
                /\ mem' = r.m
                /\ slot' = [slot EXCEPT ![i] = [@ EXCEPT !.arr = r.arr, !.len = @ + 1, !.g.fields = Append(@, nf + 1)]]
             /\ nf' = nf + 1 /\ UNCHANGED <<hmem, nh, nc>> /\ Step("Update", i, i, nf + 1)
\* l.UpdateContext(func(c) { return c.Reset().Str(...) }): the logger moves to a FRESH array holding only the new field;
\* whoever still shares the old array (Level / Sample / Hook copies, value copies) keeps what it had
UpdateReset(i) == /\ Can(1) /\ IsL(i) /\ (Affine => slot[i].fresh)
                  /\ mem' = Append(mem, Pad(<<nf + 1>>, Cap))
                  /\ slot' = [slot EXCEPT ![i] = [@ EXCEPT !.arr = Len(mem) + 1, !.len = 1, !.g.fields = <<nf + 1>>]]
                  /\ nf' = nf + 1 /\ UNCHANGED <<hmem, nh, nc>> /\ Step("UpdateReset", i, i, nf + 1)
\* the value goes out of scope
Drop(i) == /\ Can(1) /\ i # 1 /\ slot[i] # None /\ slot' = [slot EXCEPT ![i] = None]
           /\ UNCHANGED <<mem, hmem, nf, nh, nc>> /\ Step("Drop", i, i, 0)
\* an event through logger i; the expectation (ghost) is part of the exported step
Emit(i) == /\ Can(1) /\ IsL(i) /\ UNCHANGED <<slot, mem, hmem, nf, nh, nc>>
           /\ prog' = Append(prog, [op |-> "Emit", i |-> i, j |-> i, a |-> 0, fields |-> slot[i].g.fields, hooks |-> slot[i].g.hooks,
                                    goctx |-> slot[i].g.goctx, level |-> slot[i].g.level, stack |-> slot[i].g.stack])

Next == \E i, j \in 1..S :
          \/ With(i, j) \/ Field(i, j) \/ GoCtx(i, j) \/ CtxReset(i, j) \/ StackOn(i, j) \/ ToLogger(i, j) \/ Hook(i, j) \/ Output(i, j)
          \/ (\E h \in LibHooks : CtxHook(i, j, h)) \/ (\E x \in {1, 2} : Level(i, j, x)) \/ Update(i) \/ UpdateReset(i) \/ Drop(i) \/ Emit(i)
Spec == Init /\ [][Next]_vars
View == <<slot, mem, hmem, nf, nh, nc, Len(prog)>>

\* C05 on the memory layer: what every live logger would emit is exactly its own derivation path
Independent == \A i \in 1..S : (slot[i].kind = "L" \/ (slot[i].kind = "C" /\ ~slot[i].used)) =>
                                     Content(slot[i]) = slot[i].g.fields /\ HContent(slot[i]) = slot[i].g.hooks
\* export complete programs (every live logger emits at the end: appended by the exporter)
EmitProg == Len(prog) < MaxOps \/ PrintT("@@PROG|" \o ToJson({i \in 1..S : slot[i].kind = "L"}) \o "|" \o ToJson(prog))
=============================================================================
