----------------------------- MODULE EventDocMC -----------------------------
(* Enumerates logging programs over the structural operation classes of EventDoc and checks, on the
   model, that what the code's buffer rules produce is accepted by the RFC 8259 automaton; complete
   programs are exported as scripts for the player. *)
EXTENDS EventDoc, Json
CONSTANTS MaxTotal,   \* bound on #ctx ops + #ev ops
          MaxHooks,
          OpSet       \* the operation classes to range over
VARIABLES p, phase
vars == <<p, phase>>

Init == /\ p \in [lvl : BOOLEAN, with : BOOLEAN, msg : BOOLEAN, ctx : {<<>>}, ev : {<<>>}, hooks : {<<>>}]
        /\ phase = "ctx"
Size == Len(p.ctx) + Len(p.ev)
AddCtx(op) == phase = "ctx" /\ p.with /\ Size < MaxTotal /\ p' = [p EXCEPT !.ctx = Append(p.ctx, op)] /\ UNCHANGED phase
ToEv == phase = "ctx" /\ phase' = "ev" /\ UNCHANGED p
AddEv(op) == phase = "ev" /\ Size < MaxTotal /\ p' = [p EXCEPT !.ev = Append(p.ev, op)] /\ UNCHANGED phase
ToHooks == phase = "ev" /\ phase' = "hooks" /\ UNCHANGED p
AddHook(h) == phase = "hooks" /\ Len(p.hooks) < MaxHooks /\ p' = [p EXCEPT !.hooks = Append(p.hooks, h)] /\ UNCHANGED phase
Finish == phase = "hooks" /\ phase' = "done" /\ UNCHANGED p
Next == (\E op \in OpSet : AddCtx(op) \/ AddEv(op)) \/ ToEv \/ ToHooks \/ (\E h \in {"field", "noop", "discard", "ts", "caller"} : AddHook(h)) \/ Finish
Spec == Init /\ [][Next]_vars

\* the model's output is one well-formed object on one line (C01 at the design level)
WellFormed == phase = "done" => WellFormedTokens(Render(p))
Emit == phase # "done" \/ PrintT("@@PROG|" \o ToJson(p))
=============================================================================
