-------------------------- MODULE AllocChainTrace --------------------------
EXTENDS AllocChain, TLCExt
TraceLog == ndJsonDeserialize("hist.ndjson")
VARIABLES l, bad
TInit == l = 1 /\ bad = <<>> /\ chain = <<>> /\ done = FALSE
\* signature of ledger item 15 while it is unrepaired: a filtered logger with Dict/Array in the chain
TNext == /\ l <= Len(TraceLog) /\ l' = l + 1 /\ UNCHANGED <<chain, done>>
         /\ LET e == TraceLog[l] IN
            IF e.a = "Reset" \/ RecordOK(e) THEN UNCHANGED bad ELSE bad' = Append(bad, <<l, "">>)
TSpec == TInit /\ [][TNext]_<<l, bad, chain, done>>
Report == l <= Len(TraceLog) \/ PrintT("@@BADLINES|" \o ToString(Len(TraceLog)) \o "|" \o ToJson(bad))
=============================================================================
