---------------------------- MODULE JsonStringMC ----------------------------
(* Model check of JsonString: for every string up to MaxLen over Alphabet - one representative per case of the code:
   each named control, other controls, space, quote, backslash, plain, ~, DEL, continuation bytes of each range, and
   every kind of lead byte (overlong C0/C1, 2-byte, E0, E1-EC, ED, EE-EF, F0, F1-F3, F4, F5+) - the code's loop produces
   what the contract function says, and that has the three properties. *)
EXTENDS JsonString
CONSTANT MaxLen
Alphabet == {0, 8, 9, 10, 12, 13, 31, 32, 34, 65, 92, 126, 127, 128, 143, 144, 159, 160, 191, 192, 193, 194, 223, 224, 225, 236, 237, 238, 239, 240, 241, 243, 244, 245, 255}
VARIABLE s
Init == s = <<>>
Next == Len(s) < MaxLen /\ \E b \in Alphabet : s' = Append(s, b)
Spec == Init /\ [][Next]_s
ImplIsEsc == Impl(s) = Esc(s)
EscIsGood == Good(s, Esc(s))
=============================================================================
