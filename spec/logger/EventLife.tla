----------------------------- MODULE EventLife -----------------------------
(***************************************************************************)
(* C06 / C07: the life of pooled buffers when several goroutines log.      *)
(* Implementation-shaped, one action per scheduler gate of the             *)
(* instrumented build (sync.Pool -> deterministic LIFO with gates at Get   *)
(* and Put; a gate inside the destination's Write; SyncWriter's mutex):    *)
(*   flat   l.event, pool.get(e), [mu.lock], w.write, [mu.unlock],         *)
(*          pool.put(e)                                                    *)
(*   dict   ... pool.get(e), pool.get(d), pool.put(d), w.write ...         *)
(*   arr    ... pool.get(e), apool.get(a), apool.put(a), w.write ...       *)
(*   carr   the same through a user LogArrayMarshaler; obj: user object    *)
(*          marshaler, fields appended in place                            *)
(*   big    as flat but the buffer grew beyond 64 KiB: never put back      *)
(*   drop   a hook discards the event, a later hook is a scheduling point: *)
(*          l.event, pool.get(e), user.hook, pool.put(e) - no write.       *)
(*          DiscardPuts = TRUE is the deviation "Discard() itself returns  *)
(*          the event to the pool": the object is in the pool while its    *)
(*          goroutine still runs hooks on it (SingleOwner fails).          *)
(* Invariants: SingleOwner (an object is in a pool or owned by exactly one *)
(* goroutine), StableDuringWrite (the object handed to the writer is not   *)
(* in a pool and not owned by anybody else until Write returns),           *)
(* NoOverlapUnderSync, PoolBalanced (C07: after every complete event the   *)
(* goroutine holds nothing).  Behaviours are exported as schedules.        *)
(***************************************************************************)
EXTENDS Integers, Sequences, FiniteSets, TLC, Json
CONSTANTS G, K, Sync, Shapes, DiscardPuts
Gs == 1..G
Ops(shape) ==
  LET w == IF Sync THEN <<"lock", "write", "unlock">> ELSE <<"write">> IN
  CASE shape = "flat" -> <<"get">> \o w \o <<"put">>
    [] shape = "dict" -> <<"get", "get", "put">> \o w \o <<"put">>
    [] shape = "arr"  -> <<"get", "aget", "aput">> \o w \o <<"put">>
    \* Event.Array with a user LogArrayMarshaler: the temporary Arr() is taken and returned inside the call
    \* ("user": a scheduling point inside the user's marshaler - it may block or be preempted there)
    [] shape = "carr" -> <<"get", "aget", "user", "aput">> \o w \o <<"put">>
    \* Event.Object / EmbedObject with a user marshaler: fields are appended in place, no extra pooled object
    [] shape = "obj"  -> <<"get", "user">> \o w \o <<"put">>
    \* temporaries of the derivation API, used by a goroutine that derives a child logger and logs through it:
    \* Context.Object borrows a pooled event for the user's marshaler and returns it before the child logs
    [] shape = "ctxobj" -> <<"get", "user", "put", "get">> \o w \o <<"put">>
    \* Context.Array with a user LogArrayMarshaler borrows a pooled Array
    [] shape = "ctxarr" -> <<"aget", "user", "aput", "get">> \o w \o <<"put">>
    \* Fields() with a LogObjectMarshaler value borrows a second pooled event while the first is being built
    [] shape = "fobj" -> <<"get", "get", "user", "put">> \o w \o <<"put">>
    \* the oversized buffer is dropped (no Put, hence no gate) in the step that leaves the writer / the mutex
    \* the first hook calls Discard(), the next hook is user code that may block; msg() then skips the write and returns the event
    [] shape = "drop" -> IF DiscardPuts THEN <<"get", "putkeep", "hook", "release">> ELSE <<"get", "hook", "put">>
    [] shape = "big"  -> <<"get">> \o (IF Sync THEN <<"lock", "write", "unlockdrop">> ELSE <<"writedrop">>)

VARIABLES pool, apool, nextId,     \* LIFO free lists of object ids
          ops, held, kdone,        \* per goroutine: remaining micro-ops of the current event, objects held (stack), events done
          mu, inwrite,             \* SyncWriter mutex owner (0 free); object inside the writer per goroutine (0 none)
          sched, shapes
vars == <<pool, apool, nextId, ops, held, kdone, mu, inwrite, sched, shapes>>

Init == /\ pool = <<>> /\ apool = <<>> /\ nextId = 1
        /\ ops = [g \in Gs |-> <<>>] /\ held = [g \in Gs |-> <<>>] /\ kdone = [g \in Gs |-> 0]
        /\ mu = 0 /\ inwrite = [g \in Gs |-> 0] /\ sched = <<>> /\ shapes = [g \in Gs |-> <<>>]
Tag(g) == sched' = Append(sched, "G" \o ToString(g))
Push(s, x) == <<x>> \o s
\* gate l.event: the goroutine starts its next event
Start(g, sh) == /\ ops[g] = <<>> /\ kdone[g] < K /\ sh \in Shapes
                /\ ops' = [ops EXCEPT ![g] = Ops(sh)] /\ shapes' = [shapes EXCEPT ![g] = Append(@, sh)]
                /\ UNCHANGED <<pool, apool, nextId, held, kdone, mu, inwrite>> /\ Tag(g)
Finish(g, rest) == IF rest = <<>> THEN kdone' = [kdone EXCEPT ![g] = kdone[g] + 1] ELSE UNCHANGED kdone
Do(g) ==
  /\ ops[g] # <<>> /\ Tag(g) /\ UNCHANGED shapes
  /\ LET o == Head(ops[g])  rest == Tail(ops[g]) IN
     /\ ops' = [ops EXCEPT ![g] = rest] /\ Finish(g, rest)
     /\ CASE o = "get" -> /\ (IF pool = <<>> THEN nextId' = nextId + 1 /\ held' = [held EXCEPT ![g] = Push(@, nextId)] /\ UNCHANGED pool
                              ELSE held' = [held EXCEPT ![g] = Push(@, Head(pool))] /\ pool' = Tail(pool) /\ UNCHANGED nextId)
                          /\ UNCHANGED <<apool, mu, inwrite>>
          [] o = "aget" -> /\ (IF apool = <<>> THEN nextId' = nextId + 1 /\ held' = [held EXCEPT ![g] = Push(@, nextId)] /\ UNCHANGED apool
                               ELSE held' = [held EXCEPT ![g] = Push(@, Head(apool))] /\ apool' = Tail(apool) /\ UNCHANGED nextId)
                           /\ UNCHANGED <<pool, mu, inwrite>>
          [] o = "put" -> pool' = Push(pool, Head(held[g])) /\ held' = [held EXCEPT ![g] = Tail(@)] /\ UNCHANGED <<apool, nextId, mu, inwrite>>
          [] o = "aput" -> apool' = Push(apool, Head(held[g])) /\ held' = [held EXCEPT ![g] = Tail(@)] /\ UNCHANGED <<pool, nextId, mu, inwrite>>
          [] o = "writedrop" -> held' = [held EXCEPT ![g] = Tail(@)] /\ inwrite' = [inwrite EXCEPT ![g] = 0] /\ UNCHANGED <<pool, apool, nextId, mu>>
          [] o = "unlockdrop" -> held' = [held EXCEPT ![g] = Tail(@)] /\ mu' = 0 /\ UNCHANGED <<pool, apool, nextId, inwrite>>
          [] o = "user" -> UNCHANGED <<pool, apool, nextId, held, mu, inwrite>>
          [] o = "hook" -> UNCHANGED <<pool, apool, nextId, held, mu, inwrite>>
          \* deviation only: the event goes to the pool but its goroutine keeps using it until msg() ends
          [] o = "putkeep" -> pool' = Push(pool, Head(held[g])) /\ UNCHANGED <<apool, nextId, held, mu, inwrite>>
          [] o = "release" -> held' = [held EXCEPT ![g] = Tail(@)] /\ UNCHANGED <<pool, apool, nextId, mu, inwrite>>
          [] o = "lock" -> mu = 0 /\ mu' = g /\ UNCHANGED <<pool, apool, nextId, held, inwrite>>
          [] o = "unlock" -> mu' = 0 /\ UNCHANGED <<pool, apool, nextId, held, inwrite>>
          \* the gate inside the destination's Write: entered when the previous step ran on, left here
          [] o = "write" -> inwrite' = [inwrite EXCEPT ![g] = 0] /\ UNCHANGED <<pool, apool, nextId, held, mu>>
\* the object handed to the writer: from the step that arrives at w.write until that gate is released
InWriter(g) == ops[g] # <<>> /\ Head(ops[g]) \in {"write", "writedrop"}
Next == \E g \in Gs : Do(g) \/ \E sh \in Shapes : Start(g, sh)
Spec == Init /\ [][Next]_vars
View == <<pool, apool, nextId, ops, held, kdone, mu, inwrite>>
Done == \A g \in Gs : kdone[g] = K /\ ops[g] = <<>>

Range(s) == {s[i] : i \in 1..Len(s)}
Owned(g) == Range(held[g])
SingleOwner == /\ \A g, h \in Gs : g # h => Owned(g) \cap Owned(h) = {}
               /\ \A g \in Gs : Owned(g) \cap (Range(pool) \cup Range(apool)) = {}
               /\ Cardinality(Range(pool)) = Len(pool) /\ Cardinality(Range(apool)) = Len(apool)
StableDuringWrite == \A g \in Gs : InWriter(g) => /\ held[g] # <<>>
                                                  /\ Head(held[g]) \notin Range(pool)
                                                  /\ \A h \in Gs \ {g} : Head(held[g]) \notin Owned(h)
NoOverlapUnderSync == Sync => Cardinality({g \in Gs : InWriter(g)}) <= 1
PoolBalanced == \A g \in Gs : ops[g] = <<>> => held[g] = <<>>
EmitDone == ~Done \/ PrintT("@@SCHED|" \o ToJson(shapes) \o "|" \o ToJson(sched))
=============================================================================
