----------------------------- MODULE AllocChain -----------------------------
(***************************************************************************)
(* C07: zero heap allocation on the documented fast paths.                 *)
(* The state-machine part of the property is the pool discipline (see      *)
(* EventLife: PoolBalanced): every complete logging call returns to its    *)
(* pool every object it took, on every path - enabled, level-filtered,     *)
(* nested Dict / Array / Object.  The allocation count itself is not       *)
(* observable by a specification: it is measured by testing.AllocsPerRun   *)
(* on the uninstrumented build and recorded as an observation that the     *)
(* contract requires to be 0.                                              *)
(* This module enumerates the chains (all sequences up to MaxLen over the  *)
(* allocation-free method set) x logger context x enabled/filtered x       *)
(* finalizer, and states what a record must show.                          *)
(***************************************************************************)
EXTENDS Integers, Sequences, TLC, Json
CONSTANTS MaxLen, Methods
VARIABLES chain, done
vars == <<chain, done>>
Init == chain = <<>> /\ done = FALSE
\* large values (see AllMethods): at most one of them per chain - beyond 64 KiB a buffer is not pooled, by design
Big == {"StrBig", "BytesBig", "StrLongEsc"}
Add(m) == /\ ~done /\ Len(chain) < MaxLen /\ (m \in Big => \A i \in 1..Len(chain) : chain[i] \notin Big)
          /\ chain' = Append(chain, m) /\ UNCHANGED done
Stop == ~done /\ Len(chain) > 0 /\ done' = TRUE /\ UNCHANGED chain
Next == (\E m \in Methods : Add(m)) \/ Stop
Spec == Init /\ [][Next]_vars
Emit == ~done \/ PrintT("@@CHAIN|" \o ToJson(chain))

AllMethods == {"Str", "Strs", "Bytes", "Hex", "Bool", "Bools", "Int", "Ints", "Int8", "Ints8", "Int16", "Ints16", "Int32", "Ints32", "Int64", "Ints64",
               "Uint", "Uints", "Uint8", "Uints8", "Uint16", "Uints16", "Uint32", "Uints32", "Uint64", "Uints64", "Float32", "Floats32", "Float64", "Floats64",
               "Time", "Times", "Dur", "Durs", "TimeDiff", "Timestamp", "Err", "AnErr", "Dict", "Array", "ArrayM", "Object", "EmbedObject", "RawJSON", "Type", "Func",
               \* the same methods with empty / nil arguments ("all argument values")
               "ArrayEmpty", "DictEmpty", "StrsEmpty", "IntsNil", "BytesEmpty", "StrEmpty", "ErrNil", "TimesEmpty",
               \* one large value: the buffer grows to the largest capacity that is still pooled (Str: 60 000 bytes, capacity exactly
               \* 64 KiB; Bytes: 45 000 bytes, 48 KiB and - with more fields after it - 64 KiB)
               "StrBig", "BytesBig", "StrLongEsc",      \* StrLongEsc: 12 000 bytes, a quote at the very start and a few more later
               \* arguments BUILT AT THE CALL SITE (slice literals of variables): no allocation as long as the methods do not let their parameters escape
               "IntsInline", "StrsInline", "Floats64Inline", "BoolsInline", "TimesInline", "DursInline", "TypeInline"}

\* ArrayM: Array with a pointer LogArrayMarshaler (the temporary *Array comes from and returns to the pool inside the call)
\* methods that take an object from a pool (and must give it back, also when the event is filtered)
Pooled == {"Dict", "Array"}

\* ---- what a record of one measured chain must show
\* kind "allocs": testing.AllocsPerRun on the plain build
WarmZero(r) == r.allocs = 0
WritesOK(r) == r.writes_per_run = (IF r.enabled THEN 1 ELSE 0)
\* kind "pool": Get/Put counted by the shim pool over one complete call from a warm state
PoolBalancedRec(r) == r.gets = r.puts /\ r.fresh = 0
RecordOK(r) == WritesOK(r) /\ (IF r.kind = "pool" THEN PoolBalancedRec(r) ELSE WarmZero(r))
=============================================================================
