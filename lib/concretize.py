"""Concretises abstract logging programs (structural operation classes of spec/logger/EventDoc.tla) into
programs for harness/prog: concrete methods, keys and argument values, seeded."""
import base64
import math
import random
import struct


def b64(bs):
    if isinstance(bs, str):
        bs = bs.encode()
    return base64.b64encode(bs).decode()


# byte strings with one representative of every escaping / UTF-8 class of internal/json/string.go
NASTY = [b"", b"plain", b"with space", b'q"uote', b"back\\slash", b"\n", b"\r\t\b\f", b"\x00", b"\x1f\x7f", b"</script>&", b"\xc3\xa9",
         b"\xe2\x82\xac", b"\xf0\x9f\x98\x80", b"\x80", b"\xc0\xaf", b"\xed\xa0\x80", b"\xf4\x90\x80\x80", b"\xff\xfe", b"a\xffb", b"\xe2\x82",
         b"\xe2\x80\xa8\xe2\x80\xa9", b"{\"k\":1}", b"k\":\"v", b"\\u0000", b"x" * 300]
F64 = [0.0, -0.0, 1.0, -1.5, 1e-7, 1e-6, 1e20, 1e21, 1e22, 123456789.123, 5e-324, 1.7976931348623157e308, math.nan, math.inf, -math.inf, 0.1, 1 / 3]
F32 = [0.0, 1.0, -2.5, 1e-7, 1e-6, 1e20, 1e21, 3.4028235e38, 1e-45, math.nan, math.inf, -math.inf, 0.1, 16777216.0]
INTS = {"Int": (-2**63, 2**63 - 1), "Int8": (-128, 127), "Int16": (-2**15, 2**15 - 1), "Int32": (-2**31, 2**31 - 1), "Int64": (-2**63, 2**63 - 1),
        "Uint": (0, 2**64 - 1), "Uint8": (0, 255), "Uint16": (0, 2**16 - 1), "Uint32": (0, 2**32 - 1), "Uint64": (0, 2**64 - 1)}
SLICE_OF = {"Int": "Ints", "Int8": "Ints8", "Int16": "Ints16", "Int32": "Ints32", "Int64": "Ints64", "Uint": "Uints", "Uint8": "Uints8",
            "Uint16": "Uints16", "Uint32": "Uints32", "Uint64": "Uints64"}
TIMES = [0, 1, -1, 981173106123456789, 1700000000000000000, 1700000000123000000, 253402300799999999999 // 1000 * 0 + 4102444800000000000, -2208988800000000000]
# instants more than 292 years from 1970 (beyond what a time.Duration since the epoch can hold) WITH a sub-second part; the parts are
# dyadic (.5 s, .25 s) so that the binary build's float64 seconds carry them exactly. Only used when TimeFieldFormat is not one of the
# UnixNano-based formats (the statement restricts those to the UnixNano range).
FAR_TIMES = [16725225600 * 10**9 + 500000000, -11676096000 * 10**9 + 250000000, -62135596800 * 10**9 + 500000000, 253402300799 * 10**9 + 500000000]
DURS = [0, 1, -1, 999, 1000, 1500000, 1000000000, 3600000000000, -2500000000, 2**62,
        # durations whose float rendering is sensitive to HOW the quotient is computed: float64(d)/float64(unit) and whole + remainder/unit
        # differ by one ulp (the first three under the unit ms, the last two under the unit s)
        377633229, 63204542, 62784834, 8830124702, 2765187168]
# addresses: 4-byte and 16-byte forms, v4-in-v6, unspecified, and lengths that are neither (String() has a form for those too)
IPS = [b"\x7f\x00\x00\x01", bytes(range(16)), b"\x00" * 16, b"\xc0\xa8\x00\x01", b"\x00" * 10 + b"\xff\xff\x0a\x00\x00\x01", b"\x00" * 4, b"\xff" * 16,
       b"", b"\x01\x02\x03\x04\x05"]
MACS = [b"\x00\x14\x22\x01\x23\x45", b"\xff" * 6, b"\x02\x00\x5e\x10\x00\x00\x00\x01", b"", b"\x00" * 20]
# every width class of the prefix length as a CBOR integer: 0, < 24, 24 (one-byte argument), 32, 64, 127, 128 (the only value above int8)
PREFIXES = [([192, 168, 0, 0], [255, 255, 0, 0]), ([192, 168, 0, 0], [255, 255, 255, 0]), ([10, 0, 0, 0], [0, 0, 0, 0]), ([10, 1, 2, 3], [255, 255, 255, 255]),
            (list(range(16)), [255] * 8 + [0] * 8), ([0x20, 0x01, 0x0d, 0xb8] + [0] * 11 + [1], [255] * 16), ([0xfe, 0x80] + [0] * 14, [255] * 15 + [254]),
            ([0] * 16, [0] * 16), ([10, 0, 0, 0], [255, 224, 0, 0]),
            ([0] * 10 + [255, 255, 10, 0, 0, 0], [255] * 13 + [0] * 3), ([0] * 10 + [255, 255, 10, 1, 2, 3], [255] * 16),   # IPv4-mapped, /104 and /128
            ([10, 0, 0, 0], [255, 0, 255, 0])]
# what C08 / C09 name: IPs of 4 or 16 bytes, 6-byte MACs, canonical prefixes (the binary format has no notation for the others:
# the bundled decoder rejects an 8- or 20-byte hardware address or an empty IP, and a non-contiguous mask has no prefix length)
IPS_BIN = [x for x in IPS if len(x) in (4, 16)]
MACS_BIN = [x for x in MACS if len(x) == 6]
PREFIXES_BIN = PREFIXES[:-1]


def f64bits(x):
    return "0x%016x" % struct.unpack(">Q", struct.pack(">d", x))[0]


def f32bits(x):
    return "0x%08x" % struct.unpack(">I", struct.pack(">f", x))[0]


def int_choices(lo, hi):
    c = {lo, lo + 1, -1, 0, 1, 23, 24, 255, 256, 65535, 65536, 2**31 - 1, 2**31, 2**32 - 1, 2**32, 2**63 - 1, 2**63, hi - 1, hi, -24, -25, -256, -257, -65536, -65537}
    return sorted(x for x in c if lo <= x <= hi)


class Gen:
    def __init__(self, seed, binary_safe=False):
        self.r = random.Random(seed)
        self.binary_safe = binary_safe   # restrict to what both builds support identically (RawCBOR etc. are fine)
        self.opaque_el = []              # keys whose value is an array whose ELEMENTS are rendered by an external marshaler
        self.opaque = []                 # keys whose value is rendered by an external marshaler as a structured JSON value
        self.field_errs = []

    def bytes_(self):
        r = self.r
        x = r.random()
        if x < 0.05:       # definite lengths on both sides of the 23/24 and 255/256 boundaries of CBOR heads (and multiples of 256)
            return bytes([0x61 + r.randrange(26)]) * r.choice([22, 23, 24, 25, 255, 256, 257, 279, 280, 511, 512, 535])
        if x < 0.054:      # ... and of the 65535/65536 boundary; also larger than the decoder's 4096-byte read buffer
            return b"L" * r.choice([4095, 4096, 4097, 6000, 65535, 65536, 65537, 65559, 70000])
        if r.random() < 0.7:
            return r.choice(NASTY)
        return bytes(r.randrange(256) for _ in range(r.randrange(0, 6)))

    def key(self, name, nasty_ok=False):
        return b64(name)

    # ---- typed values
    def tv_string(self):
        return {"t": "string", "s": b64(self.bytes_())}

    def tv_int(self, typ):
        lo, hi = INTS[typ]
        return {"t": typ.lower(), "i": str(self.r.choice(int_choices(lo, hi)))}

    def tv_f64(self):
        return {"t": "float64", "x": f64bits(self.r.choice(F64))}

    def tv_f32(self):
        return {"t": "float32", "x": f32bits(self.r.choice(F32))}

    def any_value(self, depth=0, scalar_only=False):
        r = self.r
        c = r.randrange(9 if depth < 2 else 6)
        if scalar_only and c in (5, 6, 7):
            c = r.choice([0, 1, 2, 3, 4, 8])
        if c == 0:
            return {"t": "nil"}
        if c == 1:
            return self.tv_string()
        if c == 2:
            return {"t": "int", "i": str(r.choice([0, -1, 2**53, 12345]))}
        if c == 3:
            return {"t": "float64", "x": f64bits(r.choice([0.5, 1e21, 1e-7, 3.0]))}
        if c == 4:
            return {"t": "bool", "b": r.random() < 0.5}
        if c == 5:
            return {"t": "struct", "s": b64(self.bytes_()), "i": "7"}
        if c == 6:
            return {"t": "map", "m": [{"k": b64("x"), "v": self.any_value(depth + 1)}, {"k": b64(self.bytes_()), "v": self.any_value(depth + 1)}]}
        if c == 7:
            return {"t": "slice", "m": [{"k": b64(""), "v": self.any_value(depth + 1)} for _ in range(r.randrange(3))]}
        if r.random() < 0.5:
            return {"t": "badjson", "s": b64(self.bytes_())}    # MarshalJSON fails with an error text of arbitrary bytes
        return {"t": "float64", "x": f64bits(math.nan)}     # json.Marshal fails: zerolog renders a "marshaling error" string

    def scalar_op(self, kname, builder, keyed=True):
        """One scalar field (or array element if not keyed). builder in {'event', 'context', 'array', 'fields'}."""
        r = self.r
        kinds = ["Str", "Bytes", "Hex", "Bool", "int", "int", "Float32", "Float64", "Time", "Dur", "Interface", "IPAddr", "MACAddr", "IPPrefix", "RawJSON", "AnErr"]
        if builder in ("event", "context"):
            kinds += ["Stringer", "Type", "Any"]
        if builder == "event":
            kinds += ["TimeDiff", "RawCBOR"]
        if builder == "array":
            kinds = [k for k in kinds if k not in ("AnErr",)] + ["Err"]
        k = r.choice(kinds)
        op = {}
        if keyed:
            op["k"] = b64(kname)
        if k == "int":
            typ = r.choice(list(INTS))
            op.update(m=typ, v=self.tv_int(typ))
        elif k in ("Str",):
            op.update(m="Str", v=self.tv_string())
        elif k in ("Bytes", "Hex"):
            op.update(m=k, v={"t": "[]byte", "s": b64(self.bytes_()), "nil": r.random() < 0.1})
        elif k == "RawJSON":
            raw = r.choice([b"1", b'"s"', b"null", b"true", b"-1.5e3"] + ([b"[1,2]", b"{}", b'[{"a":null}]', b'{"a":{"b":[]}}'] if keyed else []))
            if raw[:1] in (b"[", b"{"):
                self.opaque.append(kname)
            op.update(m="RawJSON", v={"t": "[]byte", "s": b64(raw)})
        elif k == "RawCBOR":
            # embedded CBOR: payloads whose base64 form uses every alphabet symbol class ('+' and '/': 0xfb.., ..0xff) and padding length
            op.update(m="RawCBOR", v={"t": "[]byte", "s": b64(r.choice([b"\x01", b"\x83\x01\x02\x03", b"\xf6", b"", b"\xfb\x40\x09\x21\xfb\x54\x44\x2d\x18", b"\x9f\x01\xff",
                                                                          b"\xff\xff\xff", b"\xfb\xef\xbe", bytes(r.randrange(256) for _ in range(r.randrange(1, 12)))]))})
        elif k == "Bool":
            op.update(m="Bool", v={"t": "bool", "b": r.random() < 0.5})
        elif k == "Float32":
            op.update(m="Float32", v=self.tv_f32())
        elif k == "Float64":
            op.update(m="Float64", v=self.tv_f64())
        elif k == "Time":
            op.update(m="Time", v={"t": "time", "i": str(r.choice(TIMES))})
        elif k == "Dur":
            op.update(m="Dur", v={"t": "dur", "i": str(r.choice(DURS))})
        elif k == "TimeDiff":
            op.update(m="TimeDiff", v={"t": "time", "i": str(r.choice(TIMES))}, v2={"t": "time", "i": str(r.choice(TIMES))})
        elif k in ("Interface", "Any"):
            v = self.any_value(scalar_only=not keyed)
            if keyed and r.random() < 0.12:
                # a json.RawMessage spread over several lines, through Interface / Any: the marshal function compacts it (the
                # verbatim paths - RawJSON, a RawMessage in Fields - are the caller's responsibility and keep single-line values)
                v = {"t": "raw", "s": b64(r.choice([b'{\n  "a": [1,\n 2]\n}', b'[\n1,\r\n{"b":\tnull}\n]']))}
                self.opaque.append(kname)
            if v["t"] in ("struct", "map", "slice"):
                self.opaque.append(kname)
            op.update(m=k, v=v)
        elif k == "Type":
            op.update(m="Type", v=self.any_value())
        elif k == "Stringer":
            op.update(m="Stringer", v={"t": "stringer", "s": b64(self.bytes_()), "nil": r.random() < 0.15})
        elif k == "IPAddr":
            op.update(m="IPAddr", v={"t": "ip", "ip": list(r.choice(IPS_BIN if self.binary_safe else IPS))})
        elif k == "MACAddr":
            op.update(m="MACAddr", v={"t": "mac", "ip": list(r.choice(MACS_BIN if self.binary_safe else MACS))})
        elif k == "IPPrefix":
            pip, pmask = r.choice(PREFIXES_BIN if self.binary_safe else PREFIXES)
            op.update(m="IPPrefix", v={"t": "ipnet", "ip": pip, "mask": pmask})
        elif k in ("AnErr", "Err"):
            op.update(m=k, v=dict({"t": "error", "s": b64(self.bytes_())}, **self.err_kind(kname, keyed)))
            if not keyed and r.random() < 0.35:
                # an array element that is a nil error, or an error interface holding a nil pointer: the element "null", with its
                # separator like any other element
                op["v"] = {"t": "error", "nil": True} if r.random() < 0.4 else {"t": "error", "ek": "nilptr"}
        return op

    def err_kind(self, kname, keyed=True, elements=False):
        """Extra members for an error TV: a quarter of the keyed error values are errors that are LogObjectMarshalers
        (rendered as an object with 0-2 members by every error path: Err, AnErr, Errs, Fields error / []error).
        Their value is one value to the builder discipline (opaque); the RFC 8259 automaton still sees every token."""
        r = self.r
        if not keyed or r.random() >= 0.25:
            return {}
        (self.opaque_el if elements else self.opaque).append(kname)
        n = r.choice([0, 1, 1, 2])
        self.errobj_n = getattr(self, "errobj_n", 0) + 1       # member names unique within the program
        return {"ek": "obj", "f": [{"m": "Str", "k": b64("m%d_%d" % (self.errobj_n, i)), "v": self.tv_string()} for i in range(n)]}

    # every case of the type switch of fields.go appendFieldList (scalars, pointers to them, slices of them, and the rest)
    FIELD_SCALARS = ["string", "bool", "int", "int8", "int16", "int32", "int64", "uint", "uint8", "uint16", "uint32", "uint64",
                     "float32", "float64", "time", "dur"]
    FIELD_SLICES = ["[]" + t for t in FIELD_SCALARS if t != "uint8"]
    FIELD_OTHER = ["[]byte", "nil", "error", "ip", "ipnet", "mac", "raw", "any", "any"]

    def scalar_tv(self, t):
        r = self.r
        if t == "string":
            return self.tv_string()
        if t == "bool":
            return {"t": "bool", "b": r.random() < 0.5}
        if t == "float32":
            return self.tv_f32()
        if t == "float64":
            return self.tv_f64()
        if t == "time":
            return {"t": "time", "i": str(r.choice(TIMES))}
        if t == "dur":
            return {"t": "dur", "i": str(r.choice(DURS))}
        return self.tv_int(t.capitalize())

    def fields_value(self, kname):
        """A typed value for a Fields entry: uniformly over the cases of appendFieldList's type switch
        ([]error and error+Stack are the ferr* classes)."""
        r = self.r
        x = r.random()
        if x < 0.45:
            tv = self.scalar_tv(r.choice(self.FIELD_SCALARS))
            if r.random() < 0.4:                      # the *T cases; a nil pointer is logged as null
                tv["ptr"] = True
                tv["nil"] = r.random() < 0.3
            return tv
        if x < 0.75:
            t = r.choice(self.FIELD_SLICES)
            et = t[2:]
            n = r.choice([0, 1, 2, 2, 3])
            self.opaque.append(kname)
            tv = {"t": t, "nil": n == 0 and r.random() < 0.5}
            if et == "string":
                tv["ss"] = [b64(self.bytes_()) for _ in range(n)]
            elif et == "bool":
                tv["bs"] = [r.random() < 0.5 for _ in range(n)]
            elif et in ("float32", "float64"):
                tv["xs"] = [(self.tv_f32() if et == "float32" else self.tv_f64())["x"] for _ in range(n)]
            elif et == "time":
                tv["is"] = [str(r.choice(TIMES)) for _ in range(n)]
            elif et == "dur":
                tv["is"] = [str(r.choice(DURS)) for _ in range(n)]
            else:
                lo, hi = INTS[et.capitalize()]
                tv["is"] = [str(r.choice(int_choices(lo, hi))) for _ in range(n)]
            return tv
        k = r.choice(self.FIELD_OTHER)
        if k == "[]byte":
            return {"t": "[]byte", "s": b64(self.bytes_()), "nil": r.random() < 0.1}
        if k == "nil":
            return {"t": "nil"}
        if k == "error":
            tv = dict({"t": "error", "s": b64(self.bytes_())}, **self.err_kind(kname))
            self.field_errs.append(tv)
            return tv
        if k == "ip":
            return {"t": "ip", "ip": list(r.choice(IPS_BIN if self.binary_safe else IPS))}
        if k == "mac":
            return {"t": "mac", "ip": list(r.choice(MACS_BIN if self.binary_safe else MACS))}
        if k == "ipnet":
            pip, pmask = r.choice(PREFIXES_BIN if self.binary_safe else PREFIXES)
            return {"t": "ipnet", "ip": pip, "mask": pmask}
        if k == "raw":
            raw = r.choice([b"1", b'"s"', b"null", b"true", b"-1.5e3", b"[1,2]", b"{}", b'[{"a":null}]', b'{"a":{"b":[]}}'])
            if raw[:1] in (b"[", b"{"):
                self.opaque.append(kname)
            return {"t": "raw", "s": b64(raw)}
        v = self.any_value()
        if v["t"] in ("struct", "map", "slice"):
            self.opaque.append(kname)
        return v

    def slice_op(self, kname, n, builder):
        r = self.r
        kinds = ["Strs", "Bools", "ints", "Floats32", "Floats64", "Times", "Durs"]
        if builder == "event":
            kinds.append("Stringers")
        k = r.choice(kinds)
        nil = n == 0 and r.random() < 0.5
        op = {"k": b64(kname)}
        if k == "ints":
            typ = r.choice(list(INTS))
            lo, hi = INTS[typ]
            op.update(m=SLICE_OF[typ], v={"t": "[]" + typ.lower(), "is": [str(r.choice(int_choices(lo, hi))) for _ in range(n)], "nil": nil})
        elif k == "Strs":
            op.update(m="Strs", v={"t": "[]string", "ss": [b64(self.bytes_()) for _ in range(n)], "nil": nil})
        elif k == "Stringers":
            op.update(m="Stringers", v={"t": "[]stringer", "ss": [b64(self.bytes_()) if r.random() < 0.8 else None for _ in range(n)], "nil": nil})
        elif k == "Bools":
            op.update(m="Bools", v={"t": "[]bool", "bs": [r.random() < 0.5 for _ in range(n)], "nil": nil})
        elif k == "Floats32":
            op.update(m="Floats32", v={"t": "[]float32", "xs": [f32bits(r.choice(F32)) for _ in range(n)], "nil": nil})
        elif k == "Floats64":
            op.update(m="Floats64", v={"t": "[]float64", "xs": [f64bits(r.choice(F64)) for _ in range(n)], "nil": nil})
        elif k == "Times":
            op.update(m="Times", v={"t": "[]time", "is": [str(r.choice(TIMES)) for _ in range(n)], "nil": nil})
        elif k == "Durs":
            op.update(m="Durs", v={"t": "[]dur", "is": [str(r.choice(DURS)) for _ in range(n)], "nil": nil})
        return op

    def sub_fields(self, kname, n):
        return [self.scalar_op(kname + "ab"[i], "event") for i in range(n)]

    def op(self, cls, kname, builder):
        """Concretise one operation class. Returns (list of ops, needs) where needs may name a stackMarshal setting."""
        r = self.r
        K = b64(kname)
        need = None
        if cls == "scalar":
            return [self.scalar_op(kname, builder)], need
        if cls == "nofield":
            c = r.randrange(6)
            if c == 0:
                return [{"m": "AnErr", "k": K, "v": {"t": "error", "nil": True}}], need
            if c == 1:
                return [{"m": "Err", "v": {"t": "error", "nil": True}}], need
            if c == 2:
                return [{"m": "Fields", "map": r.random() < 0.5, "kv": []}], need
            if c == 3:
                return [{"m": "Fields", "map": True, "kv": [], "nil": True}], need
            if c == 4:
                return [{"m": "Ctx", "n": 5}], need
            if builder == "event":
                return [{"m": "Func", "f": []}], need
            return [{"m": "AnErr", "k": K, "v": {"t": "error", "ek": "nilptr"}}], need
        if cls in ("dict0", "dict1", "dict2"):
            return [{"m": "Dict", "k": K, "f": self.sub_fields(kname, int(cls[-1]))}], need
        if cls in ("obj0", "obj2"):
            return [{"m": "Object", "k": K, "f": self.sub_fields(kname, int(cls[-1])), "cus": r.random() < 0.3, "tnil": r.random() < 0.2}], need
        if cls == "objnil":
            return [{"m": "Object", "k": K, "nil": True}], need
        if cls in ("embed0", "embed1", "embed2"):
            return [{"m": "EmbedObject", "f": self.sub_fields(kname, int(cls[-1])), "cus": r.random() < 0.3, "tnil": r.random() < 0.2}], need
        if cls == "embednil":
            return [{"m": "EmbedObject", "nil": True}], need
        if cls in ("arr0", "arr2", "arrobj"):
            n, m = {"arr0": (0, 0), "arr2": (2, 0), "arrobj": (1, 2)}[cls]
            elems = [self.scalar_op("", "array", keyed=False) for _ in range(n)]
            if m == 0:
                # Array.Err of an error that is a LogObjectMarshaler: the element is an object rendered by the error's own
                # marshaler - one value to the builder discipline (only in arrays without Dict / Object elements, whose
                # structure is NOT opaque)
                for el in elems:
                    if el.get("m") == "Err" and r.random() < 0.5:
                        if kname not in self.opaque_el:
                            self.opaque_el.append(kname)
                        self.errobj_n = getattr(self, "errobj_n", 0) + 1
                        el["v"].update({"ek": "obj", "f": [{"m": "Str", "k": b64("m%d_%d" % (self.errobj_n, i)), "v": self.tv_string()} for i in range(r.choice([0, 1, 1, 2]))]})
            for i in range(m):
                sub = [self.scalar_op(kname + "ab"[i], "event")]
                elems.append({"m": "Object", "f": sub} if r.random() < 0.5 else {"m": "Dict", "f": sub})
            return [{"m": "Array", "k": K, "e": elems, "cus": r.random() < 0.3}], need
        if cls in ("slice0", "slice2", "slice24", "slice256"):
            return [self.slice_op(kname, int(cls[5:]), builder)], need
        if cls in ("everrs0", "everrs2"):
            n = int(cls[-1])
            return [{"m": "Errs", "k": K, "v": dict({"t": "[]error", "ss": [b64(self.bytes_()) if r.random() < 0.8 else None for _ in range(n)], "nil": n == 0 and r.random() < 0.5},
                                                    **(self.err_kind(kname, elements=True) if n else {}))}], need
        if cls in ("ferrs0", "ferrs1", "ferrs2"):
            n = int(cls[-1])
            tv = {"t": "[]error", "ss": [b64(self.bytes_()) if r.random() < 0.8 else None for _ in range(n)], "nil": n == 0 and r.random() < 0.5}
            if n:
                tv.update(self.err_kind(kname, elements=True))
            return [{"m": "Fields", "map": r.random() < 0.5, "kv": [{"k": K, "v": tv}]}], need
        if cls in ("ferrstackNil", "ferrstackStr"):
            need = "nil" if cls.endswith("Nil") else "string"
            return [{"m": "Stack"}, {"m": "Fields", "map": r.random() < 0.5, "kv": [{"k": K, "v": {"t": "error", "s": b64(self.bytes_())}}]}], need
        if cls == "fields2":
            first = self.fields_value(kname + "a")
            if r.random() < 0.3:
                # a []error value FOLLOWED by another pair in the same list: what comes after an array-valued pair is still written
                first = {"t": "[]error", "ss": [b64(self.bytes_() or b"e") for _ in range(r.choice([1, 2, 3]))], "nil": False}
                self.opaque.append(kname + "a")      # one value to the layout model, whatever it contains
            return [{"m": "Fields", "map": r.random() < 0.5, "kv": [{"k": b64(kname + "a"), "v": first}, {"k": b64(kname + "b"), "v": self.fields_value(kname + "b")}],
                     "nil": False}], need
        if cls == "fieldsobj":
            return [{"m": "Fields", "map": r.random() < 0.5, "kv": [{"k": K, "v": {"t": "obj", "f": self.sub_fields(kname, 1)}}]}], need
        if cls == "func1":
            if builder == "event":
                return [{"m": "Func", "f": self.sub_fields(kname, 1)}], need
            return [{"m": "Fields", "map": False, "kv": [{"k": b64(kname + "a"), "v": self.fields_value(kname + "a")}]}], need
        if cls in ("errstackNil", "errstackStr", "errstackObj"):
            need = {"errstackNil": "nil", "errstackStr": "string", "errstackObj": "obj"}[cls]
            return [{"m": "Stack"}, {"m": "Err", "v": {"t": "error", "s": b64(self.bytes_())}}], need
        raise ValueError(cls)

    def program(self, pid, abs_prog, settings=None):
        """abs_prog: {lvl, with, msg, ctx:[classes], ev:[classes], hooks:[kinds]} -> (program, names) or None if not concretisable."""
        r = self.r
        needs = set()
        self.opaque = []
        self.opaque_el = []
        self.field_errs = []
        names = {"lvl": "level", "msg": "message", "ctx": [], "ev": [], "hooks": []}
        stack_on = False
        ctx_ops, ev_ops = [], []
        for phase, dst, builder in (("ctx", ctx_ops, "context"), ("ev", ev_ops, "event")):
            for i, cls in enumerate(abs_prog[phase]):
                kname = "%s%d" % (phase[0], i + 1)
                if cls.startswith("errstack"):
                    kname = "error"
                if stack_on and cls in ("scalar", "nofield") and False:
                    pass
                nasty = cls == "scalar" and r.random() < 0.25
                if nasty:
                    # arbitrary bytes in member names; the lexer reports such a name as "?"
                    kname = r.choice([b'q"k', b"\n", b"\x00k", b"\xffk", b"\xc3\xa9", b"k\\\x7f", b"\xe2\x80\xa8", b"\xf0\x9f\x98\x80", b"\xed\xa0\x80"])
                    if not any(c >= 0x7f or c < 0x20 for c in kname):
                        kname = kname + b"\x01"
                ops, need = self.op(cls, kname, builder)
                if nasty:
                    self.opaque = [("?" if isinstance(o, bytes) else o) for o in self.opaque]
                    self.opaque_el = [("?" if isinstance(o, bytes) else o) for o in self.opaque_el]
                    kname = "?"
                if need:
                    needs.add(need)
                    stack_on = True
                # once Stack() is on, Err()/Fields(error) elsewhere would add stack fields the abstract program does not have
                if stack_on:
                    for o in ops:
                        if o.get("m") == "Err" and not cls.startswith("errstack"):
                            o["m"], o["k"] = "AnErr", b64(kname)
                names[phase].append(kname)
                dst.extend(ops)
        if needs:
            # Stack() is on somewhere in the program: an error value in Fields would add a stack member the abstract
            # program does not have (that combination is the ferrstack* classes) - log those values as strings instead
            for tv in self.field_errs:
                for k in ("ek", "f"):
                    tv.pop(k, None)
                tv["t"] = "string"
        if len(needs) > 1:
            return None
        st = dict(settings or {})
        if not abs_prog["lvl"] and r.random() < 0.4:
            st["levelField"] = ""            # a levelled event without level field
        if r.random() < 0.15:
            st["messageField"] = 'm"s\ng'
            names["msg"] = "?"
        if r.random() < 0.3:
            st["timeFormat"] = r.choice(["", "UNIXMS", "UNIXMICRO", "UNIXNANO", "2006-01-02T15:04:05.999999999Z07:00", "Jan _2 15:04:05"])
        if st.get("timeFormat") not in ("UNIXMS", "UNIXMICRO", "UNIXNANO") and r.random() < 0.5:
            # swap some of the program's instants for far ones (see FAR_TIMES)
            def far(x):
                if isinstance(x, dict):
                    if x.get("t") == "time" and "i" in x and r.random() < 0.4:
                        x["i"] = str(r.choice(FAR_TIMES))
                    elif x.get("t") == "[]time" and x.get("is") and r.random() < 0.4:
                        x["is"][r.randrange(len(x["is"]))] = str(r.choice(FAR_TIMES))
                    for v in x.values():
                        far(v)
                elif isinstance(x, list):
                    for v in x:
                        far(v)
            far(ctx_ops)
            far(ev_ops)
        if r.random() < 0.3:
            st["durInt"] = True
        if r.random() < 0.3:
            st["durUnit"] = r.choice([1, 1000, 1000000000])
        if not self.binary_safe and not st.get("durInt") and r.random() < 0.06:
            # an unset unit (a configuration value that was never filled in): every float duration is +Inf, -Inf or NaN, which
            # the JSON build writes as strings - still one well-formed object (integer durations would divide by zero: not used)
            st["durUnit"] = 0
        if r.random() < 0.3:
            st["floatPrec"] = r.choice([0, 3, 12])
        if r.random() < 0.2:
            st["errMarshal"] = "string"
        if r.random() < 0.2:
            st["levelMarshal"] = r.choice(["tag", "dropinfo"])
        if r.random() < 0.15:
            st["ifaceMarshal"] = "sprint"
        needs_stack = bool(needs)
        if needs:
            st["stackMarshal"] = needs.pop()
        derive = []
        if abs_prog["with"]:
            # the context fields reach the logger through With()...Logger(), or partly through UpdateContext on that
            # logger - also while its level is Disabled (Level() is not monotonic along a chain: a later Level() re-enables
            # it) - with Level / Output steps in between: none of these may drop, duplicate or reorder a context field
            x = r.random()
            if x < 0.6:
                derive.append({"with": ctx_ops, "isWith": True})
            else:
                cut = r.randrange(0, len(ctx_ops) + 1)
                derive.append({"with": ctx_ops[:cut], "isWith": True})
                disabled = r.random() < 0.5
                if disabled:
                    derive.append({"level": 7})
                elif r.random() < 0.3:
                    derive.append({"level": 1})
                if r.random() < 0.3:
                    derive.append({"output": True})
                if cut < len(ctx_ops) or r.random() < 0.5:
                    derive.append({"update": ctx_ops[cut:], "isUpd": True})
                if disabled:
                    derive.append({"level": r.choice([-1, 0, 1])})
                if r.random() < 0.2:
                    derive.append({"output": True})
        # an ErrorMarshalFunc that yields nil: Err / AnErr then add no field at all (the abstract program has one), so this
        # setting is used only by programs whose errors travel through Fields() / Errs(), where nil is rendered as null
        def has_err_method(x):
            if isinstance(x, dict):
                return x.get("m") in ("Err", "AnErr") or any(has_err_method(v) for v in x.values())
            if isinstance(x, list):
                return any(has_err_method(v) for v in x)
            return False
        if "errMarshal" not in st and not needs_stack and r.random() < 0.15 and not has_err_method(ctx_ops) and not has_err_method(ev_ops):
            st["errMarshal"] = "nil"
        hooks = []
        for j, hk in enumerate(abs_prog["hooks"]):
            if hk in ("ts", "caller"):
                # the library's own hooks: With().Timestamp() / With().Caller(); the field appears at hook position
                names["hooks"].append("time" if hk == "ts" else "caller")
                derive.append({"with": [{"m": "Timestamp" if hk == "ts" else "Caller"}], "isWith": True})
                continue
            hname = "h%d" % (j + 1)
            names["hooks"].append(hname)
            derive.append({"hook": {"id": j + 1, "kind": hk, "k": b64(hname)}})
        prog = {"id": pid, "set": st, "derive": derive, "level": 1 if (abs_prog["lvl"] or st.get("levelField") == "") else 6, "ev": ev_ops,
                "fin": r.choice(["Msg", "Msgf", "Msgf0", "MsgFunc"]) if abs_prog["msg"] else r.choice(["Send", "Msg"]),
                "msg": b64(self.bytes_() or b"m") if abs_prog["msg"] else "",
                "abs": {"p": abs_prog, "n": names}, "opaque": sorted(set(self.opaque)), "opaqueel": sorted(set(self.opaque_el))}
        if abs_prog["msg"] and prog["msg"] == "":
            prog["msg"] = b64("m")
        if prog["fin"] == "Msgf0":
            # Msgf without operands: the message carries per cent signs, which the player doubles in the format it passes
            prog["msg"] = b64(r.choice([b"100% done", b"%d of %s", b"%", b"50%% off", b"a%"]) + (self.bytes_()[:40] if r.random() < 0.5 else b""))
        prog["abs"]["level"] = prog["level"]
        return prog
