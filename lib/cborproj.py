"""Projection functions for the CBOR properties (C08, C09): independent comparisons between
(a) the item tree an independent decoder found in the binary output and the arguments of the program,
(b) the JSON the bundled decoder produced and the JSON build's output for the same program.
Everything here is ordinary arithmetic on parsed values (fractions, struct, datetime); none of it is
zerolog code. It is part of the trusted base."""
import base64
import json
import math
import struct
from datetime import datetime, timezone, timedelta
from decimal import Decimal
from fractions import Fraction


def b64d(s):
    return base64.b64decode(s) if s else b""


def plain_name(bs):
    """The name as the lexers report it: the text if plain printable ASCII without escapes, else '?'."""
    if any(c < 0x20 or c >= 0x7f for c in bs):
        return "?"
    return bs.decode("ascii")


def ikeys(item, depth=0, out=None, opaque=()):
    """Pre-order [depth, name] of the text-string keys of maps (tag content is not descended into; nor is the value
    of a top-level member listed in `opaque`: it is one value to the builder discipline, as in the JSON projection)."""
    if out is None:
        out = []
    if item is None:
        return out
    m = item["m"]
    kids = item.get("items") or []
    if m == 5:
        for i in range(0, len(kids) - 1, 2):
            k, v = kids[i], kids[i + 1]
            name = plain_name(bytes.fromhex(k.get("hex", ""))) if k["m"] == 3 else "?"
            out.append([depth, name])
            if name not in opaque:
                ikeys(v, depth + 1, out, opaque)
    elif m == 4:
        for k in kids:
            ikeys(k, depth + 1, out, opaque)
    return out


def walk_ops(ops, out):
    for op in ops or []:
        if "k" in op and op.get("m") not in ("Dict", "Object", "Array"):
            out.setdefault(plain_name(b64d(op["k"])), []).append(op)
        for sub in ("f", "e"):
            if op.get(sub):
                walk_ops(op[sub], out)
        for kv in op.get("kv") or []:
            out.setdefault(plain_name(b64d(kv["k"])), []).append({"m": "Fields", "v": kv["v"]})
            if kv["v"].get("f"):
                walk_ops(kv["v"]["f"], out)
    return out


def ops_by_key(prog):
    out = {}
    for st in prog.get("derive") or []:
        walk_ops(st.get("with"), out)
        walk_ops(st.get("update"), out)
    walk_ops(prog.get("ev"), out)
    return {k: v[0] for k, v in out.items() if len(v) == 1 and k != "?"}


def find_values(item, out, depth=0):
    """name -> value item for every map member (first occurrence)."""
    if item is None:
        return out
    kids = item.get("items") or []
    if item["m"] == 5:
        for i in range(0, len(kids) - 1, 2):
            k, v = kids[i], kids[i + 1]
            if k["m"] == 3:
                out.setdefault(plain_name(bytes.fromhex(k.get("hex", ""))), v)
            find_values(v, out, depth + 1)
    elif item["m"] == 4:
        for k in kids:
            find_values(k, out, depth + 1)
    return out


def f64_of_bits(x):
    return struct.unpack(">d", struct.pack(">Q", int(x, 16)))[0]


def f32_of_bits(x):
    return struct.unpack(">f", struct.pack(">I", int(x, 16)))[0]


def int_ok(it, n):
    return it["m"] in (0, 1) and it.get("u") == str(n)


def float_item(it):
    if it["m"] == 7 and it.get("bits"):
        b = it["bits"]
        return f32_of_bits(b) if len(b) == 10 else (f64_of_bits(b) if len(b) == 18 else None)
    return None


def same_float(a, b):
    return (math.isnan(a) and math.isnan(b)) or a == b


def check_scalar(op, it, settings):
    """True iff item `it` is the documented CBOR representation of the argument of op (None: not checked)."""
    m = op["m"]
    v = dict(op.get("v") or {})
    if v.get("nil") and v.get("t") == "[]byte":
        v["s"] = ""                                  # a nil slice is logged as an empty string
    if m == "Fields":
        t = v.get("t", "")
        if v.get("ptr"):
            if v.get("nil"):
                return it["m"] == 7 and it.get("u") == "22"
        m = {"string": "Str", "bool": "Bool", "float32": "Float32", "float64": "Float64", "time": "Time", "dur": "Dur", "[]byte": "Bytes", "nil": "Nil"}.get(t)
        if t in ("int", "int8", "int16", "int32", "int64", "uint", "uint8", "uint16", "uint32", "uint64"):
            m = "Int"
        if m is None:
            return None
    if m in ("Int", "Int8", "Int16", "Int32", "Int64", "Uint", "Uint8", "Uint16", "Uint32", "Uint64"):
        return int_ok(it, int(v["i"]))                                  # exact over the full range, major type by sign
    if m == "Str":
        return it["m"] == 3 and bytes.fromhex(it.get("hex", "")) == b64d(v.get("s"))
    if m == "Bytes":
        return it["m"] == 2 and bytes.fromhex(it.get("hex", "")) == b64d(v.get("s"))
    if m == "Hex":
        return it["m"] == 6 and it.get("u") == "263" and it["items"][0]["m"] == 2 and bytes.fromhex(it["items"][0].get("hex", "")) == b64d(v.get("s"))
    if m == "RawJSON":
        return it["m"] == 6 and it.get("u") == "262" and bytes.fromhex(it["items"][0].get("hex", "")) == b64d(v.get("s"))
    if m == "RawCBOR":
        return it["m"] == 6 and it.get("u") == "63" and bytes.fromhex(it["items"][0].get("hex", "")) == b64d(v.get("s"))
    if m == "Bool":
        return it["m"] == 7 and it.get("u") == ("21" if v.get("b") else "20")
    if m == "Nil":
        return it["m"] == 7 and it.get("u") == "22"
    if m == "Float32":
        f = float_item(it)
        return f is not None and len(it["bits"]) == 10 and same_float(f, f32_of_bits(v["x"]))   # bit-exact float32
    if m == "Float64":
        f = float_item(it)
        return f is not None and len(it["bits"]) == 18 and same_float(f, f64_of_bits(v["x"]))
    if m == "Time":
        if it["m"] != 6 or it.get("u") != "1":
            return False
        ns = int(v["i"])
        secs, nanos = divmod(ns, 10**9)
        c = it["items"][0]
        if nanos == 0:
            return int_ok(c, secs)
        f = float_item(c)
        return f is not None and abs(Fraction(f) - Fraction(ns, 10**9)) <= Fraction(1, 10**6)
    if m == "Dur":
        ns = int(v["i"])
        unit = settings.get("durUnit") or 10**6
        if settings.get("durInt"):
            q = abs(ns) // unit * (1 if ns >= 0 else -1)       # Go integer division truncates toward zero
            return int_ok(it, q)
        f = float_item(it)
        return f is not None and f == ns / unit
    if m in ("IPAddr", "MACAddr"):
        return it["m"] == 6 and it.get("u") == "260" and it["items"][0]["m"] == 2 and list(bytes.fromhex(it["items"][0].get("hex", ""))) == list(v.get("ip") or [])
    if m == "IPPrefix":
        # tag 261 around a map of one pair: the address bytes -> the prefix length as an UNSIGNED integer (0..128)
        if it["m"] != 6 or it.get("u") != "261":
            return False
        c = it["items"][0]
        kids = c.get("items") or []
        ones = sum(bin(b).count("1") for b in (v.get("mask") or []))
        return (c["m"] == 5 and len(kids) == 2 and kids[0]["m"] == 2 and list(bytes.fromhex(kids[0].get("hex", ""))) == list(v.get("ip") or [])
                and kids[1]["m"] == 0 and kids[1].get("u") == str(ones))
    return None


def valbad(prog, item):
    """Names of logged scalars whose item is not the documented representation of the argument."""
    if item is None:
        return []
    ops = ops_by_key(prog)
    vals = find_values(item, {})
    bad = []
    checked = 0
    st = prog.get("set") or {}
    for name, op in ops.items():
        if name not in vals:
            continue
        if st.get("errMarshal") and op["m"] in ("AnErr", "Err"):
            continue
        r = check_scalar(op, vals[name], st)
        if r is None:
            continue
        checked += 1
        if not r:
            bad.append(name)
    return bad, checked


# ---------------------------------------------------------------- C08: JSON build vs decoded binary

RFC3339 = "%Y-%m-%dT%H:%M:%S"


def parse_rfc3339(s):
    """-> integer nanoseconds since the epoch (exact), or None."""
    try:
        main, rest = s[:19], s[19:]
        dt = datetime.strptime(main, RFC3339).replace(tzinfo=timezone.utc)
        frac = 0
        if rest.startswith("."):
            j = 1
            while j < len(rest) and rest[j].isdigit():
                j += 1
            digits = rest[1:j]
            frac = int((digits + "000000000")[:9])
            rest = rest[j:]
        off = 0
        if rest and rest != "Z":
            sign = 1 if rest[0] == "+" else -1
            hh, mm = rest[1:].split(":")
            off = sign * (int(hh) * 3600 + int(mm) * 60)
        secs = int((dt - datetime(1970, 1, 1, tzinfo=timezone.utc)).total_seconds()) - off
        return secs * 10**9 + frac
    except Exception:
        return None


def json_time_instant(v, fmt):
    """The JSON build's rendering of a time under TimeFieldFormat fmt -> (instant ns, resolution ns)."""
    if fmt in ("", None) and isinstance(v, (int, Decimal, float)):
        return int(Decimal(str(v)) * 10**9), 10**9
    if fmt == "UNIXMS":
        return int(Decimal(str(v)) * 10**6), 10**6
    if fmt == "UNIXMICRO":
        return int(Decimal(str(v)) * 10**3), 10**3
    if fmt == "UNIXNANO":
        return int(Decimal(str(v))), 1
    if isinstance(v, str):
        ns = parse_rfc3339(v)
        res = 10**9
        if "." in v[19:]:
            res = 1
        return ns, res
    return None, None


def num_eq(a, b, f32):
    """JSON numbers (Decimal) equal as values: exactly, or as the same float64 / float32."""
    if a == b:
        return True
    try:
        fa, fb = float(a), float(b)
    except Exception:
        return False
    if fa == fb:
        return True
    if f32:
        return struct.pack(">f", fa) == struct.pack(">f", fb)
    return False


def hint_of(op):
    if not op:
        return ""
    m = op.get("m", "")
    if m == "Fields":
        t = (op.get("v") or {}).get("t", "")
        return {"time": "Time", "float32": "Float32", "[]time": "Times", "[]float32": "Floats32"}.get(t, "")
    return m


# what harness/prog sets TimestampFunc to (prog.FixedTime = 2001-02-03T04:05:06.123456789Z)
FIXED_TIME_NS = 981173106123456789


def jcompare(j, d, m, types, st, path, out, sigs):
    """j: JSON build value, d: decoded binary value, m: method that logged it (type hint).
    Appends differing paths to out."""
    if m == "" and isinstance(d, str) and len(d) >= 20 and parse_rfc3339(d) is not None and j != d and not isinstance(j, (dict, list, bool)) and j is not None:
        m = "Time"      # keyless array element logged with Array.Time: the binary build always renders times as RFC 3339
    if m in ("Time", "Timestamp") and (j is None or d is None):
        if j is not d:                              # a nil *time.Time is null in both builds
            out.append(path)
        return
    if m in ("Time", "Timestamp"):
        fmt = st.get("timeFormat", "2006-01-02T15:04:05Z07:00")
        if fmt not in ("", "UNIXMS", "UNIXMICRO", "UNIXNANO", "2006-01-02T15:04:05Z07:00", "2006-01-02T15:04:05.999999999Z07:00"):
            return                                  # exotic layouts are not parsed back by this projection
        ji, res = json_time_instant(j, fmt)
        di = parse_rfc3339(d) if isinstance(d, str) else None
        if ji is None or di is None:
            out.append(path)
            return
        if abs(ji - di) <= 1000:
            return
        # CoarseJsonTimeSig: the JSON layout is coarser than 1 us and the JSON instant is the CBOR instant truncated to it
        # (the binary instant itself is within 1 us of the logged one, hence the margins). Where the logged instant is
        # known (a keyed Time / Timestamp field), the signature also requires that the decoded binary instant IS the
        # logged one within 1 us: a decoder that shifts an instant by less than the layout's resolution is not this finding.
        arg = None
        op = types.get(path[-1]) if path else None
        if op and op.get("m") in ("Time", "Fields") and isinstance(op.get("v"), dict) and op["v"].get("t") == "time" and "i" in op["v"]:
            arg = int(op["v"]["i"])
        elif path and path[-1] == "time" and (op or {}).get("m") == "Timestamp":
            arg = FIXED_TIME_NS
        if res > 1000 and -1000 <= di - ji < res + 1000 and (arg is None or abs(di - arg) <= 1000):
            sigs.add("CoarseJsonTimeSig")
        out.append(path)
        return
    if isinstance(j, dict) and isinstance(d, dict):
        if list(j.keys()) != list(d.keys()):
            out.append(path + ["<keys>"])
            return
        for k in j:
            jcompare(j[k], d[k], hint_of(types.get(k)), types, st, path + [k], out, sigs)
        return
    if isinstance(j, list) and isinstance(d, list):
        if len(j) != len(d):
            out.append(path + ["<len>"])
            return
        em = {"Times": "Time", "Floats32": "Float32"}.get(m, "")
        for i, (a, b) in enumerate(zip(j, d)):
            jcompare(a, b, em, types, st, path + [str(i)], out, sigs)
        return
    if isinstance(j, Decimal) and isinstance(d, Decimal):
        if not num_eq(j, d, m == "Float32"):
            out.append(path)
        return
    if type(j) != type(d) or j != d:
        out.append(path)


def parse_json(bs):
    return json.loads(bs, parse_float=Decimal, parse_int=Decimal, object_pairs_hook=lambda kv: dict_keep(kv))


def dict_keep(kv):
    d = {}
    for k, v in kv:
        d[k] = v          # duplicate names: last wins on both sides alike
    return d


def jdiff(prog, json_out, dec_out):
    """Paths at which the JSON build's line and the decoded binary line carry different values."""
    try:
        j = parse_json(json_out)
        d = parse_json(dec_out)
    except Exception as e:
        return [["<unparsable: %s>" % str(e)[:60]]], set()
    out, sigs = [], set()
    types = ops_by_key(prog)
    if "time" not in types:
        types["time"] = {"m": "Timestamp"}        # Event.Timestamp() / Context.Timestamp() use the fixed name
    jcompare(j, d, "", types, prog.get("set") or {}, [], out, sigs)
    return out, sigs
