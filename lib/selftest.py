"""Self-test of the binding between recordings and trace specifications.

`bin/selftest` runs a normal check with VERIF_SELFTEST="<TraceModule>:<rule>:<flagfile>". Just before
the recording is handed to TLC, exactly one recorded event of a recording the real code produced is
corrupted by the named rule (one field changed, or one event dropped). The trace specification must
reject it: the check has to end with exit 1 and a VIOLATION line. A rule that cannot be applied to
anything in the run leaves no flag file and counts as "not exercised".

Rules are deliberately small: each one says "if the implementation had produced THIS instead, the
property would be broken", so each is also a statement of what the trace spec is sensitive to.
"""
import copy
import json
import os

DROP = "DROP"


def _flip(field):
    def f(e):
        if field in e and isinstance(e[field], bool):
            e[field] = not e[field]
            return e
    return f


def _setf(field, value, only=None):
    def f(e):
        if field in e and e[field] != value and (only is None or only(e)):
            e[field] = value
            return e
    return f


def _add(field, delta):
    def f(e):
        if field in e and isinstance(e[field], int) and not isinstance(e[field], bool):
            e[field] += delta
            return e
    return f


def _droplast(field, minlen=1):
    def f(e):
        if isinstance(e.get(field), list) and len(e[field]) >= minlen:
            e[field] = e[field][:-1]
            return e
    return f


def _swap2(field):
    def f(e):
        x = e.get(field)
        if isinstance(x, list) and len(x) >= 2 and x[0] != x[1]:
            x[0], x[1] = x[1], x[0]
            return e
    return f


def _drop(e):
    return DROP


def _multi_handled(e):
    e["handled"] = list(e.get("handled", [])) + ["extra"]
    return e


def _multi_bytes(e):
    if e.get("got"):
        e["got"][0][3] = 0
        return e


def _trig_out(e):
    if e.get("out"):
        e["out"] = e["out"][:-1]
    else:
        e["out"] = [[0, 1]]
    return e


def _cube(e):
    w = e.get("written")
    if w:
        e["written"] = [[w[0][0], w[0][1] - 1]] + w[1:]
    else:
        e["written"] = [[-128, -128]]
    return e


def _tokens_unclosed(e):
    t = e.get("tokens")
    if e.get("nw") == 1 and isinstance(t, list) and "}" in t:
        i = len(t) - 1 - t[::-1].index("}")
        e["tokens"] = t[:i] + t[i + 1:]
        return e


def _value_raw(e):
    x = e.get("entries")
    if e.get("ttype") != "NilErr" and isinstance(x, list) and len(x) >= 2:
        x[0]["raw"] = x[0]["raw"] + " "
        return e


def _value_ok(e):
    x = e.get("entries")
    if e.get("ttype") != "NilErr" and isinstance(x, list) and x and x[-1].get("ok"):
        x[-1]["ok"] = False
        return e


def _value_entry_missing(e):
    x = e.get("entries")
    if isinstance(x, list) and len(x) >= 2:
        e["entries"] = x[:-1]
        return e


def _heads_nobreak(e):
    h = e.get("heads")
    if e.get("nw") == 1 and isinstance(h, list) and h and h[-1][0] == "BRK":
        e["heads"] = h[:-1]
        return e


def _jdiff(e):
    if e.get("nw") == 1 and e.get("jdiff") == []:
        e["jdiff"] = ["x: 1 != 2"]
        return e


def _valbad(e):
    if e.get("nw") == 1 and e.get("valbad") == []:
        e["valbad"] = ["Int x: 1 != 2"]
        return e


def _hlog_got(e):
    g = e.get("got")
    if g:
        g[-1][1] = str(g[-1][1]) + "x"
        return e


def _console_fields(e):
    g = e.get("gotfields")
    if isinstance(g, list) and len(g) >= 1:
        e["gotfields"] = g[:-1]
        return e


def _console_parts(e):
    g = e.get("gotparts")
    if isinstance(g, list) and len(g) >= 2:
        e["gotparts"] = [g[1], g[0]] + g[2:]
        return e


def _tree_fields(e):
    f = e.get("fields")
    if isinstance(f, list):
        e["fields"] = f[:-1] if f else [99]
        return e


def _tree_hooks(e):
    h = e.get("hooks")
    if isinstance(h, list):
        e["hooks"] = h + [h[-1] if h else 99]
        return e


# module -> { rule name -> (event type or None, function, property ids that must report it) }
RULES = {
    "DiodeContractTrace": {
        "delivered-bytes-not-written": ("DStart", _setf("m", 987654), ["C10"]),
        "bytes-changed-during-write": ("DEnd", _setf("stable", False), ["C10"]),
        "alert-exceeds-claimed": ("Alert", _add("n", 100000), ["C10"]),
        "close-without-closing-writer": ("CloseRet", _setf("wclosed", False), ["C11"]),
        "delivery-lost-before-close": ("DStart+DEnd", None, ["C11"]),
        "write-error": ("WRet", _setf("err", True), ["C10"]),
    },
    "SamplerTrace": {
        "sample-return-flipped": ("Call", _flip("adm"), ["C13"]),
        "written-flipped": ("Log", _flip("adm"), ["C13"]),
    },
    "BasicConcTrace": {
        "bulk-total-off-by-one": ("Bulk", _add("admitted", 1), ["C13"]),
        "call-start-missing": ("CStart", _drop, ["C13"]),
    },
    "MultiTrace": {
        "error-handler-extra-call": ("Ev", _multi_handled, ["C14"]),
        "destination-bytes-differ": ("Ev", _multi_bytes, ["C14"]),
        "destination-skipped": ("Ev", _droplast("got"), ["C14"]),
    },
    "TriggerTrace": {
        "write-output-differs": ("W", _trig_out, ["C15"]),
        "trigger-output-differs": ("T", _trig_out, ["C15"]),
    },
    "TriggerConcTrace": {
        "destination-line-missing": ("Dest", _drop, ["C15"]),
    },
    "LevelGateTrace": {
        "cube-interval-short": ("Cube", _cube, ["C04"]),
        "entry-written-flipped": ("Entry", _flip("written"), ["C04"]),
        "level-text": ("Text", lambda e: dict(e, str=e["str"] + "x"), ["C04"]),
        "nil-event-called-user-code": ("Nil", _add("calls", 1), ["C04"]),
    },
    "EventDocTrace": {
        "object-not-closed": (None, _tokens_unclosed, ["C01"]),
        "newline-missing": (None, lambda e: (e["raw"].__setitem__("nl", False) or e) if e.get("nw") == 1 and e.get("raw", {}).get("nl") else None, ["C01"]),
        "keys-swapped": (None, _swap2("ckeys"), ["C03"]),
        "hook-not-run": (None, _droplast("hooks"), ["C03"]),
    },
    "LoggerTreeTrace": {
        "context-field-lost-or-gained": ("Emit", _tree_fields, ["C05"]),
        "hook-run-twice": ("Emit", _tree_hooks, ["C05", "C03"]),
        "wrong-destination": ("Emit", _add("dest", 1), ["C05"]),
    },
    "LogConcTrace": {
        "bytes-mixed": ("WStart", _setf("intact", False), ["C06"]),
        "bytes-changed-during-write": ("WEnd", _setf("stable", False), ["C06"]),
        "event-never-written": ("WStart+WEnd", None, ["C06"]),
    },
    "AllocChainTrace": {
        "one-allocation": (None, lambda e: _add("allocs", 1)(e) if e.get("kind") != "pool" else None, ["C07"]),
        "pool-get-without-put": (None, lambda e: _add("gets", 1)(e) if e.get("kind") == "pool" else None, ["C07"]),
        "second-write": (None, _add("writes_per_run", 1), ["C07"]),
    },
    "ValueDocTrace": {
        "entry-points-disagree": ("Val", _value_raw, ["C02"]),
        "does-not-decode-back": ("Val", _value_ok, ["C02"]),
        "entry-point-not-exercised": ("Val", _value_entry_missing, ["C02"]),
    },
    "CborTrace": {
        "break-missing": (None, _heads_nobreak, ["C09"]),
        "key-lost": (None, _droplast("ikeys"), ["C09"]),
        "value-representation": (None, _valbad, ["C09"]),
        "decoded-value-differs": (None, _jdiff, ["C08"]),
        # (a record that already carries a known-finding signature is reported as that finding: pick a clean one)
        "decoded-key-lost": (None, lambda e: _droplast("dkeys")(e) if e.get("nw") == 1 and not e.get("sig") and e.get("jdiff") == [] else None, ["C08"]),
        "stream-line-lost": ("Stream", _add("lines", -1), ["C08"]),
    },
    "CborStream": {
        "decoder-panicked": ("Dec", _setf("outcome", "panic"), ["C17"]),
        "allocation-out-of-proportion": ("Dec", _add("alloc", 1 << 30), ["C17"]),
        "prefix-changes-earlier-event": ("Cut", _setf("same", False), ["C17"]),
        "truncation-not-reported": ("Cut", lambda e: _setf("outcome", "ok")(e) if e.get("outcome") == "err" else None, ["C17"]),
    },
    "ConsoleTrace": {
        "field-lost": ("Case", _console_fields, ["C16"]),
        "parts-out-of-order": ("Case", _console_parts, ["C16"]),
        "short-count": (None, _add("n", -1), ["C16"]),
    },
    "HlogTrace": {
        "foreign-value-in-request-event": ("Req", _hlog_got, ["C18"]),
        "base-logger-changed": ("Base", lambda e: dict(e, got=e["got"] + [["k", "v"]]), ["C18"]),
    },
    "RespProxyTrace": {
        "status-not-first-header": ("Seq", _add("status", 1), ["C18"]),
        "size-off": ("Seq", _add("size", 1), ["C18"]),
    },
    "CallerTrace": {
        "wrong-line": ("Site", lambda e: dict(e, got=e["got"] + "1"), ["C19"]),
    },
}


def _etype(e):
    return e.get("a", e.get("t"))


def apply(spec, module, lines):
    """spec = 'Module:rule:flagfile'. Returns (lines, dropped): the possibly corrupted list of lines and the
    0-based indices (in the ORIGINAL list) of the lines that were removed."""
    try:
        mod, rule, flag = spec.split(":", 2)
    except ValueError:
        return lines, []
    if mod != module or os.path.exists(flag):
        return lines, []
    et, fn, _ = RULES[mod][rule]
    evs = [json.loads(x) if isinstance(x, str) else copy.deepcopy(x) for x in lines]
    n = len(evs)
    order = list(range(n // 2, n)) + list(range(0, n // 2))   # prefer an event in the middle of the run
    out, dropped = None, []
    if fn is None:
        # pair rules "A+B": drop one A and the B that follows it (same recording)
        a, b = et.split("+")
        for i in order:
            if _etype(evs[i]) == a:
                j = next((k for k in range(i + 1, n) if _etype(evs[k]) in (b, "Reset")), None)
                if j is not None and _etype(evs[j]) == b:
                    # only meaningful if the recording goes on to a point where the loss is observable
                    tail = [_etype(evs[k]) for k in range(j + 1, n)]
                    stop = tail.index("Reset") if "Reset" in tail else len(tail)
                    if mod == "DiodeContractTrace" and evs[_rec_range(evs, i)[0]].get("noalert"):
                        continue        # no alerter, no accounting: a lost delivery is not observable in such a recording
                    if mod == "DiodeContractTrace" and "DStart" in tail[:stop]:
                        continue        # a later delivery out of order is rejected at that DStart, which C10 owns: take the LAST delivery
                    if mod == "DiodeContractTrace" and not ("CloseRet" in tail[:stop] and "Alert" not in [_etype(evs[k]) for k in _rec_range(evs, i)] and "Collision" not in [_etype(evs[k]) for k in _rec_range(evs, i)]):
                        continue
                    out = evs[:i] + evs[i + 1:j] + evs[j + 1:]
                    dropped = [i, j]
                    what = {"dropped": [evs[i], evs[j]], "line": i + 1, "recording": [evs[k] for k in _rec_range(evs, i)] if os.environ.get("VERIF_SELFTEST_DEBUG") else None}
                    break
    else:
        for i in order:
            e = evs[i]
            if _etype(e) == "Reset" or (et is not None and _etype(e) != et):
                continue
            before = copy.deepcopy(e)
            r = fn(e)
            if r is None:
                evs[i] = before
                continue
            if r == DROP:
                out = evs[:i] + evs[i + 1:]
                dropped = [i]
            else:
                evs[i] = r
                out = evs
            what = {"line": i + 1, "before": before, "after": None if r == DROP else r}
            break
    if out is None:
        return lines, []
    try:
        fd = os.open(flag, os.O_CREAT | os.O_EXCL | os.O_WRONLY)
    except FileExistsError:
        return lines, []
    with os.fdopen(fd, "w") as f:
        json.dump({"module": mod, "rule": rule, **what}, f, default=str)
    return [json.dumps(x) for x in out], dropped


def _rec_range(evs, i):
    s = i
    while s > 0 and _etype(evs[s]) != "Reset":
        s -= 1
    t = i
    while t < len(evs) and (t == s or _etype(evs[t]) != "Reset"):
        t += 1
    return range(s, t)
