"""Common machinery of the /verif checks: scratch dirs, TLC runs, overlay builds,
trace validation, known findings, evidence files. Standard library only."""
import json
import os
import re
import shutil
import subprocess
import sys
import tempfile
import time
import concurrent.futures as cf

VERIF = os.path.dirname(os.path.dirname(os.path.abspath(__file__)))
REPO = os.environ.get("VERIF_REPO", "/repo")
HARNESS = os.path.join(VERIF, "harness")
SPEC = os.path.join(VERIF, "spec")
EVID = os.environ.get("VERIF_EVIDENCE_DIR") or os.path.join(VERIF, "evidence")
NCPU = os.cpu_count() or 4


class Inconclusive(Exception):
    """Harness problem (build failure, timeout, dead driver): exit 2, never a violation."""


def log(*a):
    print(*a, file=sys.stderr, flush=True)


def go_env():
    e = dict(os.environ)
    e.update(GOFLAGS="-mod=mod", GOPROXY="off", GOSUMDB="off", GOTOOLCHAIN="local", CGO_ENABLED=e.get("CGO_ENABLED", "1"))
    return e


class Scratch:
    """A scratch directory outside /repo and /verif, removed on exit."""

    def __init__(self, tag):
        base = os.environ.get("VERIF_SCRATCH_BASE") or tempfile.gettempdir()
        self.dir = tempfile.mkdtemp(prefix="verif-%s-" % tag, dir=base)

    def path(self, *p):
        return os.path.join(self.dir, *p)

    def sub(self, name):
        d = self.path(name)
        os.makedirs(d, exist_ok=True)
        return d

    def __enter__(self):
        return self

    def __exit__(self, *a):
        if not os.environ.get("VERIF_KEEP"):
            shutil.rmtree(self.dir, ignore_errors=True)
        else:
            log("scratch kept:", self.dir)


def sync_gosum():
    """harness/go.sum is a copy of the repository's (no network)."""
    src = os.path.join(REPO, "go.sum")
    dst = os.path.join(HARNESS, "go.sum")
    try:
        a = open(src, "rb").read()
    except OSError:
        a = b""
    extra = os.path.join(HARNESS, "go.sum.extra")
    if os.path.exists(extra):
        a += open(extra, "rb").read()
    try:
        if open(dst, "rb").read() == a:
            return
    except OSError:
        pass
    tmp = dst + ".%d" % os.getpid()
    open(tmp, "wb").write(a)
    os.replace(tmp, dst)


def run(cmd, cwd=None, env=None, timeout=None, check=True, stdin=None):
    p = subprocess.run(cmd, cwd=cwd, env=env, timeout=timeout, stdout=subprocess.PIPE, stderr=subprocess.PIPE, input=stdin)
    if check and p.returncode != 0:
        raise Inconclusive("command failed (%d): %s\n%s\n%s" % (p.returncode, " ".join(cmd), p.stdout.decode(errors="replace")[-3000:], p.stderr.decode(errors="replace")[-3000:]))
    return p


_instrument_bin = None


def instrument_bin(scratch):
    global _instrument_bin
    if _instrument_bin is None:
        sync_gosum()
        out = scratch.path("instrument")
        run(["go", "build", "-o", out, "./cmd/instrument"], cwd=HARNESS, env=go_env(), timeout=600)
        _instrument_bin = out
    return _instrument_bin


def make_overlay(scratch, name, files, shims, inject):
    """Rewrite files of /repo's working tree into an overlay; returns overlay.json path."""
    out = scratch.sub("ov-" + name)
    cfg = {"repo": REPO, "out": out, "shimdir": os.path.join(HARNESS, "_shim"), "shims": shims, "files": files,
           "inject": [{"dest": d, "src": s} for d, s in inject]}
    cfgp = os.path.join(out, "cfg.json")
    json.dump(cfg, open(cfgp, "w"))
    run([instrument_bin(scratch), cfgp], timeout=120)
    return os.path.join(out, "overlay.json")


_alt_modfile = None


def alt_modfile():
    """VERIF_REPO=<dir> points the harness at another checkout of rs/zerolog (used to evaluate seeded changes in
    scratch worktrees without touching /repo): a copy of harness/go.mod with the replace directive redirected."""
    global _alt_modfile
    if REPO == "/repo":
        return []
    if _alt_modfile is None:
        d = tempfile.mkdtemp(prefix="verif-mod-")
        import atexit
        atexit.register(shutil.rmtree, d, True)
        mod = open(os.path.join(HARNESS, "go.mod")).read().replace("=> /repo", "=> " + REPO)
        open(os.path.join(d, "go.mod"), "w").write(mod)
        shutil.copy(os.path.join(HARNESS, "go.sum"), os.path.join(d, "go.sum"))
        _alt_modfile = os.path.join(d, "go.mod")
    return ["-modfile=" + _alt_modfile]


def go_build(pkg, out, overlay=None, tags=None, race=False, test=False, cwd=HARNESS, extra=None, goarch=None):
    sync_gosum()
    cmd = (["go", "test", "-c", "-vet=off"] if test else ["go", "build"]) + alt_modfile()
    if overlay:
        cmd += ["-overlay", overlay]
    if tags:
        cmd += ["-tags", tags]
    if race:
        cmd += ["-race"]
    if extra:
        cmd += extra
    cmd += ["-o", out, pkg]
    run(cmd, cwd=cwd, env=dict(go_env(), GOARCH=goarch, CGO_ENABLED="0") if goarch else go_env(), timeout=900)
    return out


# ---------------------------------------------------------------- TLC

TLC_JAR = "/opt/veriftools/tla/tla2tools.jar:/opt/veriftools/tla/CommunityModules-deps.jar"


class TlcResult:
    def __init__(self, out, rc, wall):
        self.out, self.rc, self.wall = out, rc, wall
        m = re.search(r"(\d+) states generated, (\d+) distinct states found", out)
        self.generated = int(m.group(1)) if m else 0
        self.distinct = int(m.group(2)) if m else 0
        m = re.search(r"depth of the complete state graph search is (\d+)", out)
        self.depth = int(m.group(1)) if m else 0
        self.violated = re.findall(r"Error: Invariant (\S+) is violated", out)
        self.temporal_violated = "Temporal properties were violated" in out
        self.completed = "Model checking completed. No error has been found." in out
        self.errors = [l for l in out.splitlines() if l.startswith("Error:")]

    def prints(self, tag):
        """PrintT("@@TAG|f1|f2...") lines (one TLA+ string each), returned as [TAG, f1, f2, ...]."""
        res = []
        pre = '"@@%s|' % tag
        for line in self.out.splitlines():
            if line.startswith(pre) and line.endswith('"'):
                body = parse_tla_tuple("<<" + line + ">>")[0]
                res.append(body[2:].split("|"))
        return res


def parse_tla_tuple(line):
    """<<"A", "str with \\" escapes", 12, TRUE>> -> python list (flat tuples of strings/ints/bools only)."""
    s = line.strip()
    assert s.startswith("<<") and s.endswith(">>"), s
    s = s[2:-2]
    out, i = [], 0
    while i < len(s):
        c = s[i]
        if c in " ,":
            i += 1
        elif c == '"':
            j = i + 1
            buf = []
            while s[j] != '"':
                if s[j] == "\\":
                    buf.append(s[j + 1])
                    j += 2
                else:
                    buf.append(s[j])
                    j += 1
            out.append("".join(buf))
            i = j + 1
        else:
            j = i
            while j < len(s) and s[j] not in " ,":
                j += 1
            tok = s[i:j]
            out.append(True if tok == "TRUE" else False if tok == "FALSE" else int(tok))
            i = j
    return out


def tlc(workdir, module, cfg_text, workers=None, simulate=None, depth=None, seed=None, timeout=900, extra=None, heap=None, cfg_name=None, coverage=False):
    """Run TLC on workdir/<module>.tla with the given cfg text. Returns TlcResult.
    exit codes: 0 ok, 12 safety violation, 13 liveness violation; others -> Inconclusive."""
    cfg_name = cfg_name or (module + "_%d.cfg" % (time.time_ns() % 10**9))
    cfgp = os.path.join(workdir, cfg_name)
    open(cfgp, "w").write(cfg_text)
    md = tempfile.mkdtemp(prefix="md-", dir=workdir)
    w = int(workers or 1)
    if w == 1:
        # many single-worker JVMs run side by side (trace validation, simulation): keep each one small
        cmd = ["java", "-XX:+UseSerialGC", "-XX:TieredStopAtLevel=4", "-XX:CICompilerCount=2", "-Xss512m", "-Xmx" + (heap or "4g")]
    else:
        cmd = ["java", "-XX:+UseParallelGC", "-XX:ParallelGCThreads=%d" % max(2, min(w, 8)), "-Xss512m"]
        if heap:
            cmd.append("-Xmx" + heap)
    cmd += ["-Djava.io.tmpdir=" + md, "-cp", TLC_JAR, "tlc2.TLC", "-metadir", md, "-config", cfgp, "-workers", str(workers or 1)]
    if simulate is not None:
        cmd += ["-simulate", "num=%d" % simulate]
        cmd += ["-depth", str(depth or 200)]
    if seed is not None:
        cmd += ["-seed", str(seed)]
    if coverage:
        cmd += ["-coverage", "1"]
    if extra:
        cmd += extra
    cmd.append(module + ".tla")
    t0 = time.time()
    try:
        p = subprocess.run(cmd, cwd=workdir, stdout=subprocess.PIPE, stderr=subprocess.STDOUT, timeout=timeout)
    except subprocess.TimeoutExpired:
        raise Inconclusive("TLC timeout after %ds: %s %s" % (timeout, module, cfg_name))
    finally:
        shutil.rmtree(md, ignore_errors=True)
    out = p.stdout.decode(errors="replace")
    r = TlcResult(out, p.returncode, time.time() - t0)
    if p.returncode not in (0, 12, 13):
        # simulation mode ends with 0 as well; anything else is a tool problem (parse error, OOM, ...)
        raise Inconclusive("TLC failed rc=%d on %s/%s:\n%s" % (p.returncode, module, cfg_name, out[-4000:]))
    return r


def copy_specs(family, workdir, also=()):
    for fam in (family,) + tuple(also):
        d = os.path.join(SPEC, fam)
        for f in os.listdir(d):
            if f.endswith(".tla"):
                shutil.copy(os.path.join(d, f), workdir)


def pool_map(fn, items, workers=None):
    workers = workers or max(1, NCPU // 2)
    with cf.ThreadPoolExecutor(max_workers=workers) as ex:
        return list(ex.map(fn, items))


# ---------------------------------------------------------------- trace validation

def validate_trace(workdir, trace_module, trace_file_name, lines, constants="", family=None, timeout=900, also=()):
    """Write `lines` (list of dicts or pre-serialised str) as ndjson named trace_file_name in a fresh
    subdir of workdir, run the trace spec (SPECIFICATION TSpec, INVARIANT Report), and return
    (bad_entries, nlines, TlcResult). bad entries are what the spec appended to `bad` (JSON)."""
    if os.environ.get("VERIF_SELFTEST"):
        import selftest
        norig = len(lines)
        lines, _dropped = selftest.apply(os.environ["VERIF_SELFTEST"], trace_module, lines)
        _keep = [i for i in range(norig) if i not in set(_dropped)] if _dropped else None
    else:
        _keep = None
    sub = tempfile.mkdtemp(prefix="tv-", dir=workdir)
    if family:
        copy_specs(family, sub, also)
    with open(os.path.join(sub, trace_file_name), "w") as f:
        for ln in lines:
            f.write(ln if isinstance(ln, str) else json.dumps(ln))
            f.write("\n")
    cfg = (("CONSTANTS\n" + constants + "\n") if constants else "") + "SPECIFICATION TSpec\nCHECK_DEADLOCK FALSE\nINVARIANT Report\n"
    r = tlc(sub, trace_module, cfg, workers=1, timeout=timeout)
    rep = r.prints("BADLINES")
    if not rep:
        raise Inconclusive("trace validation produced no report (%s):\n%s" % (trace_module, r.out[-3000:]))
    bad = json.loads(rep[-1][2])
    n = int(rep[-1][1])
    if n != len(lines):
        raise Inconclusive("trace validation read %d of %d lines" % (n, len(lines)))
    shutil.rmtree(sub, ignore_errors=True)
    if _keep is not None:
        # self-test only: lines were removed from the recording; report positions in the caller's numbering
        bad = [(_keep[x - 1] + 1) if isinstance(x, int) else [_keep[x[0] - 1] + 1] + list(x[1:]) for x in bad]
    return bad, n, r


# ---------------------------------------------------------------- known findings / verdicts / evidence

def known_findings():
    p = os.path.join(VERIF, "KNOWN_FINDINGS.jsonl")
    res = []
    if os.path.exists(p):
        for ln in open(p):
            ln = ln.strip()
            if ln and not ln.startswith("#"):
                res.append(json.loads(ln))
    return res


def known_signatures(pid):
    """signature -> entry, for entries of this property that are known (not fixed)."""
    return {k["signature"]: k for k in known_findings() if k.get("property") == pid and k.get("status") == "known"}


def save_replay(pid, name, obj):
    d = os.path.join(EVID, "replays")
    os.makedirs(d, exist_ok=True)
    p = os.path.join(d, "%s-%s.json" % (pid, name))
    with open(p, "w") as f:
        json.dump(obj, f, indent=1)
    return p


def write_evidence(pid, tier, seed, level, coverage, wall, violations, assumptions=()):
    os.makedirs(EVID, exist_ok=True)
    ev = {"property_id": pid, "tier": tier, "seed": int(seed), "level": level, "coverage": coverage,
          "assumptions": list(assumptions), "wall_s": round(wall, 2), "violations": int(violations)}
    tmp = os.path.join(EVID, ".%s.%d.tmp" % (pid, os.getpid()))
    with open(tmp, "w") as f:
        json.dump(ev, f, indent=1, default=str)
    os.replace(tmp, os.path.join(EVID, pid + ".json"))


class Verdict:
    def __init__(self, pid):
        self.pid = pid
        self.violations = []   # (what, replay_path)
        self.known = {}        # signature -> count
        self.notes = []
        d = os.path.join(EVID, "replays")
        if os.path.isdir(d):
            for f in os.listdir(d):
                if f.startswith(pid + "-"):
                    os.unlink(os.path.join(d, f))

    def violation(self, what, replay_obj, name=None):
        name = name or "v%d" % (len(self.violations) + 1)
        if len(self.violations) >= 20:
            self.violations.append((what, None))
            return
        path = save_replay(self.pid, name, replay_obj)
        self.violations.append((what, path))

    def known_finding(self, sig, what):
        self.known[sig] = (self.known.get(sig, (0, what))[0] + 1, what)

    def finish(self):
        for sig, (n, what) in sorted(self.known.items()):
            print("KNOWN-FINDING: property=%s %s [%s, seen %d times]" % (self.pid, what, sig, n))
        seen = set()
        if len(self.violations) > 20:
            log("%d violations in total; the first 20 are listed" % len(self.violations))
        for what, path in self.violations[:20]:
            print("VIOLATION property=%s replay=%s" % (self.pid, path))
            if os.environ.get("VERIF_VERBOSE"):
                log("  ", what)
        sys.stdout.flush()
        return 1 if self.violations else 0


def validate_sharded(workdir, module, fname, recs, shards, family, constants="", also=(), timeout=1800):
    """recs: list of recordings (each a list of ndjson strings starting with a Reset line).
    Validates them with the trace spec `module` in `shards` parallel TLC runs.
    Returns [(rec_index, line_index_in_rec, event_dict, signature)] for every recording that leaves the spec."""
    idx = list(range(len(recs)))
    shards = max(1, min(shards, len(recs)))
    chunks = [idx[i::shards] for i in range(shards)]

    def one(ch):
        if not ch:
            return []
        lines, owner = [], []
        for ri in ch:
            for k, ln in enumerate(recs[ri]):
                lines.append(ln)
                owner.append((ri, k))
        if os.environ.get("VERIF_SELFTEST"):
            import selftest
            lines, dropped = selftest.apply(os.environ["VERIF_SELFTEST"], module, lines)
            owner = [o for i, o in enumerate(owner) if i not in dropped]
        bad, n, r = validate_trace(workdir, module, fname, lines, constants=constants, family=family, also=also, timeout=timeout)
        out = []
        for b in bad:
            lno, sig = (b, "") if isinstance(b, int) else (b[0], b[1])
            ri, k = owner[lno - 1]
            out.append((ri, k, json.loads(lines[lno - 1]), sig))
        return out

    res = []
    for r in pool_map(one, chunks, workers=min(shards, NCPU)):
        res.extend(r)
    return res


def split_recordings(path, reset_marker='"a":"Reset"'):
    """Split an ndjson recording file into per-script lists of lines at Reset lines."""
    groups, cur = [], None
    with open(path) as f:
        for ln in f:
            ln = ln.rstrip("\n")
            if not ln:
                continue
            if reset_marker in ln:
                cur = []
                groups.append(cur)
            if cur is None:
                raise Inconclusive("recording does not start with a Reset line: " + path)
            cur.append(ln)
    return groups


def run_player(player, scratch, name, script_lines, shards, out_name="hist.ndjson", args_fn=None, timeout=1800, per_script=True, extra_args=(), lines_per_script=1):
    """Run a player binary on script lines (already serialised), sharded round-robin.
    Header lines (confdefs) are given to every shard. Returns list of (script_line, recording_lines)."""
    headers = [s for s in script_lines if '"confdef"' in s]
    body = [s for s in script_lines if '"confdef"' not in s]
    shards = max(1, min(shards, len(body) or 1))
    chunks = [body[i::shards] for i in range(shards)]

    def one(ix):
        ch = chunks[ix]
        if not ch:
            return []
        d = scratch.sub("%s-%d" % (name, ix))
        sp = os.path.join(d, "scripts.ndjson")
        with open(sp, "w") as f:
            for s in headers + ch:
                f.write(s + "\n")
        op = os.path.join(d, out_name)
        p = run([player, "-scripts", sp, "-out", op] + list(extra_args), cwd=d, timeout=timeout, check=False)
        if p.returncode != 0:
            raise Inconclusive("player %s failed rc=%d: %s %s" % (name, p.returncode, p.stdout.decode(errors="replace")[-500:], p.stderr.decode(errors="replace")[-2000:]))
        groups = split_recordings(op)
        if not per_script:
            # one recording per shard: [Reset, line per script ...]
            if len(groups) != 1 or len(groups[0]) not in (lines_per_script * len(ch) + 1, lines_per_script * len(ch) + 2):   # + a trailing summary line
                raise Inconclusive("player %s produced %d lines for %d scripts" % (name, sum(len(g) for g in groups), len(ch)))
            return [(ch, groups[0])]
        if len(groups) != len(ch):
            raise Inconclusive("player %s produced %d recordings for %d scripts" % (name, len(groups), len(ch)))
        return list(zip(ch, groups))

    out = []
    for r in pool_map(one, range(shards), workers=min(shards, NCPU)):
        out.extend(r)
    return out
